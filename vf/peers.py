"""In-memory peers for engine A."""
from __future__ import annotations

from vf.ref import http1 as ref
from vf.sansio import EOF, Peer


def cut(data: bytes, rng, mode):
    """Split data into segments. mode: 'whole' | 'bytes' | 'random' | int(split point) | list of cut points."""
    if not data:
        return []
    if mode == "whole":
        return [data]
    if mode == "bytes":
        return [data[i : i + 1] for i in range(len(data))]
    if isinstance(mode, int):
        k = max(1, min(len(data) - 1, mode)) if len(data) > 1 else 1
        return [s for s in (data[:k], data[k:]) if s]
    if isinstance(mode, (list, tuple)):
        pts = sorted({p for p in mode if 0 < p < len(data)})
        out, last = [], 0
        for p in pts + [len(data)]:
            out.append(data[last:p])
            last = p
        return [s for s in out if s]
    # random
    n = len(data)
    k = rng.choice([1, 1, 2, 3, 5, 8]) if n > 1 else 0
    pts = sorted({rng.randrange(1, n) for _ in range(min(k, n - 1))})
    out, last = [], 0
    for p in pts + [n]:
        out.append(data[last:p])
        last = p
    return out


def sequential_segments(reqs, rng, seg_mode):
    """Client segments for a client that sends request k only after it holds the answer to request k-1 and the proxy is
    quiescent (every byte the origins have written so far was delivered, no hook or connect pending)."""
    segs = []
    for k, q in enumerate(reqs):
        parts = cut(q["raw"], rng, seg_mode)
        if k > 0 and parts:
            prev = reqs[k - 1]["tag"]

            def gate(drv, prev=prev):
                return prev in bytes(drv.out[drv.client]) and not drv.pending and not any(qq for c, qq in drv.inbox.items() if c is not drv.client)

            parts[0] = (parts[0], gate)
        segs += parts
    return segs


class H1ServerPeer(Peer):
    """Reactive HTTP/1 origin: parses what the proxy wrote with the reference parser and answers request k
    with responder(k, request_msg) -> (response_bytes, close_after: bool) once that request is complete
    (so TCP causality holds by construction)."""

    def __init__(self, responder, rng=None, seg="whole", early_ok=None):
        """early_ok(k, head_msg) -> bool: answer request k as soon as its complete HEAD was written upstream (an origin that
        does not wait for the request body, e.g. during request streaming); still causal: the head has been received."""
        super().__init__()
        self.early_ok = early_ok
        self.responder = responder
        self.rng = rng
        self.seg = seg
        self.answered = 0
        self.requests = []
        self.status = "ok"
        self.reject_reason = None
        self.closed = False

    def _reparse(self):
        status, msgs, rest = ref.parse_requests(bytes(self.received))
        self.status = status
        if status == "reject":
            self.reject_reason = rest
        self.requests = msgs
        while self.answered < len(msgs) and not self.closed:
            k = self.answered
            self.answered += 1
            ans = self.responder(k, msgs[k], self)
            if ans is None:
                continue
            data, close_after = ans
            for s in cut(data, self.rng, self.seg):
                self.send(s)
            if close_after:
                self.close()
                self.closed = True
        if self.early_ok is not None and status == "incomplete" and not self.closed and self.answered == len(msgs):
            head, sep, _ = bytes(rest).lstrip(b"\r\n").partition(b"\r\n\r\n")
            parts = head.split(b"\r\n", 1)[0].split(b" ")
            if sep and len(parts) == 3:
                hm = {"method": parts[0].decode("latin-1"), "target": parts[1], "early": True}
                if self.early_ok(self.answered, hm):
                    k = self.answered
                    self.answered += 1
                    data, close_after = self.responder(k, hm, self)
                    for s in cut(data, self.rng, self.seg):
                        self.send(s)
                    if close_after:
                        self.close()
                        self.closed = True

    def on_data(self, data):
        self._reparse()

    def on_eof(self):
        self._reparse()
