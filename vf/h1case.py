"""Deterministic HTTP/1 case specs shared by C02/C03/C07/C12: everything the peers and the policy addon do is a
pure function of (spec, tag), so two executions of the same spec differ only in segmentation and schedule."""
from __future__ import annotations

import random
import re

from mitmproxy.proxy import layers
from mitmproxy.proxy.layers.http import HTTPMode

from vf import peers, sansio
from vf.gen import h1 as gen
from vf.ref import http1 as ref

TAG = re.compile(rb"t\d+-[0-9a-f]{6}")
MODES = ["regular", "regular", "transparent", "reverse:http://example.com:80"]


class ForceHttp:
    def next_layer(self, nl):
        regular = type(nl.context.client.proxy_mode).__name__ == "RegularMode"
        nl.layer = layers.HttpLayer(nl.context, HTTPMode.regular if regular else HTTPMode.transparent)


def top_factory(mode):
    if mode == "regular":
        return lambda c: layers.modes.HttpProxy(c)
    if mode.startswith("reverse"):
        return lambda c: layers.modes.ReverseProxy(c)
    return lambda c: layers.modes.TransparentProxy(c)


def build_spec(rng, *, n=None, hostile_p=0.6, resp_hostile_p=0.5, allow_1xx=False, policy_kinds=("pass", "addh", "body", "delay"), force_valid=False, streaming_p=0.0):
    mode = rng.choice(MODES)
    gmode = "regular" if mode == "regular" else "origin"
    n = n or rng.choice([1, 2, 2, 3, 4])
    streaming = bool(streaming_p) and rng.random() < streaming_p
    if streaming:
        # streamed messages that end in an error are relayed up to a schedule-dependent point (a genuine race between the two
        # directions, C03's subject): the streaming leg uses well-formed traffic, where every interleaving must give the same result
        force_valid, resp_hostile_p = True, 0.0
    reqs = [gen.gen_request(rng, k, mode=gmode, hostile_p=hostile_p, force_valid=force_valid) for k in range(n)]
    spec = {
        "mode": mode,
        "reqs": reqs,
        "salt": rng.getrandbits(32),
        "resp_hostile_p": resp_hostile_p,
        "allow_1xx": allow_1xx,
        "policy_kinds": tuple(policy_kinds),
    }
    if streaming:
        # body streaming: option-driven (stream_large_bodies) and/or addon-driven (message.stream = True at the *headers hook,
        # a pure function of the tag); early = the origin answers as soon as it has the request head (legal HTTP, e.g. 413).
        spec["streaming"] = {
            "stream_large_bodies": rng.choice([None, None, "1", "12"]),
            "store_streamed_bodies": rng.random() < 0.5,
            "req_p": rng.choice([0.0, 0.5, 1.0]),
            "resp_p": rng.choice([0.0, 0.5, 1.0]),
            "early": rng.random() < 0.6,
        }
    return spec


def response_for(spec, tag, method):
    r = random.Random(f"{spec['salt']}/{tag!r}/{method}")
    for _ in range(20):
        rs = gen.gen_response(r, tag, method, hostile_p=spec["resp_hostile_p"], allow_extra_after=spec.get("allow_extra_after", False))
        if not spec["allow_1xx"] and "resp-1xx" in rs["feats"]:
            continue
        break
    if spec.get("unsolicited_p") and not rs["close_after"] and rs["framing"] in ("cl", "chunked") and "resp-1xx" not in rs["feats"] and r.random() < spec["unsolicited_p"]:
        # the origin writes something it was not asked for right behind a complete response (idle-timeout 408, garbage)
        extra = r.choice([b"HTTP/1.1 408 Request Timeout\r\nContent-Length: 0\r\n\r\n", b"HTTP/1.1 200 OK\r\nContent-Length: 5\r\n\r\nstale", b"EXTRA-" + tag])
        rs = dict(rs, raw=rs["raw"] + extra, feats=set(rs["feats"]) | {"r-unsolicited-after"})
    if tag in spec.get("ws_refused", ()) and "resp-1xx" not in rs["feats"] and rs["status"] != 101:
        # the origin refuses a WebSocket handshake but still names the protocol (426 Upgrade Required must, others may)
        head, sep, rest = rs["raw"].partition(b"\r\n\r\n")
        rs = dict(rs, raw=head + b"\r\nUpgrade: websocket\r\nSec-WebSocket-Version: 13" + sep + rest, feats=set(rs["feats"]) | {"r-ws-refused"})
    if rs["close_after"] and b"onnection: close" not in rs["raw"].split(b"\r\n\r\n", 1)[0]:
        # make the close visible in the head so that not reusing the connection is protocol-determined, not a race
        head, sep, rest = rs["raw"].partition(b"\r\n\r\n")
        rs = dict(rs, raw=head + b"\r\nConnection: close" + sep + rest)
    return rs


def policy_action(spec, tag, hookname):
    r = random.Random(f"{spec['salt']}/pol/{tag!r}/{hookname}")
    return r.choice(spec["policy_kinds"]), r


def make_policy(spec, kinds_out):
    def policy(drv, hook):
        f = getattr(hook, "flow", None)
        if f is None or not hasattr(f, "request"):
            return None
        st = spec.get("streaming")
        if st and hook.name in ("requestheaders", "responseheaders"):
            m = TAG.search(f.request.path.encode("latin-1", "replace"))
            tag = m.group(0) if m else b"?"
            _, r = policy_action(spec, tag, hook.name)
            msg = f.request if hook.name == "requestheaders" else f.response
            if msg is not None and r.random() < st["req_p" if hook.name == "requestheaders" else "resp_p"]:
                msg.stream = True
                kinds_out.add(f"{hook.name}:stream")
            return "delay" if r.random() < 0.2 else None
        if hook.name not in ("request", "response"):
            return None
        m = TAG.search(f.request.path.encode("latin-1", "replace"))
        tag = m.group(0) if m else b"?"
        a, r = policy_action(spec, tag, hook.name)
        msg = f.request if hook.name == "request" else f.response
        if msg is None:
            return None
        if msg.stream:
            # the message has been relayed already: edits now are too late to have any effect on the wire
            kinds_out.add(f"{hook.name}:streamed")
            return "delay" if a == "delay" else None
        if a == "addh":
            msg.headers.add("x-edit", "e%d" % r.randint(0, 99))
        elif a == "body":
            nobody = hook.name == "response" and (f.request.method.upper() == "HEAD" or f.response.status_code in (204, 304) or 100 <= f.response.status_code < 200)
            if not nobody:
                msg.content = b"edited:" + bytes(r.choice(b"qrs") for _ in range(r.randint(0, 30)))
        kinds_out.add(f"{hook.name}:{a}")
        return "delay" if a == "delay" else None

    return policy


def execute(spec, opts, rng, *, client_seg="whole", server_seg="whole", schedule="fifo", extra_policy=None, m3=(), open_plan=None, max_steps=3000,
            client_cut=None, server_cut=None, client_eof=False, addons=None, early_origin=False, setup=None):
    """Run one execution of spec. setup(driver) runs before the driver starts (e.g. to add injected actions).
    Returns (driver, info).
    Faults: client_cut=o  -> the client sends only the first o bytes, then closes;
            server_cut=(k, o) -> the k-th response written by any origin is truncated to o bytes, then the origin closes;
            client_eof -> client half-closes after its last byte (instead of staying open until teardown)."""
    mode = spec["mode"]
    reqs = spec["reqs"]
    resp_feats = set()

    def responder(k, msg, peer):
        m = TAG.search(msg["target"])
        tag = m.group(0) if m else b"unknown"
        rs = response_for(spec, tag, msg["method"])
        resp_feats.update(rs["feats"])
        nresp[0] += 1
        if server_cut is not None and server_cut[0] == nresp[0] - 1:
            return rs["raw"][: server_cut[1]], True
        return rs["raw"], rs["close_after"]

    nresp = [0]
    kinds = set()
    base_policy = make_policy(spec, kinds)

    def policy(drv, hook):
        v = base_policy(drv, hook)
        if extra_policy is not None:
            v2 = extra_policy(drv, hook)
            if v2 is not None:
                return v2
        return v

    st = spec.get("streaming")
    early_ok = None
    if (st and st["early"]) or early_origin:
        def early_ok(k, hm):
            m = TAG.search(hm["target"])
            rs = response_for(spec, m.group(0) if m else b"unknown", hm["method"])
            # an early answer that closes the connection makes the fate of the rest of the upload a genuine race
            return not rs["close_after"] and rs["framing"] in ("cl", "chunked")
    if st:
        opts.update(stream_large_bodies=st["stream_large_bodies"], store_streamed_bodies=st["store_streamed_bodies"])
    try:
        return _execute(spec, opts, rng, client_seg, server_seg, schedule, policy, m3, open_plan, max_steps, client_cut, server_cut, client_eof, addons,
                        responder, early_ok, resp_feats, kinds, setup)
    finally:
        if st:
            opts.update(stream_large_bodies=None, store_streamed_bodies=False)


def _execute(spec, opts, rng, client_seg, server_seg, schedule, policy, m3, open_plan, max_steps, client_cut, server_cut, client_eof, addons,
             responder, early_ok, resp_feats, kinds, setup=None):
    mode = spec["mode"]
    reqs = spec["reqs"]
    client = sansio.make_client(mode)
    d = sansio.Driver(
        top_factory(mode),
        client=client,
        options=opts,
        rng=rng,
        addons=addons if addons is not None else [ForceHttp()],
        policy=policy,
        server_factory=lambda drv, conn: peers.H1ServerPeer(responder, rng, server_seg, early_ok=early_ok),
        schedule=schedule,
        snapshot=sansio.http_snapshot,
        m3=m3,
        open_plan=open_plan,
        max_steps=max_steps,
    )
    if mode == "transparent":
        d.context.server.address = ("example.com", 80)
    stream = b"".join(q["raw"] for q in reqs)
    if client_cut is not None:
        stream = stream[:client_cut]
    if spec.get("sequential") and client_cut is None:
        # a client that sends request k only after it holds the answer to request k-1 and the proxy is quiescent
        # (every byte the origins have written so far was delivered, no hook or connect pending)
        segs = peers.sequential_segments(reqs, rng, client_seg)
    else:
        segs = peers.cut(stream, rng, client_seg)
    if client_cut is not None or client_eof:
        segs = segs + [sansio.EOF]
    d.attach_client_peer(sansio.ScriptPeer(segs))
    if setup is not None:
        setup(d)
    d.start()
    d.run()
    d.teardown()
    return d, {"stream": stream, "nsegs": len(segs), "resp_feats": resp_feats, "kinds": kinds}


def outcome(d, spec):
    """Schedule-independent summary of an execution: per-flow records, semantic upstream messages, client responses."""
    flows = {}
    order = []
    for step, name, hook, snap in d.hooks:
        if snap is None:
            continue
        fid = snap["id"]
        if fid not in flows:
            flows[fid] = {"hooks": [], "request": None, "response": None, "error": None}
            order.append(fid)
        rec = flows[fid]
        rec["hooks"].append(name)
        if name in ("requestheaders", "request"):
            rec["request"] = snap["request"]
        if name in ("responseheaders", "response"):
            rec["response"] = snap["response"]
        if name == "error":
            rec["error"] = snap["error"]
    flow_list = []
    for fid in order:
        rec = flows[fid]

        def strip(m):
            if m is None:
                return None
            return {k: v for k, v in m.items()}

        hooks = tuple(rec["hooks"])
        if spec.get("streaming"):
            # with a streamed request the origin may answer before the upload has ended: request-side and response-side hooks of
            # one flow then interleave according to the arrival order of the two directions. Schedule-independent is the order
            # within each direction.
            hooks = (tuple(h for h in hooks if h in ("requestheaders", "request", "error")), tuple(h for h in hooks if h in ("responseheaders", "response", "error")))
        flow_list.append((hooks, _freeze(strip(rec["request"])), _freeze(strip(rec["response"])), rec["error"]))
    up = []
    for conn in d.servers:
        status, msgs, rest = ref.parse_requests(bytes(d.out[conn]))
        for m in msgs:
            up.append((m["method"], m["target"], tuple(ref.norm_headers(m["headers"])), m["body"]))
        if status != "ok" or rest:
            up.append(("UNPARSED", status, bytes(rest) if isinstance(rest, (bytes, bytearray)) else rest))
    up.sort(key=repr)
    status, msgs, rest = ref.parse_responses(bytes(d.out[d.client]), [q["method"] for q in spec["reqs"]], eof=True)
    down = [(m["status"], tuple(ref.norm_headers(m["headers"])), m["body"]) for m in msgs]
    if status != "ok" or rest:
        down.append(("UNPARSED", status, bytes(rest) if isinstance(rest, (bytes, bytearray)) else rest))
    return {"flows": flow_list, "up": up, "down": down}


def _freeze(o):
    if isinstance(o, dict):
        return tuple(sorted((k, _freeze(v)) for k, v in o.items()))
    if isinstance(o, (list, tuple)):
        return tuple(_freeze(x) for x in o)
    return o
