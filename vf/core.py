"""Core of the runtime-monitoring harness: case runner, verdicts, evidence, known findings.

A check module (checks/cNN.py) defines

    PROPERTY = "C51"
    LEVEL = "exploration"            # evidence/manifest level category
    BUDGET = {"quick": (n_cases, seconds), "thorough": (n_cases, seconds)}   # per worker
    WORKERS = {"quick": 2, "thorough": 16}                                   # optional
    REQUIRED = ["monitor.name", ...]   # counters that must be > 0, else the run is inconclusive
    RULE = "how cases are generated and what makes one distinct / non-trivial"
    ASSUMPTIONS = [...]
    def run(ctx): ...

and inside run() loops ``for i in ctx.cases():`` using ``ctx.rng`` (a per-case random.Random),
calls ``ctx.case(signature, nontrivial, sample)`` once per executed case, ``ctx.count(name)`` for
every monitor evaluation, and ``ctx.violation(kind, witness, mechanism=None)`` when an oracle fails.

The parent process (``./check``) starts WORKERS subprocesses of ``vf.worker`` (subprocess.run with a
timeout each -- never multiprocessing.Pool), merges their JSON results, classifies violations against
known_findings.json (read-only) and writes evidence/<id>.json.
"""
from __future__ import annotations

import hashlib
import importlib
import json
import os
import random
import subprocess
import sys
import time
import traceback
from concurrent.futures import ThreadPoolExecutor
from pathlib import Path

ROOT = Path(__file__).resolve().parent.parent
PY = "/venv/bin/python"
REPO = os.environ.get("VERIF_REPO", "/repo")  # scratch worktree for mutant self-tests; default: the real tree
MAX_SIGS = 400_000
MAX_VIOL_PER_MECH = 5


class Inconclusive(Exception):
    pass


def short(obj, n=300):
    """repr() trimmed for samples / witnesses."""
    r = obj if isinstance(obj, str) else repr(obj)
    return r if len(r) <= n else r[: n - 12] + f"...(+{len(r) - n + 12})"


def jsonable(o, depth=0):
    if depth > 6:
        return short(o, 120)
    if isinstance(o, (str, int, float, bool)) or o is None:
        return o if not isinstance(o, str) else (o if len(o) < 4000 else o[:4000] + "...")
    if isinstance(o, (bytes, bytearray)):
        b = bytes(o)
        return {"__bytes_hex__": b.hex()} if len(b) <= 8000 else {"__bytes_hex__": b[:8000].hex(), "truncated_from": len(b)}
    if isinstance(o, dict):
        return {str(k): jsonable(v, depth + 1) for k, v in o.items()}
    if isinstance(o, (list, tuple, set, frozenset)):
        return [jsonable(v, depth + 1) for v in o]
    return short(o, 400)


def unjson(o):
    if isinstance(o, dict):
        if "__bytes_hex__" in o:
            return bytes.fromhex(o["__bytes_hex__"])
        return {k: unjson(v) for k, v in o.items()}
    if isinstance(o, list):
        return [unjson(v) for v in o]
    return o


class Ctx:
    def __init__(self, prop, tier, seed, worker, nworkers, n_cases, seconds, only_case=None):
        self.prop = prop
        self.tier = tier
        self.seed = seed
        self.worker = worker
        self.nworkers = nworkers
        self.n_cases = n_cases
        self.seconds = seconds
        self.only_case = only_case
        self.rng = random.Random(f"{seed}/{prop}/{worker}/init")
        self.case_index = -1
        self.evaluations = 0
        self.sigs: set[str] = set()
        self.samples: list = []
        self.counters: dict[str, int] = {}
        self.violations: list[dict] = []
        self._viol_per_mech: dict[str, int] = {}
        self.viol_total = 0
        self.extra: dict = {}
        self.sets: dict[str, set] = {}
        self.t0 = time.monotonic()
        self.timed_out = False
        self.min_cases = 0  # cases that are run even if the time budget is already used up (slow start under load)

    # ---- iteration -------------------------------------------------------------------------
    def case_rng(self, i, salt=""):
        return random.Random(f"{self.seed}/{self.prop}/{self.worker}/{i}/{salt}")

    def cases(self, n=None, frac=1.0):
        """Yield case indices until n (default BUDGET count) or frac of the time budget is used."""
        n = self.n_cases if n is None else n
        if self.only_case is not None:
            self.case_index = self.only_case
            self.rng = self.case_rng(self.only_case)
            yield self.only_case
            return
        deadline = self.t0 + self.seconds * frac
        for i in range(n):
            now = time.monotonic()
            if now > deadline and (i >= self.min_cases or now > self.t0 + 3 * self.seconds + 30):
                self.timed_out = True
                break
            self.case_index = i
            self.rng = self.case_rng(i)
            yield i

    def time_left(self):
        return self.seconds - (time.monotonic() - self.t0)

    # ---- recording -------------------------------------------------------------------------
    def case(self, sig, nontrivial=True, sample=None):
        self.evaluations += 1
        if nontrivial:
            s = sig if isinstance(sig, str) else repr(sig)
            if len(s) > 200:
                s = s[:160] + "#" + hashlib.sha1(s.encode("utf8", "replace")).hexdigest()[:16]
            if len(self.sigs) < MAX_SIGS:
                self.sigs.add(s)
            if sample is not None and len(self.samples) < 4:
                self.samples.append(jsonable(sample))

    def count(self, name, n=1):
        self.counters[name] = self.counters.get(name, 0) + n

    def seen(self, setname, value):
        """Record a distinct observed state / hook sequence / exception site."""
        s = self.sets.setdefault(setname, set())
        if len(s) < 50_000:
            s.add(value if isinstance(value, str) else repr(value))

    def violation(self, kind, witness, mechanism=None):
        """An oracle failed. mechanism = classifier output (condition on the input/history), or None."""
        self.viol_total += 1
        key = mechanism or f"?{kind}"
        k = self._viol_per_mech.get(key, 0)
        self._viol_per_mech[key] = k + 1
        if k < MAX_VIOL_PER_MECH:
            self.violations.append(
                {
                    "kind": kind,
                    "mechanism": mechanism,
                    "case": {"worker": self.worker, "nworkers": self.nworkers, "index": self.case_index},
                    "witness": jsonable(witness),
                }
            )

    def guard(self, fn, *a, what="case", classify=None, **kw):
        """Run fn; an unexpected exception escaping the harness/real code becomes a violation."""
        try:
            return fn(*a, **kw)
        except Inconclusive:
            self.count("inconclusive_cases")
        except Exception as e:  # noqa
            site = exc_site(e)
            mech = classify(e, site) if classify else None
            self.violation(
                f"unexpected-exception:{type(e).__name__}@{site}",
                {"what": what, "exc": short(repr(e)), "tb": traceback.format_exc()[-1500:]},
                mech,
            )
        return None

    def result(self):
        return {
            "evaluations": self.evaluations,
            "sigs": sorted(self.sigs),
            "samples": self.samples,
            "counters": self.counters,
            "violations": self.violations,
            "viol_total": self.viol_total,
            "viol_per_mech": self._viol_per_mech,
            "sets": {k: sorted(v)[:20000] for k, v in self.sets.items()},
            "extra": jsonable(self.extra),
            "timed_out": self.timed_out,
            "wall_s": time.monotonic() - self.t0,
        }


def exc_site(e: BaseException) -> str:
    """Innermost frame inside mitmproxy (else innermost frame): 'file.py:func'."""
    tb = e.__traceback__
    best = None
    last = None
    while tb is not None:
        fn = tb.tb_frame.f_code.co_filename
        name = f"{os.path.basename(fn)}:{tb.tb_frame.f_code.co_name}"
        last = name
        if "/mitmproxy/" in fn and "/verif/" not in fn:
            best = name
        tb = tb.tb_next
    return best or last or "?"


# ---------------------------------------------------------------------------------------------
# worker entry
# ---------------------------------------------------------------------------------------------

def load_module(prop):
    return importlib.import_module(f"checks.{prop.lower()}")


def budget_for(mod, tier):
    b = getattr(mod, "BUDGET", {"quick": (2000, 20), "thorough": (200000, 240)})
    n, s = b[tier]
    scale = float(os.environ.get("VERIF_BUDGET_SCALE", "1"))
    return int(n * scale) if scale != 1 else n, s * scale


def run_worker(prop, tier, seed, worker, nworkers, out, only_case=None):
    mod = load_module(prop)
    n, s = budget_for(mod, tier)
    ctx = Ctx(prop, tier, seed, worker, nworkers, n, s, only_case)
    ctx.min_cases = getattr(mod, "MIN_CASES", {}).get(tier, 20)  # default: 20 cases per worker even when start-up ate the time budget
    err = None
    try:
        mod.run(ctx)
    except Inconclusive as e:
        err = f"inconclusive: {e}"
    except Exception:
        err = traceback.format_exc()
    res = ctx.result()
    res["harness_error"] = err
    Path(out).write_text(json.dumps(res))


# ---------------------------------------------------------------------------------------------
# parent
# ---------------------------------------------------------------------------------------------

def known_findings(prop):
    p = ROOT / "known_findings.json"
    if not p.exists():
        return {}
    data = json.loads(p.read_text())
    entries = list(data.get("findings", []))
    extra = os.environ.get("VERIF_EXTRA_FINDINGS")  # authoring aid only: proposed entries, never used by MANIFEST commands
    if extra and Path(extra).exists():
        x = json.loads(Path(extra).read_text())
        entries += x if isinstance(x, list) else x.get("findings", [])
    return {e["mechanism"]: e for e in entries if e["property"] == prop and e.get("status") == "known"}


def env_for_worker():
    env = dict(os.environ)
    env["PYTHONHASHSEED"] = "0"
    env["PYTHONPATH"] = f"{ROOT}:{REPO}" + (":" + env["PYTHONPATH"] if env.get("PYTHONPATH") else "")
    env["PYTHONDONTWRITEBYTECODE"] = "1"
    env["MITMPROXY_VERIF"] = "1"
    env.setdefault("HOME", "/root")
    return env


def main_check(prop, tier, seed, replay=None, workers=None):
    t0 = time.monotonic()
    prop = prop.upper()
    sys.path.insert(0, str(ROOT))
    mod = load_module(prop)
    level = getattr(mod, "LEVEL", "exploration")
    only_case = None
    if replay:
        rp = json.loads(Path(replay).read_text())
        seed = rp["seed"]
        tier = rp["tier"]
        nworkers = rp["case"]["nworkers"]
        worker_ids = [rp["case"]["worker"]]
        only_case = rp["case"]["index"]
    else:
        nworkers = workers or getattr(mod, "WORKERS", {}).get(tier, 2 if tier == "quick" else 16)
        worker_ids = list(range(nworkers))
    n, s = budget_for(mod, tier)
    tmpdir = Path(os.environ.get("VERIF_TMP", "/tmp")) / f"vf-{prop}-{os.getpid()}"
    tmpdir.mkdir(parents=True, exist_ok=True)
    env = env_for_worker()
    hard_timeout = s * 3 + 120

    def launch(w):
        out = tmpdir / f"w{w}.json"
        cmd = [PY, "-m", "vf.worker", prop, tier, str(seed), str(w), str(nworkers), str(out)]
        if only_case is not None:
            cmd.append(str(only_case))
        try:
            p = subprocess.run(cmd, env=env, cwd=REPO, timeout=hard_timeout, capture_output=True, text=True)
            if out.exists():
                r = json.loads(out.read_text())
                r["stderr_tail"] = p.stderr[-800:]
                r["rc"] = p.returncode
                return r
            return {"harness_error": f"worker {w} rc={p.returncode} no output\n{p.stderr[-3000:]}"}
        except subprocess.TimeoutExpired:
            return {"harness_error": f"worker {w} watchdog timeout after {hard_timeout}s", "watchdog": True}

    with ThreadPoolExecutor(max_workers=len(worker_ids)) as ex:
        results = list(ex.map(launch, worker_ids))
    for f in tmpdir.glob("*"):
        f.unlink()
    tmpdir.rmdir()

    # ---- merge
    evaluations = 0
    sigs: set[str] = set()
    samples = []
    counters: dict[str, int] = {}
    violations = []
    viol_per_mech: dict[str, int] = {}
    sets: dict[str, set] = {}
    extra = {}
    errors = []
    timed_out = 0
    for r in results:
        if r.get("harness_error"):
            errors.append(r["harness_error"])
        evaluations += r.get("evaluations", 0)
        sigs.update(r.get("sigs", []))
        for smp in r.get("samples", []):
            if len(samples) < 5:
                samples.append(smp)
        for k, v in r.get("counters", {}).items():
            counters[k] = counters.get(k, 0) + v
        violations.extend(r.get("violations", []))
        for k, v in r.get("viol_per_mech", {}).items():
            viol_per_mech[k] = viol_per_mech.get(k, 0) + v
        for k, v in r.get("sets", {}).items():
            sets.setdefault(k, set()).update(v)
        for k, v in (r.get("extra") or {}).items():
            extra.setdefault(k, v)
        timed_out += 1 if r.get("timed_out") else 0

    known = known_findings(prop)
    real = [v for v in violations if not (v["mechanism"] and v["mechanism"] in known)]
    known_hit = sorted({v["mechanism"] for v in violations if v["mechanism"] and v["mechanism"] in known})
    n_real = sum(c for m, c in viol_per_mech.items() if m not in known)

    required = list(getattr(mod, "REQUIRED", []))
    missing = [c for c in required if counters.get(c, 0) == 0]
    inconclusive = bool(errors) or ((bool(missing) or evaluations == 0 or (len(sigs) < 2 and not real)) and not replay)

    evidence = {
        "property_id": prop,
        "tier": tier,
        "seed": int(seed),
        "level": level,
        "coverage": {
            "evaluations": evaluations,
            "distinct_nontrivial": len(sigs),
            "rule": getattr(mod, "RULE", ""),
            "samples": samples or ["(no sample recorded)"],
            "monitor_evals": counters,
            "distinct_observed": {k: len(v) for k, v in sets.items()},
            "observed_examples": {k: sorted(v)[:12] for k, v in sets.items()},
            "known_findings_hit": {m: viol_per_mech.get(m, 0) for m in known_hit},
            "workers": len(worker_ids),
            "workers_stopped_by_time_budget": timed_out,
            "inconclusive": inconclusive,
            "harness_errors": [e[-600:] for e in errors][:3],
            **({"exhaustive": True} if getattr(mod, "EXHAUSTIVE", False) and not timed_out else {}),
            **extra,
        },
        "assumptions": list(getattr(mod, "ASSUMPTIONS", [])),
        "wall_s": round(time.monotonic() - t0, 2),
        "violations": n_real,
    }
    if not replay and not os.environ.get("VERIF_NO_EVIDENCE"):
        (ROOT / "evidence").mkdir(exist_ok=True)
        (ROOT / "evidence" / f"{prop}.json").write_text(json.dumps(evidence, indent=1, sort_keys=True) + "\n")

    for m in known_hit:
        print(f"KNOWN-FINDING: property={prop} {m}: {known[m]['what']} (seen {viol_per_mech.get(m, 0)}x)")
    rc = 0
    if real:
        rdir = ROOT / "replays" / prop
        rdir.mkdir(parents=True, exist_ok=True)
        shown = set()
        for v in real:
            key = v["mechanism"] or v["kind"]
            if key in shown:
                continue
            shown.add(key)
            path = rdir / f"{seed}-{tier}-w{v['case']['worker']}-c{v['case']['index']}.json"
            if not replay and not os.environ.get("VERIF_NO_EVIDENCE"):
                path.write_text(json.dumps({"property": prop, "seed": int(seed), "tier": tier, **v}, indent=1))
            print(f"VIOLATION property={prop} replay={path}")
            print(f"  kind={v['kind']} mechanism={v['mechanism']} witness={short(json.dumps(v['witness']), 700)}")
            if len(shown) >= 12:
                break
        rc = 1
    elif inconclusive:
        print(f"INCONCLUSIVE property={prop} errors={len(errors)} missing_monitors={missing} evaluations={evaluations} distinct={len(sigs)}")
        for e in errors[:2]:
            print(e[-2500:])
        rc = 2
    print(
        f"{prop} {tier} seed={seed}: evaluations={evaluations} distinct_nontrivial={len(sigs)} "
        f"violations={n_real} known={len(known_hit)} wall={evidence['wall_s']}s "
        f"monitors={json.dumps(counters, sort_keys=True)[:600]}"
    )
    return rc
