"""Engine B leg for C08 (derived from vf/httphandler.py): the real HttpProxy/HttpLayer inside the real
ProxyConnectionHandler on the virtual-time loop, so that ConnectionHandler.open_connection -- the code that turns a
Server object into a socket -- is the real one.  asyncio.open_connection is replaced by a fake that records the
(host, port) actually dialled per socket; every socket is a reactive HTTP/1 origin that records the request heads it got.

plan = {
  "requests":  [(tag, host, port, method)],      absolute-form requests on ONE client connection (regular mode)
  "pipelined": bool,                              all at once / each after the previous answer
  "rewrite":   {dial_index: (host, port) | "same"}  what the addon's server_connect hook assigns to data.server.address
  "rewrite_delay": float,                         the (async) server_connect hook takes that long
  "origin_close": [bool],                         origin closes after its i-th answer (per socket)
  "connect": ["ok" | "refuse"],                   per dial
}
"""
from __future__ import annotations

import asyncio
import re

from mitmproxy import options as moptions
from mitmproxy.addons import proxyserver
from mitmproxy.proxy import layers, mode_servers, mode_specs, server
from mitmproxy.proxy.layers.http import HTTPMode

from vf import vloop

TAG = re.compile(rb"t\d+-[0-9a-f]{6}")


class _Addons:
    def __init__(self, plan, loop, res):
        self.plan, self.vloop, self.res = plan, loop, res
        self.n_connect = 0

    async def handle_lifecycle(self, hook):
        name = hook.name
        res = self.res
        if name == "next_layer":
            nl = hook.args()[0]
            nl.layer = layers.HttpLayer(nl.context, HTTPMode.regular)
            return
        if name == "server_connect":
            data = hook.args()[0]
            k = self.n_connect
            self.n_connect += 1
            before = tuple(data.server.address)
            rw = self.plan["rewrite"].get(k)
            if self.plan["rewrite_delay"]:
                await asyncio.sleep(self.plan["rewrite_delay"])
            if rw is not None:
                new = before if rw == "same" else tuple(rw)
                data.server.address = new  # the connection is still closed: documented use of this hook
                res.rewritten.append((id(data.server), before, new))
            res.connect_hooks.append((data.server, before, tuple(data.server.address)))
        elif name == "server_connected":
            data = hook.args()[0]
            s = data.server
            res.connected.append((s, tuple(s.address), tuple(s.peername) if s.peername else None, tuple(s.sockname) if s.sockname else None))
        flow = getattr(hook, "flow", None)
        if flow is not None and getattr(flow, "request", None) is not None:
            m = TAG.search(flow.request.path.encode("latin-1", "replace"))
            if m:
                tag = m.group(0)
                if name == "request":
                    res.dest[tag] = (flow.request.host, flow.request.port)
                    res.flows[tag] = flow
                elif name == "responseheaders":
                    sc = flow.server_conn
                    res.used[tag] = (sc, tuple(sc.address) if sc.address else None, tuple(sc.sockname) if sc.sockname else None)
        res.hooks.append((self.vloop.now(), name))


class _Master:
    def __init__(self, addons):
        self.addons = addons


class _Handler(mode_servers.ProxyConnectionHandler):
    def log(self, *a, **k):
        pass


class Result:
    def __init__(self):
        self.hooks = []
        self.dest = {}          # tag -> (host, port) at the end of the request hook
        self.flows = {}
        self.used = {}          # tag -> (Server object, its address, its sockname) when the response head arrived
        self.connect_hooks = []  # (Server, address before the hook, address after the hook)
        self.connected = []     # (Server, address, peername, sockname) at server_connected
        self.rewritten = []
        self.sockets = []       # per dial: {"dialled": (host, port), "how", "sockname", "writer", "tags": [..]}
        self.deadlock = False
        self.client_out = b""

    def hook_names(self):
        return [h[1] for h in self.hooks]


def gen_plan(r, hosts=("x.test", "y.test", "z.test"), ports=(80, 8080)):
    n = r.choice([2, 2, 3, 4, 5, 6])
    pool = [(r.choice(hosts), r.choice(ports)) for _ in range(r.choice([1, 2, 2, 3]))]
    reqs = []
    for k in range(n):
        h, p = r.choice(pool)
        reqs.append(("t%d-%06x" % (k, r.getrandbits(24)), h, p, r.choice(["GET", "GET", "POST"])))
    rewrite = {}
    for k in range(n + 2):
        if r.random() < 0.45:
            rewrite[k] = r.choice([r.choice(pool), r.choice(pool), r.choice(pool), (r.choice(hosts), r.choice(ports)), "same"])
    return {
        "requests": reqs,
        "pipelined": r.random() < 0.4,
        "rewrite": rewrite,
        "rewrite_delay": r.choice([0, 0, 0.05, 1]),
        "origin_close": [r.random() < 0.2 for _ in range(4)],
        "connect": [r.choice(["ok"] * 9 + ["refuse"]) for _ in range(4)],
    }


def run_plan(plan):
    res = Result()
    loop = vloop.VLoop()
    asyncio.set_event_loop(loop)
    restore = vloop.patch_time(loop, server)
    world = vloop.World(loop)
    orig_open = asyncio.open_connection

    async def fake_open(host, port, local_addr=None, **kw):
        k = len(res.sockets)
        how = plan["connect"][k % len(plan["connect"])]
        rec = {"dialled": (host, port), "how": how, "sockname": ("192.0.2.1", 20000 + k), "tags": [], "writer": None}
        res.sockets.append(rec)
        await asyncio.sleep(0.01)
        if how == "refuse":
            raise ConnectionRefusedError("Connection refused (injected)")
        reader = vloop.FakeReader()
        writer = vloop.FakeWriter(world, f"srv{k}", (host, port), peername=(host, port), sockname=rec["sockname"])
        rec["writer"] = writer
        world.opened(writer)
        answered = [0]

        async def origin():
            while not writer.closed:
                await asyncio.sleep(0.01)
                data = bytes(writer.buf)
                heads = []
                pos = 0
                while True:
                    he = data.find(b"\r\n\r\n", pos)
                    if he < 0:
                        break
                    head = data[pos:he]
                    cl = 0
                    for line in head.lower().split(b"\r\n")[1:]:
                        if line.startswith(b"content-length:"):
                            cl = int(line.split(b":", 1)[1])
                    if len(data) < he + 4 + cl:
                        break
                    pos = he + 4 + cl
                    heads.append(head)
                while answered[0] < len(heads) and not writer.closed:
                    i = answered[0]
                    answered[0] += 1
                    m = TAG.search(heads[i].split(b"\r\n", 1)[0])
                    tag = m.group(0) if m else b"none"
                    rec["tags"].append(tag)
                    close = plan["origin_close"][i % len(plan["origin_close"])]
                    reader.feed(b"HTTP/1.1 200 OK\r\nx-tag: " + tag + b"\r\n" + (b"Connection: close\r\n" if close else b"") + b"Content-Length: 2\r\n\r\nok")
                    if close:
                        reader.feed_eof()
                        return

        t = loop.create_task(origin())
        writer.on_close = t.cancel
        return reader, writer

    asyncio.open_connection = fake_open
    try:
        opts = moptions.Options()
        proxyserver.Proxyserver().load(opts)
        opts.update(tcp_timeout=30)
        creader = vloop.FakeReader()
        cwriter = vloop.FakeWriter(world, "client", None, peername=("192.0.2.10", 50123), sockname=("192.0.2.1", 8080))

        async def main():
            addons = _Addons(plan, loop, res)
            h = _Handler(_Master(addons), creader, cwriter, opts, mode_specs.ProxyMode.parse("regular"))

            async def client_script():
                for i, (tag, host, port, method) in enumerate(plan["requests"]):
                    au = host if port == 80 else f"{host}:{port}"
                    raw = f"{method} http://{au}/{tag} HTTP/1.1\r\nHost: {au}\r\n".encode()
                    if method == "POST":
                        raw += b"Content-Length: 3\r\n\r\nabc"
                    else:
                        raw += b"\r\n"
                    creader.feed(raw)
                    if not plan["pipelined"]:
                        for _ in range(600):
                            if bytes(cwriter.buf).count(b"HTTP/1.1 ") > i or cwriter.closed:
                                break
                            await asyncio.sleep(0.01)
                await asyncio.sleep(3)
                creader.feed_eof()

            cs = loop.create_task(client_script())
            try:
                await h.handle_client()
            finally:
                cs.cancel()
            return h

        h, dead = vloop.run(loop, main())
        res.deadlock = dead
        if not dead:
            vloop.drain(loop)
        res.client_out = bytes(cwriter.buf)
        return res
    finally:
        asyncio.open_connection = orig_open
        restore()
        try:
            for t in asyncio.all_tasks(loop):
                t.cancel()
            loop.run_until_complete(asyncio.sleep(0))
        except BaseException:
            pass
        loop.close()
        asyncio.set_event_loop(None)
