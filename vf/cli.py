import argparse
import os
import sys

from vf.core import main_check


def main():
    ap = argparse.ArgumentParser()
    ap.add_argument("prop")
    ap.add_argument("--tier", default=os.environ.get("VERIF_TIER") or "quick", choices=["quick", "thorough"])
    ap.add_argument("--seed", type=int, default=int(os.environ.get("VERIF_SEED") or 0))
    ap.add_argument("--replay")
    ap.add_argument("--workers", type=int)
    a = ap.parse_args()
    sys.exit(main_check(a.prop, a.tier, a.seed, a.replay, a.workers))


if __name__ == "__main__":
    main()
