"""Engine B for raw TCP: the real TCPLayer inside the real ProxyConnectionHandler (mitmproxy/proxy/server.py,
mode_servers.py) on the virtual-time loop (vf/vloop.py) with in-memory client and origin sockets.

Unlike engine A (vf/sansio.py) everything around the layer is mitmproxy's own asyncio code: handle_connection (EOF ->
state change -> ConnectionClosed, parked half-closed handlers), open_connection, hook tasks, drain_writers, the
inactivity watchdog, close_connection and the teardown in handle_client.  A plan scripts the two peers (timed data /
EOF / reset, then silence), the connect outcome, tcp_timeout, drain() errors and slow async hooks; run_plan() returns the
recorded hooks (with start and end time), the handler's ERROR logs and what each peer received.
"""
from __future__ import annotations

import asyncio
import errno
import logging
import os
import socket

from mitmproxy import options as moptions
from mitmproxy.addons import proxyserver
from mitmproxy.proxy import layers, mode_servers, mode_specs, server

from vf import vloop

TCP_HOOKS = ("tcp_start", "tcp_message", "tcp_end", "tcp_error")
LIFECYCLE = ("server_connect", "server_connected", "server_connect_error", "server_disconnected")


# what a dying socket can report through StreamWriter.drain() (asyncio stores the transport's fatal error on the stream and
# re-raises it from every later drain() and read()): three ConnectionError subclasses and four OSErrors that are not
DRAIN_ERRORS = {
    "ECONNRESET": lambda: ConnectionResetError(errno.ECONNRESET, os.strerror(errno.ECONNRESET)),
    "EPIPE": lambda: BrokenPipeError(errno.EPIPE, os.strerror(errno.EPIPE)),
    "ECONNABORTED": lambda: ConnectionAbortedError(errno.ECONNABORTED, os.strerror(errno.ECONNABORTED)),
    "ETIMEDOUT": lambda: OSError(errno.ETIMEDOUT, os.strerror(errno.ETIMEDOUT)),  # -> TimeoutError
    "EHOSTUNREACH": lambda: OSError(errno.EHOSTUNREACH, os.strerror(errno.EHOSTUNREACH)),
    "ENETUNREACH": lambda: OSError(errno.ENETUNREACH, os.strerror(errno.ENETUNREACH)),
    "EIO": lambda: OSError(errno.EIO, os.strerror(errno.EIO)),
}
NON_CONNECTION = ("ETIMEDOUT", "EHOSTUNREACH", "ENETUNREACH", "EIO")
# fixed fault matrix: errno class x which socket dies x at which drain() x one-shot / sticky (socket dead: reads fail too)
DRAIN_MATRIX = [(e, side, when, sticky) for e in DRAIN_ERRORS for side in ("client", "srv0") for when in (1, 2, 3) for sticky in (False, True)]


# how an upstream connect can fail: OSError subclasses as the OS / asyncio / getaddrinfo raise them (errno + text) and the same
# classes raised bare (no arguments: str(e) == ""), which e.g. asyncio's own timeouts and some wrappers do
CONNECT_ERRORS = {
    "refused-msg": lambda: ConnectionRefusedError(errno.ECONNREFUSED, "Connection refused (injected)"),
    "refused-bare": lambda: ConnectionRefusedError(),
    "timeout-msg": lambda: TimeoutError(errno.ETIMEDOUT, "Connection timed out (injected)"),
    "timeout-bare": lambda: TimeoutError(),
    "oserror-bare": lambda: OSError(),
    "oserror-errno-empty-text": lambda: OSError(errno.EHOSTUNREACH, ""),
    "unreachable-msg": lambda: OSError(errno.ENETUNREACH, os.strerror(errno.ENETUNREACH)),
    "gaierror-msg": lambda: socket.gaierror(socket.EAI_NONAME, "Name or service not known"),
    "gaierror-bare": lambda: socket.gaierror(),
}
# fixed matrix: error class x with/without message x (regular | reverse eager | reverse lazy)
CONNECT_MATRIX = [(e, mode, strat) for e in CONNECT_ERRORS for (mode, strat) in (("regular", "lazy"), ("reverse", "eager"), ("reverse", "lazy"))]


def connect_matrix_plan(r, k):
    """The upstream connect fails with one cell of CONNECT_MATRIX; the client sends data (before and after the failure) and
    then closes, resets or goes idle."""
    err, mode, strat = CONNECT_MATRIX[k % len(CONNECT_MATRIX)]
    acts = [(r.choice([0, 0.01, 0.3, 2]), ("data", b"<c%d:%s>" % (j, bytes(r.choice(b"abcdefgh") for _ in range(r.choice([0, 3, 20])))))) for j in range(r.choice([1, 2, 3]))]
    ending = r.choice(["eof", "eof", "silent", "reset"])
    if ending != "silent":
        acts.append((r.choice([0.01, 0.3, 2, 8]), (ending,)))
    return {
        "clean": False,
        "matrix": ("connect", err, mode, strat),
        "mode": mode,
        "connection_strategy": strat,
        "connect": "fail:" + err,
        "connect_delay": r.choice([0, 0.01, 1]),
        "client": acts,
        "client_end": ending,
        "origin": [],
        "origin_end": "silent",
        "tcp_timeout": r.choice([600, 5, 5]),
        "msg_delay": [r.choice([0, 0, 0.2]) for _ in range(4)],
        "edits": ["keep"] * 4,
        "hook_delay": {h: 0.2 for h in ("tcp_start", "tcp_error") if r.random() < 0.2},
        "lifecycle_delay": {},
        "drain_fault": None,
    }


def matrix_plan(r, k):
    """A plan built around one cell of DRAIN_MATRIX: both peers keep sending after the fault (drain() only runs after data was
    received), then close / fall silent."""
    err, side, when, sticky = DRAIN_MATRIX[k % len(DRAIN_MATRIX)]

    def script(tag):
        acts = [(r.choice([0.01, 0.1, 0.3]), ("data", b"<%s%d:%s>" % (tag.encode(), j, bytes(r.choice(b"abcdefgh") for _ in range(r.choice([0, 3, 20])))))) for j in range(r.choice([3, 4, 5]))]
        ending = r.choice(["eof", "eof", "silent", "reset"])
        if ending != "silent":
            acts.append((r.choice([0.01, 0.3, 2]), (ending,)))
        return acts, ending

    c_script, c_end = script("c")
    s_script, s_end = script("s")
    return {
        "clean": False,
        "matrix": (err, side, when, sticky),
        "mode": r.choice(["regular", "regular", "reverse"]),
        "connection_strategy": r.choice(["eager", "lazy"]),
        "connect": "ok",
        "connect_delay": r.choice([0, 0.01]),
        "client": c_script,
        "client_end": c_end,
        "origin": s_script,
        "origin_end": s_end,
        "tcp_timeout": r.choice([600, 5]),
        "msg_delay": [r.choice([0, 0, 0, 0.2]) for _ in range(4)],
        "edits": [r.choice(["keep", "keep", "append"]) for _ in range(4)],
        "hook_delay": {},
        "lifecycle_delay": {},
        "drain_fault": (side, when, err, sticky),
    }


class _Addons:
    def __init__(self, plan, loop, res):
        self.plan, self.vloop, self.res = plan, loop, res
        self.n_msg = 0

    async def handle_lifecycle(self, hook):
        name = hook.name
        if name == "next_layer":
            nl = hook.args()[0]
            if self.plan["mode"] != "regular" and not self.res.top_chosen:
                self.res.top_chosen = True
                nl.layer = layers.modes.ReverseProxy(nl.context)
            else:
                self.res.top_chosen = True
                if self.plan["mode"] == "regular":
                    nl.context.server.address = ("example.com", 80)
                nl.layer = layers.TCPLayer(nl.context)
            return
        if self.res.finished:
            return  # harness clean-up (cancelling what is left after quiescence) is not part of the observed history
        flow = getattr(hook, "flow", None)
        t0 = self.vloop.now()
        rec = {"name": name, "t0": t0, "t1": None, "flow": id(flow) if flow is not None else None, "cancelled": False}
        if name == "tcp_message":
            m = flow.messages[-1]
            rec["from_client"] = m.from_client
            rec["pre"] = bytes(m.content)
            k = self.n_msg
            self.n_msg += 1
            d = self.plan["msg_delay"][k % len(self.plan["msg_delay"])]
        else:
            d = self.plan["hook_delay"].get(name, 0)
        self.res.hooks.append(rec)
        if flow is not None and name in TCP_HOOKS:
            self.res.flows[id(flow)] = flow
        try:
            if d:
                await asyncio.sleep(d)
            if name == "tcp_message":
                edit = self.plan["edits"][k % len(self.plan["edits"])]
                if edit == "append":
                    m.content = m.content + b"+E%d" % k
                elif edit == "empty":
                    m.content = b""
                rec["post"] = bytes(m.content)
        except asyncio.CancelledError:
            rec["cancelled"] = True
            if name == "tcp_message":
                rec["post"] = bytes(flow.messages[-1].content)
            raise
        finally:
            rec["t1"] = self.vloop.now()


class _Master:
    def __init__(self, addons):
        self.addons = addons


class Result:
    def __init__(self):
        self.hooks = []  # dicts: name, t0, t1, flow, cancelled [, from_client, pre, post]
        self.top_chosen = False
        self.deadlock = False
        self.error_logs = []  # (virtual time, message) of level >= ERROR
        self.client_got = b""
        self.server_got = b""
        self.fed = {"c": [], "s": []}  # (time, kind, payload)
        self.closed_at = {}  # writer name -> virtual time of close()
        self.eof_written = {}
        self.connected = False
        self.drain_errors = []
        self.flows = {}
        self.connect_failures = []  # (time, error name, str(exception)) of upstream connects that raised
        self.finished = False  # set once the handler has returned and the loop is quiescent
        self.tasks_left = []

    def names(self):
        return [h["name"] for h in self.hooks]


def gen_script(r, side, allow_silence=True):
    n = r.choice([0, 1, 1, 2, 3])
    acts = []
    for k in range(n):
        acts.append((r.choice([0, 0, 0.01, 0.3, 2]), ("data", b"<%s%d:%s>" % (side.encode(), k, bytes(r.choice(b"abcdefgh") for _ in range(r.choice([0, 3, 40])))))))
    ending = r.choice(["eof", "eof", "eof", "reset", "silent"] if allow_silence else ["eof", "eof", "reset"])
    if ending != "silent":
        acts.append((r.choice([0, 0, 0.01, 0.3, 2, 8]), (ending,)))
    # data after the other side's half-close happens naturally through the gaps
    return acts, ending


def gen_plan(r):
    c_script, c_end = gen_script(r, "c")
    s_script, s_end = gen_script(r, "s")
    clean = r.random() < 0.35
    if clean:
        # clean plans: both peers finish with EOF, nothing fails: relaying must be complete
        c_script = [a for a in c_script if a[1][0] == "data"] + [(r.choice([0, 0.01, 0.3, 2]), ("eof",))]
        s_script = [a for a in s_script if a[1][0] == "data"] + [(r.choice([0, 0.01, 0.3, 2]), ("eof",))]
        c_end = s_end = "eof"
    return {
        "clean": clean,
        "mode": r.choice(["regular", "regular", "reverse"]),
        "connection_strategy": r.choice(["eager", "lazy"]),
        "connect": "ok" if clean else r.choice(["ok", "ok", "ok", "ok", "ok", "refuse", "hang", "slow", "fail:" + r.choice(list(CONNECT_ERRORS))]),
        "connect_delay": r.choice([0, 0.01, 1]),
        "client": c_script,
        "client_end": c_end,
        "origin": s_script,
        "origin_end": s_end,
        "tcp_timeout": 600 if clean else r.choice([600, 5, 5, 5]),
        "msg_delay": [r.choice([0, 0, 0.2, 3]) for _ in range(4)],
        "edits": [r.choice(["keep", "keep", "append", "empty"]) for _ in range(4)],
        "hook_delay": {h: r.choice([0.2, 3]) for h in TCP_HOOKS if h != "tcp_message" and r.random() < 0.25},
        "lifecycle_delay": {} if clean else {h: r.choice([0.2, 3, 6]) for h in LIFECYCLE if r.random() < 0.08},
        "drain_fault": None if clean or r.random() < 0.75 else (r.choice(["client", "srv0"]), r.randint(1, 6), r.choice(list(DRAIN_ERRORS)), r.random() < 0.5),
    }


def run_plan(plan):
    res = Result()
    loop = vloop.VLoop()
    asyncio.set_event_loop(loop)
    restore = vloop.patch_time(loop, server)
    world = vloop.World(loop)
    orig_open = asyncio.open_connection
    plan = dict(plan)
    plan["hook_delay"] = {**plan["hook_delay"], **plan["lifecycle_delay"]}
    drains = {"client": 0, "srv0": 0}

    readers = {}
    dead_sockets = {}

    def drain_plan_for(name):
        def f():
            drains[name] += 1
            if name in dead_sockets:
                return dead_sockets[name]  # the stored transport error is re-raised by every later drain()
            df = plan["drain_fault"]
            if df and df[0] == name and drains[name] == df[1]:
                exc = DRAIN_ERRORS[df[2]]()
                res.drain_errors.append((loop.now(), name, df[2], df[3]))
                if df[3]:  # the socket is dead: reads report the same error
                    dead_sockets[name] = exc
                    if name in readers:
                        readers[name].feed_error(exc)
                return exc
            return None

        return f

    class _Writer(vloop.FakeWriter):
        def close(self):
            if not self.closed and not res.finished:
                res.closed_at[self.name] = loop.now()
            super().close()

        def write_eof(self):
            res.eof_written[self.name] = loop.now()
            super().write_eof()

    async def play(script, reader, side, writer_of_this_peer):
        for gap, act in script:
            if gap:
                await asyncio.sleep(gap)
            if writer_of_this_peer.closed:
                return  # the proxy closed this socket: the peer cannot send any more
            if act[0] == "data":
                res.fed[side].append((loop.now(), "data", act[1]))
                reader.feed(act[1])
            elif act[0] == "eof":
                res.fed[side].append((loop.now(), "eof", b""))
                reader.feed_eof()
            elif act[0] == "reset":
                res.fed[side].append((loop.now(), "reset", b""))
                reader.feed_error(ConnectionResetError("reset (injected)"))

    server_writer = [None]

    async def fake_open(host, port, local_addr=None, **kw):
        how = plan["connect"]
        if plan["connect_delay"]:
            await asyncio.sleep(plan["connect_delay"])
        if how == "refuse":
            how = "fail:refused-msg"
        if how.startswith("fail:"):
            exc = CONNECT_ERRORS[how[5:]]()
            res.connect_failures.append((loop.now(), how[5:], str(exc)))
            raise exc
        if how == "hang":  # no answer to the SYN: the OS gives up after its connect timeout
            await asyncio.sleep(120)
            res.connect_failures.append((loop.now(), "timeout-msg", "Connection timed out (injected)"))
            raise TimeoutError("Connection timed out (injected)")
        if how == "slow":
            await asyncio.sleep(3)
        reader = vloop.FakeReader()
        writer = _Writer(world, "srv0", (host, port), peername=(host, port), sockname=("192.0.2.1", 20000), drain_plan=drain_plan_for("srv0"))
        world.opened(writer)
        readers["srv0"] = reader
        server_writer[0] = writer
        res.connected = True
        t = loop.create_task(play(plan["origin"], reader, "s", writer))
        writer.on_close = t.cancel
        return reader, writer

    asyncio.open_connection = fake_open
    try:
        opts = moptions.Options()
        proxyserver.Proxyserver().load(opts)
        opts.update(tcp_timeout=plan["tcp_timeout"], connection_strategy=plan["connection_strategy"])
        creader = vloop.FakeReader()
        readers["client"] = creader
        cwriter = _Writer(world, "client", None, peername=("192.0.2.10", 50123), sockname=("192.0.2.1", 8080), drain_plan=drain_plan_for("client"))
        mode = "regular" if plan["mode"] == "regular" else "reverse:tcp://example.com:80"

        class _Handler(mode_servers.ProxyConnectionHandler):
            def log(self, message, level=logging.INFO, exc_info=None):
                if level >= logging.ERROR:
                    tb = ""
                    if exc_info:
                        import traceback

                        tb = traceback.format_exc()[-600:] if exc_info is True else "".join(traceback.format_exception(*exc_info))[-600:]
                    res.error_logs.append((loop.now(), message, tb))

        async def main():
            h = _Handler(_Master(_Addons(plan, loop, res)), creader, cwriter, opts, mode_specs.ProxyMode.parse(mode))
            cs = loop.create_task(play(plan["client"], creader, "c", cwriter))
            try:
                await h.handle_client()
            finally:
                cs.cancel()
            return h

        h, dead = vloop.run(loop, main())
        res.deadlock = dead
        if not dead:
            vloop.drain(loop)
        res.finished = True
        res.tasks_left = sorted(t.get_name() for t in asyncio.all_tasks(loop) if not t.done())
        res.client_got = bytes(cwriter.buf)
        res.server_got = bytes(server_writer[0].buf) if server_writer[0] is not None else b""
        return res
    finally:
        asyncio.open_connection = orig_open
        restore()
        try:
            for t in asyncio.all_tasks(loop):
                t.cancel()
            loop.run_until_complete(asyncio.sleep(0))
        except BaseException:
            pass
        loop.close()
        asyncio.set_event_loop(None)
