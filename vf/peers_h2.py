"""In-memory HTTP/2 peers for engine A (vf/sansio.py).  Reusable; written for C05/C06.

All three peers are `sansio.Peer`s, i.e. they talk to the proxy through the driver's inbox (bytes towards the proxy, one
scheduler action per segment) and `on_data` (bytes the proxy wrote, synchronous).

  H2ClientPeer  h2.connection.H2Connection(client_side=True) attached as the CLIENT peer.  A scripted list of stream actions
                is turned into frames when the connection opens (frames of different streams interleave exactly as the
                script says), the resulting byte stream is re-cut arbitrarily; everything the proxy answers is decoded by
                the h2 library and logged per stream.  Flow-control credit is returned as the data arrives.
  H2ServerPeer  reactive origin: logs what it saw per stream (headers, data chunks, trailers, end, reset) and asks
                `responder(peer, sid, record)` for a list of response actions once the request is complete.  Every response
                action is a separate *injected* driver action, so answers of different streams interleave / are reordered
                by the scheduler.  Can change SETTINGS (e.g. MAX_CONCURRENT_STREAMS) mid-run and RST streams.  The h2 library
                enforces the limits this peer advertised (TooManyStreamsError, FlowControlError, ...): any ProtocolError it
                raises on proxy bytes is recorded in `protocol_errors`.
  RawH2Client   emits hand-built frames (hyperframe + hpack.Encoder): header blocks are NOT validated or normalised by any
                client-side library, so adversarial blocks reach the proxy verbatim.  Decodes the proxy's frames with
                hyperframe + hpack.Decoder.

Header (name, value) pairs are bytes everywhere.
"""
from __future__ import annotations

import h2.config
import h2.connection
import h2.errors
import h2.events
import h2.exceptions
import h2.settings
import hpack
import hyperframe.frame as hf

from vf.sansio import EOF, Peer

PREFACE = b"PRI * HTTP/2.0\r\n\r\nSM\r\n\r\n"


def recut(data: bytes, rng, mode="random"):
    """Re-segment a byte stream. mode: 'whole' | 'bytes' | 'random' (few cuts) | 'fine' (many cuts) | 'frames' (no-op alias of whole)."""
    if not data:
        return []
    n = len(data)
    if mode in ("whole", "frames") or n == 1:
        return [data]
    if mode == "bytes":
        return [data[i : i + 1] for i in range(n)]
    if mode == "fine":
        k = max(1, min(n - 1, 500, n // rng.choice([3, 9, 17, 40])))  # capped: every segment is one scheduler step
    else:
        k = min(n - 1, rng.choice([1, 1, 2, 3, 5, 8]))
    pts = sorted({rng.randrange(1, n) for _ in range(k)})
    out, last = [], 0
    for p in pts + [n]:
        out.append(data[last:p])
        last = p
    return out


def _cfg(client_side, validate_inbound=True):
    return h2.config.H2Configuration(
        client_side=client_side,
        header_encoding=False,
        validate_inbound_headers=validate_inbound,
        validate_outbound_headers=False,
        normalize_outbound_headers=False,
        normalize_inbound_headers=False,
    )


def _new_record(sid):
    return {
        "sid": sid,
        "headers": None,  # first (final) header block: list[(bytes, bytes)]
        "informational": [],
        "chunks": [],  # DATA payloads in arrival order
        "trailers": None,
        "ended": False,
        "reset": None,  # error code if the proxy reset the stream
        "events": [],  # coarse event names in order
        "order": None,  # arrival index of the header block among all streams
    }


def body_of(rec):
    return b"".join(rec["chunks"])


class _H2Base(Peer):
    """Shared receive path: feed proxy bytes to the h2 library, log per stream."""

    def __init__(self, rng, out_cut="whole"):
        super().__init__()
        self.rng = rng
        self.out_cut = out_cut
        self.h2: h2.connection.H2Connection | None = None
        self.streams: dict[int, dict] = {}
        self.protocol_errors: list[str] = []  # h2 library refused bytes written by the proxy
        self.goaway = None  # (error_code, last_stream_id, additional_data) sent by the proxy
        self.remote_settings_seen: list[dict] = []
        self.settings_acked = 0
        self.dead = False
        self.arrivals = 0
        self.credit = "eager"  # 'eager': return flow-control credit immediately; 'manager': let h2's WindowManager decide

    # -- output
    def flush(self, cut=None):
        data = self.h2.data_to_send()
        if data:
            for seg in recut(data, self.rng, cut or self.out_cut):
                self.send(seg)

    def rec(self, sid):
        if sid not in self.streams:
            self.streams[sid] = _new_record(sid)
        return self.streams[sid]

    # -- input
    def on_data(self, data):
        if self.dead:
            return
        try:
            evs = self.h2.receive_data(data)
        except h2.exceptions.ProtocolError as e:
            self.protocol_errors.append(f"{type(e).__name__}: {e}")
            self.dead = True
            self.flush()  # the GOAWAY h2 prepared
            self.close()
            return
        for ev in evs:
            self._event(ev)
        self.flush()

    def _event(self, ev):
        if isinstance(ev, (h2.events.RequestReceived, h2.events.ResponseReceived)):
            r = self.rec(ev.stream_id)
            r["headers"] = list(ev.headers)
            r["order"] = self.arrivals
            self.arrivals += 1
            r["events"].append("headers")
            self.on_headers(ev.stream_id, r)
        elif isinstance(ev, h2.events.InformationalResponseReceived):
            self.rec(ev.stream_id)["informational"].append(list(ev.headers))
        elif isinstance(ev, h2.events.DataReceived):
            r = self.rec(ev.stream_id)
            r["chunks"].append(bytes(ev.data))
            r["events"].append("data")
            n = ev.flow_controlled_length
            if n:
                try:
                    if self.credit == "eager":
                        self.h2.increment_flow_control_window(n)
                        if not r["ended"] and r["reset"] is None:
                            try:
                                self.h2.increment_flow_control_window(n, ev.stream_id)
                            except h2.exceptions.ProtocolError:
                                pass
                    else:
                        self.h2.acknowledge_received_data(n, ev.stream_id)
                except h2.exceptions.ProtocolError:
                    pass
        elif isinstance(ev, h2.events.TrailersReceived):
            r = self.rec(ev.stream_id)
            r["trailers"] = list(ev.headers)
            r["events"].append("trailers")
        elif isinstance(ev, h2.events.StreamEnded):
            r = self.rec(ev.stream_id)
            r["ended"] = True
            r["events"].append("end")
            self.on_stream_end(ev.stream_id, r)
        elif isinstance(ev, h2.events.StreamReset):
            r = self.rec(ev.stream_id)
            r["reset"] = int(ev.error_code)
            r["events"].append("reset")
            self.on_stream_reset(ev.stream_id, r)
        elif isinstance(ev, h2.events.ConnectionTerminated):
            self.goaway = (int(ev.error_code), ev.last_stream_id, bytes(ev.additional_data or b""))
        elif isinstance(ev, h2.events.RemoteSettingsChanged):
            self.remote_settings_seen.append({int(k): v.new_value for k, v in ev.changed_settings.items()})
        elif isinstance(ev, h2.events.SettingsAcknowledged):
            self.settings_acked += 1
            self.on_settings_acked(ev)

    # hooks for subclasses
    def on_headers(self, sid, rec):
        pass

    def on_stream_end(self, sid, rec):
        pass

    def on_stream_reset(self, sid, rec):
        pass

    def on_settings_acked(self, ev):
        pass


class H2ClientPeer(_H2Base):
    """Scripted HTTP/2 client.

    actions: list of
        ("headers", key, [(name, value), ...], end_stream: bool)
        ("data", key, payload: bytes, end_stream: bool)
        ("trailers", key, [(name, value), ...])          (ends the stream)
        ("rst", key, error_code: int)
        ("settings", {code: value})
        ("ping",)
        ("eof",)                                           (client half-closes after everything it sent)
        ("gate", callable(driver) -> bool)                 everything after this action is held back until the callable is true
                                                           (TCP order is kept: the inbox of a connection is FIFO)
    `key` is the caller's name for a stream; ids 1, 3, 5, ... are assigned in order of the first "headers" action.
    After the run: `by_key[key]` is the per-stream record of what the proxy sent back on that stream.
    """

    def __init__(self, actions, rng, *, cut="random", out_cut="whole", settings=None, validate_inbound=True, credit="eager"):
        super().__init__(rng, out_cut)
        self.actions = list(actions)
        self.cut = cut
        self.settings = settings or {}
        self.validate_inbound = validate_inbound
        self.credit = credit
        self.sid_of: dict = {}
        self.key_of: dict = {}
        self.script_errors: list[str] = []  # the script itself was illegal for h2 (harness problem, not a finding)
        self.sent_bytes = b""

    def on_open(self):
        self.h2 = h2.connection.H2Connection(_cfg(True, self.validate_inbound))
        self.h2.initiate_connection()
        if self.settings:
            self.h2.update_settings(self.settings)  # second SETTINGS frame: enforced by h2 only once the proxy ACKed it
        eof = False
        gate = None
        for a in self.actions:
            try:
                kind = a[0]
                if kind == "headers":
                    _, key, headers, end = a
                    sid = self.sid_of.get(key)
                    if sid is None:
                        sid = self.h2.get_next_available_stream_id()
                        self.sid_of[key] = sid
                        self.key_of[sid] = key
                    self.h2.send_headers(sid, headers, end_stream=end)
                elif kind == "data":
                    _, key, payload, end = a
                    self.h2.send_data(self.sid_of[key], payload, end_stream=end)
                elif kind == "trailers":
                    _, key, headers = a
                    self.h2.send_headers(self.sid_of[key], headers, end_stream=True)
                elif kind == "rst":
                    _, key, code = a
                    self.h2.reset_stream(self.sid_of[key], code)
                elif kind == "settings":
                    self.h2.update_settings(a[1])
                elif kind == "ping":
                    self.h2.ping(b"vfping00")
                elif kind == "eof":
                    eof = True
                elif kind == "gate":
                    self._flush_script(gate)
                    gate = a[1]
            except (h2.exceptions.H2Error, KeyError) as e:
                self.script_errors.append(f"{a[0]}:{type(e).__name__}:{e}")
        self._flush_script(gate)
        if eof:
            self.close()

    def _flush_script(self, gate):
        data = self.h2.data_to_send()
        self.sent_bytes += data
        for i, seg in enumerate(recut(data, self.rng, self.cut)):
            self.send(seg, gate if i == 0 else None)

    @property
    def by_key(self):
        return {k: self.streams.get(sid) for k, sid in self.sid_of.items()}


class H2ServerPeer(_H2Base):
    """Reactive HTTP/2 origin.

    responder(peer, sid, record) -> None (never answer) | list of response actions
        ("headers", [(name, value), ...], end_stream)   ("data", payload, end_stream)   ("trailers", [...])   ("rst", code)
    called when the request on `sid` is complete (`respond_on="end"`) or as soon as its header block arrived ("headers").
    settings: initial SETTINGS dict (h2.settings.SettingCodes -> value).
    settings_plan: list of (after_n_requests_seen, {code: value}) applied mid-run as separate scheduler actions.
    Every response action is queued as an injected driver action -> the scheduler picks the global order.
    """

    def __init__(self, responder, rng, *, settings=None, settings_plan=(), respond_on="end", out_cut="whole", validate_inbound=True, credit="eager", name="h2srv"):
        super().__init__(rng, out_cut)
        self.responder = responder
        self.settings = settings or {}
        self.settings_plan = list(settings_plan)
        self.respond_on = respond_on
        self.validate_inbound = validate_inbound
        self.credit = credit
        self.name = name
        self.answered: set = set()
        self.advertised: list = []  # (step, {code: value}) every SETTINGS this peer sent
        self.limit_log: list = []  # (step, effective MAX_CONCURRENT_STREAMS as enforced by the h2 library) after each ACK
        self.send_errors: list[str] = []
        self.max_open_seen = 0
        self.settings_sent = 0
        self.finished_answers: set = set()  # stream ids whose scripted answer was sent completely
        self._raw = bytearray()
        self._preface_done = False
        self.stale_headers_tolerated = 0  # HEADERS frames for already closed streams that were exempted from the limit check

    # the limit the h2 library currently enforces for inbound streams (changes when the proxy ACKs our SETTINGS)
    def enforced_limit(self):
        return self.h2.local_settings.max_concurrent_streams

    def on_open(self):
        self.h2 = h2.connection.H2Connection(_cfg(False, self.validate_inbound))
        # The server preface is ONE SETTINGS frame carrying exactly `settings` (update_settings, not initiate_connection):
        # h2 then treats the values as pending and enforces them only once the proxy ACKed the frame (RFC 9113 6.5.3).
        # hyper-h2's Settings.acknowledge() applies *every* pending value on any ACK, so this peer never has more than one
        # un-ACKed SETTINGS frame in flight (later frames are gated on the ACK of the previous one).
        self.h2.update_settings(dict(self.settings))
        self.settings_sent = 1
        self.advertised.append((self.driver.step_no, {int(k): v for k, v in self.settings.items()}))
        self.flush()
        for after, st in self.settings_plan:
            self.driver.injected.append((f"{self.name}-settings", self._settings_action(st), self._seen_at_least(after)))

    def _seen_at_least(self, n):
        return lambda drv: self.arrivals >= n and self.settings_acked >= self.settings_sent and not self.dead and not self.got_eof

    def _settings_action(self, st):
        def act(drv):
            if self.dead or self.got_eof:
                return None
            self.h2.update_settings(st)
            self.settings_sent += 1
            self.advertised.append((drv.step_no, {int(k): v for k, v in st.items()}))
            self.flush()
            return None

        return act

    def on_settings_acked(self, ev):
        self.limit_log.append((self.driver.step_no, self.enforced_limit()))

    def on_data(self, data):
        # Feed hyper-h2 one frame at a time.  Reason: H2Connection._receive_headers_frame applies the MAX_CONCURRENT_STREAMS
        # check to ANY HEADERS frame whose stream id is no longer in its stream table -- also to request trailers that were
        # already in flight towards a stream this peer has reset (the table entry of a closed stream is dropped lazily).  Such a
        # frame does not open a stream (RFC 9113 5.1: frames on a stream the receiver reset must be tolerated for a while), the
        # library would go on to ignore it, but with the limit reached it raises TooManyStreamsError first.  For exactly those
        # frames (HEADERS, id <= highest id seen, not in the table) the limit check is suspended; genuinely new streams
        # (higher id) are still refused when they exceed the limit this peer advertised and the proxy ACKed.
        self._raw += data
        while not self.dead:
            unit, lenient = self._next_unit()
            if unit is None:
                break
            if lenient:
                self.stale_headers_tolerated += 1
                cur = self.h2.local_settings._settings[h2.settings.SettingCodes.MAX_CONCURRENT_STREAMS]
                old = cur[0]
                cur[0] = 2**32
                try:
                    super().on_data(unit)
                finally:
                    cur[0] = old
            else:
                super().on_data(unit)
        if self.h2 is not None:
            self.max_open_seen = max(self.max_open_seen, self.h2.open_inbound_streams)

    def _next_unit(self):
        raw = self._raw
        if not self._preface_done:
            if len(raw) < len(PREFACE):
                return None, False
            unit = bytes(raw[: len(PREFACE)])
            del raw[: len(PREFACE)]
            self._preface_done = True
            return unit, False
        if len(raw) < 9:
            return None, False
        length = int.from_bytes(raw[:3], "big")
        if len(raw) < 9 + length:
            return None, False
        ftype = raw[3]
        sid = int.from_bytes(raw[5:9], "big") & 0x7FFFFFFF
        unit = bytes(raw[: 9 + length])
        del raw[: 9 + length]
        lenient = ftype == 1 and sid % 2 == 1 and sid <= self.h2.highest_inbound_stream_id and sid not in self.h2.streams
        return unit, lenient

    def on_headers(self, sid, rec):
        if self.respond_on == "headers":
            self._plan(sid, rec)

    def on_stream_end(self, sid, rec):
        self._plan(sid, rec)

    def _plan(self, sid, rec):
        if sid in self.answered:
            return
        self.answered.add(sid)
        acts = self.responder(self, sid, rec)
        if acts:
            self._queue(sid, list(acts), 0)

    def _queue(self, sid, acts, k):
        if k >= len(acts):
            return

        def act(drv):
            if self.dead or self.got_eof:
                return None
            a = acts[k]
            try:
                if a[0] == "headers":
                    self.h2.send_headers(sid, a[1], end_stream=a[2])
                elif a[0] == "data":
                    payload, end = a[1], a[2]
                    room = min(self.h2.local_flow_control_window(sid), self.h2.max_outbound_frame_size)
                    if len(payload) > room:
                        if room <= 0:
                            # wait for credit: retry as a later action once the window opened
                            self.driver.injected.append((f"{self.name}-s{sid}-{k}w", act, lambda d, s=sid: self.dead or self.got_eof or self._window(s) > 0))
                            return None
                        acts[k] = ("data", payload[room:], end)
                        self.h2.send_data(sid, payload[:room], end_stream=False)
                        self.flush()
                        self._queue(sid, acts, k)
                        return None
                    self.h2.send_data(sid, payload, end_stream=end)
                elif a[0] == "trailers":
                    self.h2.send_headers(sid, a[1], end_stream=True)
                elif a[0] == "rst":
                    self.h2.reset_stream(sid, a[1])
            except h2.exceptions.H2Error as e:
                # e.g. the proxy reset the stream in the meantime: drop the rest of this answer
                self.send_errors.append(f"s{sid}:{a[0]}:{type(e).__name__}")
                self.flush()
                return None
            self.flush()
            if k + 1 >= len(acts):
                self.finished_answers.add(sid)
            self._queue(sid, acts, k + 1)
            return None

        self.driver.injected.append((f"{self.name}-s{sid}-{k}", act, None))

    def _window(self, sid):
        try:
            return self.h2.local_flow_control_window(sid)
        except h2.exceptions.H2Error:
            return 1  # stream gone: let the action run and fail cleanly


# ------------------------------------------------------------------------------------------------------------------
# raw frames
# ------------------------------------------------------------------------------------------------------------------

class RawH2Client(Peer):
    """HTTP/2 client made of hand-built frames.

    script: list of
        ("headers", sid, [(name: bytes, value: bytes), ...], end_stream: bool[, {"split": n, "never_index": bool}])
        ("data", sid, payload, end_stream)
        ("rst", sid, code)
        ("raw", bytes)                       arbitrary bytes
        ("eof",)
    Decoded proxy output: `streams[sid]` records like the h2 peers', `goaway`, `settings_frames`, `decode_errors`.
    """

    def __init__(self, script, rng, *, cut="whole", settings=None, huffman=True):
        super().__init__()
        self.script = list(script)
        self.rng = rng
        self.cut = cut
        self.settings = settings or {}
        self.huffman = huffman
        self.enc = hpack.Encoder()
        self.dec = hpack.Decoder()
        self.buf = bytearray()
        self.streams: dict[int, dict] = {}
        self.goaway = None
        self.settings_frames = 0
        self.decode_errors: list[str] = []
        self._hblock = None  # (sid, bytearray, end_stream) while a header block is being continued
        self.sent_bytes = b""
        self.arrivals = 0

    # -- building
    def header_frames(self, sid, headers, end_stream, split=0, sensitive=False):
        hdrs = [hpack.HeaderTuple(n, v) if not sensitive else hpack.NeverIndexedHeaderTuple(n, v) for n, v in headers]
        block = self.enc.encode(hdrs, huffman=self.huffman)
        frames = []
        if split and len(block) > split:
            first, rest = block[:split], block[split:]
            f = hf.HeadersFrame(sid)
            f.data = first
            if end_stream:
                f.flags.add("END_STREAM")
            frames.append(f)
            while rest:
                c = hf.ContinuationFrame(sid)
                c.data, rest = rest[:split], rest[split:]
                if not rest:
                    c.flags.add("END_HEADERS")
                frames.append(c)
        else:
            f = hf.HeadersFrame(sid)
            f.data = block
            f.flags.add("END_HEADERS")
            if end_stream:
                f.flags.add("END_STREAM")
            frames.append(f)
        return b"".join(fr.serialize() for fr in frames)

    def on_open(self):
        out = bytearray(PREFACE)
        s = hf.SettingsFrame(0)
        s.settings = dict(self.settings)
        out += s.serialize()
        eof = False
        for a in self.script:
            if a[0] == "headers":
                opts = a[4] if len(a) > 4 else {}
                out += self.header_frames(a[1], a[2], a[3], opts.get("split", 0), opts.get("never_index", False))
            elif a[0] == "data":
                f = hf.DataFrame(a[1])
                f.data = a[2]
                if a[3]:
                    f.flags.add("END_STREAM")
                out += f.serialize()
            elif a[0] == "rst":
                f = hf.RstStreamFrame(a[1])
                f.error_code = a[2]
                out += f.serialize()
            elif a[0] == "raw":
                out += a[1]
            elif a[0] == "eof":
                eof = True
        self.sent_bytes = bytes(out)
        for seg in recut(bytes(out), self.rng, self.cut):
            self.send(seg)
        if eof:
            self.close()

    # -- decoding
    def rec(self, sid):
        if sid not in self.streams:
            self.streams[sid] = _new_record(sid)
        return self.streams[sid]

    def on_data(self, data):
        self.buf += data
        while len(self.buf) >= 9:
            try:
                frame, length = hf.Frame.parse_frame_header(memoryview(self.buf)[:9])
            except Exception as e:  # noqa
                self.decode_errors.append(f"frame-header:{type(e).__name__}")
                self.buf.clear()
                return
            if len(self.buf) < 9 + length:
                return
            body = bytes(self.buf[9 : 9 + length])
            del self.buf[: 9 + length]
            try:
                frame.parse_body(memoryview(body))
            except Exception as e:  # noqa
                self.decode_errors.append(f"frame-body:{type(frame).__name__}:{type(e).__name__}")
                continue
            self._frame(frame)

    def _headers_done(self, sid, block, end_stream):
        try:
            headers = [(bytes(n) if not isinstance(n, bytes) else n, bytes(v) if not isinstance(v, bytes) else v) for n, v in self.dec.decode(bytes(block), raw=True)]
        except Exception as e:  # noqa
            self.decode_errors.append(f"hpack:{type(e).__name__}")
            return
        r = self.rec(sid)
        status = dict(headers).get(b":status", b"")
        if r["headers"] is None and status[:1] == b"1" and status != b"101":
            r["informational"].append(headers)
        elif r["headers"] is None:
            r["headers"] = headers
            r["order"] = self.arrivals
            self.arrivals += 1
            r["events"].append("headers")
        else:
            r["trailers"] = headers
            r["events"].append("trailers")
        if end_stream:
            r["ended"] = True
            r["events"].append("end")

    def _frame(self, f):
        if isinstance(f, hf.SettingsFrame):
            if "ACK" not in f.flags:
                self.settings_frames += 1
                ack = hf.SettingsFrame(0)
                ack.flags.add("ACK")
                self.send(ack.serialize())
        elif isinstance(f, hf.HeadersFrame):
            if "END_HEADERS" in f.flags:
                self._headers_done(f.stream_id, f.data, "END_STREAM" in f.flags)
            else:
                self._hblock = (f.stream_id, bytearray(f.data), "END_STREAM" in f.flags)
        elif isinstance(f, hf.ContinuationFrame):
            if self._hblock is not None:
                sid, blk, end = self._hblock
                blk += f.data
                if "END_HEADERS" in f.flags:
                    self._hblock = None
                    self._headers_done(sid, blk, end)
        elif isinstance(f, hf.DataFrame):
            r = self.rec(f.stream_id)
            r["chunks"].append(bytes(f.data))
            r["events"].append("data")
            if "END_STREAM" in f.flags:
                r["ended"] = True
                r["events"].append("end")
            n = f.flow_controlled_length
            if n:
                for sid in (0, f.stream_id):
                    if sid == f.stream_id and "END_STREAM" in f.flags:
                        continue
                    w = hf.WindowUpdateFrame(sid)
                    w.window_increment = n
                    self.send(w.serialize())
        elif isinstance(f, hf.RstStreamFrame):
            r = self.rec(f.stream_id)
            r["reset"] = int(f.error_code)
            r["events"].append("reset")
        elif isinstance(f, hf.GoAwayFrame):
            self.goaway = (int(f.error_code), f.last_stream_id, bytes(f.additional_data or b""))
        elif isinstance(f, hf.PingFrame):
            if "ACK" not in f.flags:
                p = hf.PingFrame(0)
                p.opaque_data = f.opaque_data
                p.flags.add("ACK")
                self.send(p.serialize())


__all__ = ["H2ClientPeer", "H2ServerPeer", "RawH2Client", "recut", "body_of", "PREFACE", "EOF"]
