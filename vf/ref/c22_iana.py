"""Reference address classifier for C22, independent of the stdlib ``ipaddress`` module.

Embedded copy of the IANA IPv4 / IPv6 Special-Purpose Address Registries (RFC 6890 and updates, state of
2024) plus the multicast blocks.  Addresses are handled as (version, int).  Only *unambiguous* classes decide:

    loopback  127.0.0.0/8, ::1                      -> never refused
    private   RFC 1918 blocks, fc00::/7 (RFC 4193)  -> refused iff block_private
    global    IPv4: outside every block below; IPv6: inside 2000::/3 (the only allocated global unicast
              space) and outside every block below  -> refused iff block_global
    debatable every other registry block, multicast, and IPv6 space outside 2000::/3 that is merely
              "reserved by IETF" (incl. deprecated IPv4-compatible ::a.b.c.d and site-local fec0::/10)
              -> nothing is decided except totality and "not refused when both options are off"

IPv4-mapped IPv6 addresses (::ffff:0:0/96) take the class of the embedded IPv4 address (property statement).
"""
import socket

LOOPBACK, PRIVATE, GLOBAL, DEBATABLE = "loopback", "private", "global", "debatable"


def _p4(s):
    return int.from_bytes(socket.inet_pton(socket.AF_INET, s), "big")


def _p6(s):
    return int.from_bytes(socket.inet_pton(socket.AF_INET6, s), "big")


# (prefix, klass, registry name)
_V4 = [
    ("0.0.0.0/8", DEBATABLE, "this-network"),
    ("0.0.0.0/32", DEBATABLE, "this-host"),
    ("10.0.0.0/8", PRIVATE, "private-use-10"),
    ("100.64.0.0/10", DEBATABLE, "shared-address-space"),
    ("127.0.0.0/8", LOOPBACK, "loopback"),
    ("169.254.0.0/16", DEBATABLE, "link-local"),
    ("172.16.0.0/12", PRIVATE, "private-use-172"),
    ("192.0.0.0/24", DEBATABLE, "ietf-protocol-assignments"),
    ("192.0.0.0/29", DEBATABLE, "ipv4-service-continuity"),
    ("192.0.0.8/32", DEBATABLE, "ipv4-dummy-address"),
    ("192.0.0.9/32", DEBATABLE, "pcp-anycast"),
    ("192.0.0.10/32", DEBATABLE, "turn-anycast"),
    ("192.0.0.170/32", DEBATABLE, "nat64-discovery-170"),
    ("192.0.0.171/32", DEBATABLE, "nat64-discovery-171"),
    ("192.0.2.0/24", DEBATABLE, "documentation-test-net-1"),
    ("192.31.196.0/24", DEBATABLE, "as112-v4"),
    ("192.52.193.0/24", DEBATABLE, "amt"),
    ("192.88.99.0/24", DEBATABLE, "deprecated-6to4-relay-anycast"),
    ("192.168.0.0/16", PRIVATE, "private-use-192"),
    ("192.175.48.0/24", DEBATABLE, "direct-delegation-as112"),
    ("198.18.0.0/15", DEBATABLE, "benchmarking"),
    ("198.51.100.0/24", DEBATABLE, "documentation-test-net-2"),
    ("203.0.113.0/24", DEBATABLE, "documentation-test-net-3"),
    ("224.0.0.0/4", DEBATABLE, "multicast"),
    ("240.0.0.0/4", DEBATABLE, "reserved"),
    ("255.255.255.255/32", DEBATABLE, "limited-broadcast"),
]

_V6 = [
    ("::/128", DEBATABLE, "unspecified"),
    ("::1/128", LOOPBACK, "loopback"),
    ("::ffff:0:0/96", None, "ipv4-mapped"),  # class of the embedded IPv4 address
    ("64:ff9b::/96", DEBATABLE, "nat64-well-known"),
    ("64:ff9b:1::/48", DEBATABLE, "nat64-local-use"),
    ("100::/64", DEBATABLE, "discard-only"),
    ("100:0:0:1::/64", DEBATABLE, "dummy-prefix"),
    ("2001::/23", DEBATABLE, "ietf-protocol-assignments"),
    ("2001::/32", DEBATABLE, "teredo"),
    ("2001:1::1/128", DEBATABLE, "pcp-anycast"),
    ("2001:1::2/128", DEBATABLE, "turn-anycast"),
    ("2001:1::3/128", DEBATABLE, "dns-sd-srp-anycast"),
    ("2001:2::/48", DEBATABLE, "benchmarking"),
    ("2001:3::/32", DEBATABLE, "amt"),
    ("2001:4:112::/48", DEBATABLE, "as112-v6"),
    ("2001:10::/28", DEBATABLE, "orchid-deprecated"),
    ("2001:20::/28", DEBATABLE, "orchidv2"),
    ("2001:30::/28", DEBATABLE, "drone-remote-id"),
    ("2001:db8::/32", DEBATABLE, "documentation"),
    ("2002::/16", DEBATABLE, "6to4"),
    ("2620:4f:8000::/48", DEBATABLE, "direct-delegation-as112"),
    ("3fff::/20", DEBATABLE, "documentation-3fff"),
    ("5f00::/16", DEBATABLE, "srv6-sids"),
    ("fc00::/7", PRIVATE, "unique-local"),
    ("fe80::/10", DEBATABLE, "link-local"),
    ("fec0::/10", DEBATABLE, "site-local-deprecated"),
    ("ff00::/8", DEBATABLE, "multicast"),
]


def _compile(table, parse, bits):
    out = []
    for pfx, klass, name in table:
        a, _, ln = pfx.partition("/")
        ln = int(ln)
        base = parse(a)
        mask = ((1 << ln) - 1) << (bits - ln) if ln else 0
        assert base & ~mask & ((1 << bits) - 1) == 0, pfx
        out.append((base, mask, ln, klass, name, pfx))
    return out


V4_BLOCKS = _compile(_V4, _p4, 32)
V6_BLOCKS = _compile(_V6, _p6, 128)
_GUA_BASE, _GUA_MASK = _p6("2000::"), 0b111 << 125
_MAPPED_BASE = _p6("::ffff:0:0")


def classify4(n: int):
    """-> (klass, block name) for an IPv4 address given as int; the most specific block names it."""
    best = None
    for base, mask, ln, klass, name, _ in V4_BLOCKS:
        if n & mask == base and (best is None or ln > best[0]):
            best = (ln, klass, name)
    if best is None:
        return GLOBAL, "outside-v4"
    # any enclosing deciding block wins only if *all* enclosing blocks agree; (no such overlap exists in the table)
    return best[1], best[2]


def classify6(n: int):
    if n >> 32 == _MAPPED_BASE >> 32:
        k, name = classify4(n & 0xFFFFFFFF)
        return k, "mapped:" + name
    best = None
    for base, mask, ln, klass, name, _ in V6_BLOCKS:
        if klass is not None and n & mask == base and (best is None or ln > best[0]):
            best = (ln, klass, name)
    if best is not None:
        return best[1], best[2]
    if n & _GUA_MASK == _GUA_BASE:
        return GLOBAL, "outside-v6-gua"
    return DEBATABLE, "v6-reserved-by-ietf"


def text4(n: int) -> str:
    return socket.inet_ntop(socket.AF_INET, n.to_bytes(4, "big"))


def text6(n: int) -> str:
    return socket.inet_ntop(socket.AF_INET6, n.to_bytes(16, "big"))


def mapped(n4: int) -> int:
    return _MAPPED_BASE | n4


def boundary_points():
    """Every block's first/last/previous/next address: [(version, int, block name, position)]."""
    pts = []
    for ver, blocks, bits in ((4, V4_BLOCKS, 32), (6, V6_BLOCKS, 128)):
        top = (1 << bits) - 1
        for base, mask, ln, klass, name, _ in blocks:
            last = base | (~mask & top)
            for pos, v in (("first", base), ("last", last), ("prev", base - 1), ("next", last + 1)):
                if 0 <= v <= top:
                    pts.append((ver, v, name, pos))
    return pts
