"""Structural reference model of server-replay matching for C52 -- stdlib only.

Requests are *specs* (what the generator decided), serialised to bytes by `encode_*` here; the model never
parses bytes and never hashes: keys are plain tuples compared with ==.

Two readings of "the matching key is equal" are provided:
* `strict_key(spec, opts)`: the finest reasonable reading (ordered pairs, None != b"" body, both host and
  Host header equal, ...).  Two requests with equal strict keys match under ANY reading, so it is used for the
  obligations (a matching unserved recording must be served; earlier equal recordings first).
* `loose_diff(a, b, opts)`: the coarsest reasonable reading (pairs as multisets, absent body == empty body,
  host equal if either the destination host or the Host-header host agree, case-insensitive host).  A response
  served to a request that differs from its recording even under this reading refutes the property.
"""
from __future__ import annotations

from dataclasses import dataclass, field, replace
from urllib.parse import quote

HASH_OPTS = ["ignore_content", "ignore_host", "ignore_params", "ignore_payload_params", "ignore_port", "use_headers"]


@dataclass
class ReqSpec:
    method: str = "GET"
    scheme: str = "http"
    host: str = "example.com"
    port: int = 80
    host_header: str | None = None
    path: str = "/a"  # raw path without query
    query: list | None = None  # decoded (name, value) pairs or None for "no ?"
    body_kind: str = "none"  # none | empty | raw | urlenc | multipart
    body_raw: bytes = b""  # for kind raw
    fields: list = field(default_factory=list)  # (str, str) for urlenc / multipart
    headers: list = field(default_factory=list)  # extra (name, value) headers
    # serialisation choices (do not affect the key)
    enc_style: int = 0

    def copy(self, **kw):
        return replace(self, query=None if self.query is None else list(self.query), fields=list(self.fields), headers=list(self.headers), **kw)


# ---------------------------------------------------------------------------------------------
# serialisation (generator side)
# ---------------------------------------------------------------------------------------------

def _enc(s: str, style: int) -> str:
    out = quote(s, safe="")
    if style & 1:
        out = out.replace("%20", "+")
    if style & 2 and out and out[0].isalnum():
        out = "%%%02X" % ord(out[0]) + out[1:]
    return out


def encode_pairs(pairs, style: int) -> str:
    segs = []
    for k, v in pairs:
        if v == "" and style & 4:
            segs.append(_enc(k, style))
        else:
            segs.append(_enc(k, style) + "=" + _enc(v, style))
    return "&".join(segs)


def target(spec: ReqSpec) -> str:
    if spec.query is None:
        return spec.path
    return spec.path + "?" + encode_pairs(spec.query, spec.enc_style)


BOUNDARY = "vfBoundary7"


def body_bytes(spec: ReqSpec):
    """(content or None, content-type or None)"""
    k = spec.body_kind
    if k == "none":
        return None, None
    if k == "empty":
        return b"", None
    if k == "raw":
        return spec.body_raw, None
    if k == "urlenc":
        return encode_pairs(spec.fields, spec.enc_style).encode(), "application/x-www-form-urlencoded"
    if k == "multipart":
        parts = []
        for n, v in spec.fields:
            parts.append(f'--{BOUNDARY}\r\nContent-Disposition: form-data; name="{n}"\r\n\r\n{v}\r\n')
        parts.append(f"--{BOUNDARY}--\r\n")
        return "".join(parts).encode(), f"multipart/form-data; boundary={BOUNDARY}"
    raise ValueError(k)


# ---------------------------------------------------------------------------------------------
# keys
# ---------------------------------------------------------------------------------------------

def header_host(spec: ReqSpec) -> str:
    """Host named by the Host header (port stripped), else the destination host."""
    h = spec.host_header
    if not h:
        return spec.host
    name, sep, port = h.rpartition(":")
    if sep and port.isdigit() and name:
        return name
    return h


def folded_header(spec: ReqSpec, name: str):
    vals = [v for n, v in spec.headers if n.lower() == name.lower()]
    return ", ".join(vals) if vals else None


def _content_component(spec: ReqSpec, opts):
    ign = opts["ignore_payload_params"]
    if ign and spec.body_kind in ("urlenc", "multipart") and spec.fields:
        return ("form", spec.body_kind, tuple((k, v) for k, v in spec.fields if k not in ign))
    content, _ct = body_bytes(spec)
    return ("body", content)


def components(spec: ReqSpec, opts) -> dict:
    c = {"method": spec.method, "scheme": spec.scheme, "path": spec.path}
    if not opts["ignore_content"]:
        c["content"] = _content_component(spec, opts)
    if not opts["ignore_host"]:
        c["host"] = (spec.host, header_host(spec))
    if not opts["ignore_port"]:
        c["port"] = spec.port
    c["query"] = tuple((k, v) for k, v in (spec.query or []) if k not in opts["ignore_params"])
    if opts["use_headers"]:
        c["headers"] = tuple((n.lower(), folded_header(spec, n)) for n in opts["use_headers"])
    return c


def strict_key(spec: ReqSpec, opts) -> tuple:
    c = components(spec, opts)
    return tuple(sorted(c.items(), key=lambda kv: kv[0]))


def loose_diff(a: ReqSpec, b: ReqSpec, opts) -> list[str]:
    """Names of key components in which a and b differ under the most tolerant reading."""
    ca, cb = components(a, opts), components(b, opts)
    out = []
    for name in ca:
        x, y = ca[name], cb[name]
        if x == y:
            continue
        if name == "host":
            if x[0].lower() == y[0].lower() or x[1].lower() == y[1].lower():
                continue
        elif name == "query":
            if sorted(x) == sorted(y):
                continue
        elif name == "content":
            if x[0] == "form" and y[0] == "form" and sorted(x[2]) == sorted(y[2]):
                continue
            if x[0] == "body" and y[0] == "body" and (x[1] or b"") == (y[1] or b""):
                continue
            if (body_bytes(a)[0] or b"") == (body_bytes(b)[0] or b"") and {x[0], y[0]} == {"form", "body"}:
                continue
        out.append(name)
    return out


def strip_params_and_fragment(path: str) -> str:
    """What urllib.parse.urlparse would leave of a path: fragment cut, ';params' of the last segment cut."""
    p = path.split("#", 1)[0]
    head, sep, last = p.rpartition("/")
    last = last.split(";", 1)[0]
    return head + sep + last


def grouped_apart(a: ReqSpec, b: ReqSpec, opts) -> bool:
    """Input-level description of when the addon keeps a and b in different groups under `opts`: strict
    components differ, where only the Host-header host counts for 'host' and the path is taken after
    urlparse's params/fragment stripping.  Used only to *classify* order violations after a re-index."""
    ca, cb = components(a, opts), components(b, opts)
    for name in ca:
        x, y = ca[name], cb[name]
        if name == "host":
            x, y = x[1], y[1]
        elif name == "path":
            x, y = strip_params_and_fragment(x), strip_params_and_fragment(y)
        elif name == "query":
            x = () if "#" in a.path else x
            y = () if "#" in b.path else y
        if x != y:
            return True
    return False
