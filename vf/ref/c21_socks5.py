"""Reference SOCKS5 server-side reader, written from RFC 1928 (protocol) and RFC 1929 (username/password).

Independent of mitmproxy.  `analyse(data, auth_required, creds_ok)` reads the complete byte string a client sent and
returns what a conforming server that supports CONNECT with methods {0x00} (no proxyauth) or {0x02} (proxyauth) must
have done once all bytes are in:

    verdict   "accept"      greeting (+auth) + CONNECT request complete and valid  -> dest, rest (bytes after the request)
              "reject"      the input is invalid at `stage`; `codes` = set of acceptable (reply-prefix) byte strings the
                            server may send for it before closing (b"" = bare close is acceptable)
              "incomplete"  more bytes are needed; `early` = optional early rejection (same shape as reject) allowed
                            because the offending octet is already present, else None
    stage     greet | auth | request  (where parsing stopped)
    replies   list of replies that MUST have been sent before reaching `stage` (method selection, auth status)
    lenient   set of flags: the input is outside what the RFCs define but servers commonly tolerate it; the monitor then
              only requires totality and segmentation independence (DESIGN section 3, tolerance 7)

RFC 1928 section 6: reply = VER REP RSV ATYP BND.ADDR BND.PORT;  `parse_reply` checks well-formedness.
The shortest well-formed request is 7 octets (domain name of length 0 is the syntactic minimum), the shortest greeting
2 octets, the shortest auth message 3 octets: a server is only REQUIRED to have judged a message whose minimum length
has arrived (before that an early rejection is merely allowed).
"""
from __future__ import annotations

import ipaddress
import struct

VER = 5
M_NONE, M_USERPASS, M_NOACCEPT = 0x00, 0x02, 0xFF
CMD_CONNECT = 1
ATYP_V4, ATYP_DOMAIN, ATYP_V6 = 1, 3, 4
REP_OK, REP_CMD, REP_ATYP = 0x00, 0x07, 0x08


def _res(verdict, stage, replies, lenient, **kw):
    d = {"verdict": verdict, "stage": stage, "replies": replies, "lenient": set(lenient), "dest": None, "rest": b"", "codes": None,
         "early": None, "atyp": None, "why": None, "user": None, "password": None}
    d.update(kw)
    return d


def analyse(data: bytes, auth_required: bool, creds_ok=None) -> dict:
    lenient = set()
    replies = []
    # ---- greeting: VER NMETHODS METHODS
    if len(data) < 1:
        return _res("incomplete", "greet", replies, lenient)
    if data[0] != VER:
        # no reply is defined for a foreign protocol version: bare close (any reply would be in an unknown protocol)
        if len(data) < 2:
            return _res("incomplete", "greet", replies, lenient, early={b""}, why="bad-version")
        return _res("reject", "greet", replies, lenient, codes={b""}, why="bad-version")
    if len(data) < 2:
        return _res("incomplete", "greet", replies, lenient)
    n = data[1]
    if len(data) < 2 + n:
        return _res("incomplete", "greet", replies, lenient)
    methods = data[2 : 2 + n]
    need = M_USERPASS if auth_required else M_NONE
    if need not in methods:
        return _res("reject", "greet", replies, lenient, codes={bytes([VER, M_NOACCEPT])}, why="no-acceptable-method")
    replies.append(bytes([VER, need]))
    pos = 2 + n
    user = password = None
    # ---- RFC 1929 sub-negotiation: VER(1) ULEN UNAME PLEN PASSWD
    if auth_required:
        a = data[pos:]
        if len(a) < 2:
            return _res("incomplete", "auth", replies, lenient)
        ulen = a[1]
        if len(a) < 2 + ulen + 1:
            return _res("incomplete", "auth", replies, lenient)
        plen = a[2 + ulen]
        if len(a) < 3 + ulen + plen:
            return _res("incomplete", "auth", replies, lenient)
        if a[0] != 1:
            lenient.add("auth-version-not-1")
        if ulen == 0:
            lenient.add("empty-username")
        if plen == 0:
            lenient.add("empty-password")
        user = a[2 : 2 + ulen]
        password = a[3 + ulen : 3 + ulen + plen]
        ok = bool(creds_ok(user, password)) if creds_ok else False
        if not ok:
            # RFC 1929: STATUS != 0 -> the server MUST close the connection
            return _res("reject", "auth", replies, lenient, codes={b"\x01" + bytes([s]) for s in range(1, 256)}, why="auth-failed", user=user, password=password)
        replies.append(b"\x01\x00")
        pos += 3 + ulen + plen
    # ---- request: VER CMD RSV ATYP DST.ADDR DST.PORT
    q = data[pos:]
    err = None  # (why, codes)
    if len(q) >= 1 and q[0] != VER:
        err = ("request-bad-version", None)
    elif len(q) >= 3 and q[2] != 0:
        err = ("request-rsv-nonzero", None)
    cmd_bad = len(q) >= 2 and q[1] != CMD_CONNECT
    atyp_bad = len(q) >= 4 and q[3] not in (ATYP_V4, ATYP_DOMAIN, ATYP_V6)
    codes = set()
    if cmd_bad:
        codes.add(bytes([VER, REP_CMD]))
    if atyp_bad:
        codes.add(bytes([VER, REP_ATYP]))
    if err is None and codes:
        err = ("+".join(x for x, c in (("command-not-supported", cmd_bad), ("atyp-not-supported", atyp_bad)) if c), codes)
    elif err is not None:
        # malformed request header: RFC names no specific code; any failure reply (REP 1..8) or a bare close will do
        err = (err[0], {bytes([VER, r]) for r in range(1, 9)} | {b""})
    atyp = q[3] if len(q) >= 4 else None
    if err is not None:
        if len(q) < 7:
            return _res("incomplete", "request", replies, lenient, early=err[1], why=err[0], atyp=atyp, user=user, password=password)
        return _res("reject", "request", replies, lenient, codes=err[1], why=err[0], atyp=atyp, user=user, password=password)
    if len(q) < 5:
        return _res("incomplete", "request", replies, lenient, atyp=atyp, user=user, password=password)
    if atyp == ATYP_V4:
        alen, off = 4, 4
    elif atyp == ATYP_V6:
        alen, off = 16, 4
    else:
        alen, off = q[4], 5
    total = off + alen + 2
    if len(q) < total:
        return _res("incomplete", "request", replies, lenient, atyp=atyp, user=user, password=password)
    addr = q[off : off + alen]
    (port,) = struct.unpack("!H", q[off + alen : total])
    if atyp == ATYP_V4:
        dest = ("ip", ipaddress.IPv4Address(addr), port)
    elif atyp == ATYP_V6:
        dest = ("ip", ipaddress.IPv6Address(addr), port)
    else:
        if alen == 0:
            lenient.add("empty-domain")
        if any(b >= 0x80 for b in addr):
            lenient.add("non-ascii-domain")
        dest = ("name", addr, port)
    return _res("accept", "done", replies, lenient, dest=dest, rest=q[total:], atyp=atyp, user=user, password=password)


def parse_reply(b: bytes):
    """-> (rep, atyp, addr, port, consumed) or None if b does not start with a complete well-formed reply."""
    if len(b) < 4 or b[0] != VER or b[2] != 0:
        return None
    atyp = b[3]
    if atyp == ATYP_V4:
        alen, off = 4, 4
    elif atyp == ATYP_V6:
        alen, off = 16, 4
    elif atyp == ATYP_DOMAIN:
        if len(b) < 5:
            return None
        alen, off = b[4], 5
    else:
        return None
    if len(b) < off + alen + 2:
        return None
    return b[1], atyp, b[off : off + alen], struct.unpack("!H", b[off + alen : off + alen + 2])[0], off + alen + 2


def dest_matches(dest, address) -> bool:
    """Does the (host, port) tuple the proxy is going to connect to denote exactly the requested destination?"""
    if not address or len(address) < 2:
        return False
    host, port = address[0], address[1]
    if port != dest[2] or not isinstance(host, str):
        return False
    if dest[0] == "ip":
        try:
            return ipaddress.ip_address(host) == dest[1]
        except ValueError:
            return False
    try:
        return host.encode("ascii") == dest[1]
    except UnicodeError:
        return False
