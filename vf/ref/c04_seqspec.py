"""Sequential specification for C04 ("one queue per layer"), independent of mitmproxy.

A *node* is a sequential process: it handles one event at a time by running a straight-line program of
micro-operations; a blocking emission suspends the program until the completion carrying exactly that
command key arrives; everything else that arrives meanwhile is appended to the node's FIFO queue and handled,
in order, once the program has finished.  A node delivers events to a child synchronously ("call").
Nothing here uses generators or any mitmproxy code: programs are explicit lists with a program counter.

Events:   ("S",)  ("data", conn, uid)  ("done", key, reply)  ("wake", key)
Log:      (step, layer, "start", uid, state) (step, layer, "reply", key, value) (step, layer, "end", uid)
Command kinds: H hook (blocking), O open of an unrelated server (blocking), w wakeup request (not blocking,
completed by a "wake" event), s send (no completion), T open of the tunnelled connection (blocking, intercepted by
a tunnel node), NL next-layer question (blocking), TO the tunnel's own open (blocking), X no command: the probe
switches to its other handler state for all later events.
"""
from __future__ import annotations

import collections


def uid_of(ev):
    if ev[0] == "S":
        return "S"
    if ev[0] == "data":
        return ev[2]
    if ev[0] == "wake":
        return "w/" + ev[1]
    return "?done/" + ev[1]


def reply_for(key, kind):
    if kind == "H":
        return "R/" + key
    if kind == "O":
        return "E/" + key
    return None


class Node:
    def __init__(self, spec, name, parent=None):
        self.spec = spec
        self.name = name
        self.parent = parent
        self.waiting = None
        self.on_reply = None
        self.queue = collections.deque()
        self.ops = []
        self.pc = 0
        self.reaction = None

    # -- the sequential-layer discipline ---------------------------------------------------
    def deliver(self, ev):
        if self.waiting is not None:
            if ev[0] == "done" and ev[1] == self.waiting:
                self.waiting = None
                cb, self.on_reply = self.on_reply, None
                more = cb(ev[2]) if cb else None
                if more:
                    self.ops[self.pc:self.pc] = list(more)
                self.run()
                while self.waiting is None and self.queue:
                    self.begin(self.queue.popleft())
            else:
                self.queue.append(ev)
                self.spec.queued += 1
                self.spec.maxq = max(self.spec.maxq, len(self.queue))
        else:
            self.begin(ev)

    def begin(self, ev):
        self.ops = list(self.program(ev))
        self.pc = 0
        self.run()

    def run(self):
        while self.pc < len(self.ops):
            op = self.ops[self.pc]
            self.pc += 1
            k = op[0]
            if k == "log":
                self.spec.log.append((self.spec.step, self.name) + tuple(op[1:]))
            elif k == "emit":
                _, key, kind, blocking, cb = op
                self.spec.kinds[key] = kind
                self.emit_up(key, kind)
                if blocking:
                    self.waiting = key
                    self.on_reply = cb
                    return
            elif k == "call":
                op[1].deliver(op[2])
                if self.reaction:
                    r, self.reaction = self.reaction, None
                    self.ops[self.pc:self.pc] = r
            elif k == "do":
                more = op[1]()
                if more:
                    self.ops[self.pc:self.pc] = list(more)
            else:  # pragma: no cover
                raise AssertionError(op)

    def emit_up(self, key, kind):
        node, child = self.parent, self
        while node is not None:
            if node.child_cmd(child, key, kind):
                return  # intercepted
            node, child = node.parent, node
        if kind != "s":
            self.spec.outstanding.append(key)
        self.spec.emitted.append((self.spec.step, key))

    def child_cmd(self, child, key, kind):
        return False

    def program(self, ev):  # pragma: no cover
        raise NotImplementedError


class ProbeNode(Node):
    """Scripted leaf.  It is a two-state machine: op X switches the state that handles the *next* event (the
    `self._handle_event = self.state_x` idiom of real layers); the state is part of the 'start' log entry."""

    def __init__(self, spec, name, parent=None):
        super().__init__(spec, name, parent)
        self.state = 0

    def toggle(self):
        self.state = 1 - self.state

    def program(self, ev):
        uid = uid_of(ev)
        yield ("log", "start", uid, self.state)
        for k, op in enumerate(self.spec.script(self.name, uid)):
            key = f"{self.name}/{uid}/{k}{op}"
            if op == "X":
                yield ("do", self.toggle)
            elif op in "HOT":
                yield ("emit", key, op, True, (lambda reply, key=key: [("log", "reply", key, reply)]))
            else:
                yield ("emit", key, op, False, None)
        yield ("log", "end", uid)


class RouterNode(Node):
    """Routes data by uid prefix and completions by the child that emitted the command."""

    def __init__(self, spec, name, parent=None):
        super().__init__(spec, name, parent)
        self.children = {}
        self.sources = {}

    def child_cmd(self, child, key, kind):
        if kind in "HOTw" or kind in ("NL", "TO"):
            self.sources[key] = child
        return False

    def program(self, ev):
        if ev[0] == "S":
            for c in self.children.values():
                yield ("call", c, ev)
        elif ev[0] in ("done", "wake"):
            yield ("call", self.sources.pop(ev[1]), ev)
        else:
            uid = ev[2]
            for k, op in enumerate(self.spec.script(self.name, uid)):
                key = f"{self.name}/{uid}/{k}{op}"
                if op in "HO":
                    yield ("emit", key, op, True, (lambda reply, key=key: [("log", "reply", key, reply)]))
                else:
                    yield ("emit", key, op, False, None)
            yield ("call", self.children[uid[0]], ev)


class NextNode(Node):
    """Collects events; asks after every data event; once answered replays all collected events in order."""

    def __init__(self, spec, name, decide_at, parent=None):
        super().__init__(spec, name, parent)
        self.events = []
        self.layer = None
        self.asks = 0
        self.decide_at = decide_at
        self.transparent = False

    def deliver(self, ev):
        if self.transparent:
            self.layer.deliver(ev)
        else:
            super().deliver(ev)

    def program(self, ev):
        if self.transparent:
            yield ("call", self.layer, ev)
            return
        yield ("do", lambda: self.events.append(ev))
        if ev[0] == "data":
            key = f"NL/{self.asks}"
            self.asks += 1
            yield ("emit", key, "NL", True, None)
            yield ("do", self.after_ask)

    def after_ask(self):
        if self.layer is not None:
            return [("call", self.layer, e) for e in self.events] + [("do", self.finish)]

    def finish(self):
        self.spec.queued += max(0, len(self.events) - 1)
        self.events = []
        self.transparent = True


class TunnelNode(Node):
    """Tunnel: consumes data of the tunnel connection while establishing; the child sees nothing until then
    (eager: the connection exists at Start) or the child's own open is answered when the tunnel is up (lazy)."""

    def __init__(self, spec, name, tconn, open_at_start, h, parent=None):
        super().__init__(spec, name, parent)
        self.tconn = tconn
        self.open_at_start = open_at_start
        self.h = h
        self.state = "INACTIVE"
        self.reply_to = None
        self.evq = []
        self.seen = 0
        self.child = None

    def program(self, ev):
        if ev[0] == "S":
            if self.open_at_start:
                yield ("do", self.start_handshake)
            yield ("do", lambda: self.to_child(ev))
        elif ev[0] == "data" and ev[1] == self.tconn:
            yield ("do", lambda: self.tunnel_data(ev))
        else:
            yield ("do", lambda: self.to_child(ev))

    def start_handshake(self):
        self.state = "EST"
        return self.hs_chunk()

    def tunnel_data(self, ev):
        if self.state == "EST":
            return self.hs_chunk()
        return self.to_child(ev)

    def hs_chunk(self):
        i = self.seen
        self.seen += 1
        ops = []
        if "H" in self.spec.script(self.name, f"hs{i}"):
            key = f"{self.name}/hs{i}"
            ops.append(("emit", key, "H", True, (lambda reply, key=key: [("log", "reply", key, reply)])))
        ops.append(("do", lambda: self.finished() if i >= self.h else None))
        return ops

    def finished(self):
        self.state = "OPEN"
        if self.reply_to:
            k, self.reply_to = self.reply_to, None
            return [("call", self.child, ("done", k, None))]
        q, self.evq = self.evq, []
        return [("call", self.child, e) for e in q]

    def to_child(self, ev):
        if self.state == "EST" and not self.reply_to:
            self.evq.append(ev)
            self.spec.queued += 1
            return []
        return [("call", self.child, ev)]

    def child_cmd(self, child, key, kind):
        if kind != "T":
            return False
        self.reply_to = key
        self.reaction = [
            ("do", lambda: setattr(self, "state", "EST")),
            ("emit", f"{self.name}/open", "TO", True, self.after_open),
        ]
        return True

    def after_open(self, err):
        if err:
            k = self.reply_to
            return [("call", self.child, ("done", k, err)), ("do", lambda: setattr(self, "state", "CLOSED"))]
        self.spec.server_open = True
        return self.hs_chunk()


class Spec:
    """topo: single | router | next-single | next-router | tunnel-single | tunnel-router | lazy-tunnel"""

    def __init__(self, topo, script, decide_at=0, h=1, open_err=None):
        self.topo = topo
        self.script = script
        self.log = []
        self.step = 0
        self.outstanding = []
        self.emitted = []
        self.kinds = {}
        self.queued = 0
        self.maxq = 0
        self.open_err = open_err
        self.server_open = topo != "lazy-tunnel"
        self.next = None
        inner = topo.split("-")[-1]
        if topo == "lazy-tunnel":
            inner = "single"

        def make_inner(parent):
            if inner == "single":
                return ProbeNode(self, "A", parent)
            r = RouterNode(self, "P", parent)
            r.children = {"A": ProbeNode(self, "A", r), "B": ProbeNode(self, "B", r)}
            return r

        if topo.startswith("next-"):
            self.top = self.next = NextNode(self, "NL", decide_at)
            self._make_inner = make_inner
        elif topo.startswith("tunnel-") or topo == "lazy-tunnel":
            lazy = topo == "lazy-tunnel"
            self.top = TunnelNode(self, "TUN", "s" if lazy else "c", not lazy, h)
            self.top.child = make_inner(self.top)
        else:
            self.top = make_inner(None)

    def feed(self, ev):
        self.step += 1
        self.top.deliver(ev)

    def complete(self, key):
        self.outstanding.remove(key)
        kind = self.kinds[key]
        if kind == "w":
            ev = ("wake", key)
        elif kind == "NL":
            if int(key.split("/")[1]) == self.next.decide_at:
                self.next.layer = self._make_inner(self.next)
            ev = ("done", key, None)
        elif kind == "TO":
            ev = ("done", key, self.open_err)
        else:
            ev = ("done", key, reply_for(key, kind))
        self.feed(ev)
