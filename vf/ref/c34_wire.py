"""Independent wire-format readers for C34 (own code, written from the specs; nothing imported from mitmproxy).

  split_target(path)            request-target bytes -> (path part, query bytes | None)      (RFC 3986 3.3/3.4)
  parse_urlencoded(b)           application/x-www-form-urlencoded bytes -> [(str, str)]      (WHATWG URL 5.1)
  path_segments(path part)      -> [bytes] percent-decoded segments, empty ones kept           (RFC 3986 3.3)
  parse_cookie_string(s)        Cookie header value -> [(name, value)]                        (RFC 6265 4.2 + RFC 2965 quoted-string)
  parse_set_cookie(s)           one Set-Cookie header value -> (name, value, [(attr, value|None)])
  parse_multipart(boundary, b)  multipart/form-data body -> [Part(name, filename, ctype, value)] (RFC 2046 5.1 / RFC 7578)

Reading choices are the ones most favourable to a proxy that re-serialises: DQUOTE-wrapped cookie values are
unquoted with backslash unescaping (RFC 2109/2965 servers, Python's http.cookies), a cookie pair without "=" is a
name with an empty value, "+" means space in urlencoded data and %XX / literal forms of the same octet are equal.
Text is compared as str decoded from UTF-8 with surrogateescape, i.e. byte-faithfully.
"""
from __future__ import annotations

import re
from typing import NamedTuple

HEXD = b"0123456789abcdefABCDEF"


def pct_decode(b: bytes, plus: bool = False) -> bytes:
    out = bytearray()
    i, n = 0, len(b)
    while i < n:
        c = b[i]
        if c == 0x25 and i + 2 < n and b[i + 1] in HEXD and b[i + 2] in HEXD:
            out.append(int(b[i + 1 : i + 3], 16))
            i += 3
        elif c == 0x2B and plus:
            out.append(0x20)
            i += 1
        else:
            out.append(c)
            i += 1
    return bytes(out)


def txt(b: bytes) -> str:
    return b.decode("utf-8", "surrogateescape")


def split_target(path: bytes):
    """-> (path part incl. ;params, query or None). A fragment (not legal in a request-target) is cut off."""
    path = path.split(b"#", 1)[0]
    if b"?" in path:
        p, q = path.split(b"?", 1)
        return p, q
    return path, None


def parse_urlencoded(data: bytes | None) -> list[tuple[str, str]]:
    if not data:
        return []
    out = []
    for seq in data.split(b"&"):
        if not seq:
            continue
        if b"=" in seq:
            k, v = seq.split(b"=", 1)
        else:
            k, v = seq, b""
        out.append((txt(pct_decode(k, True)), txt(pct_decode(v, True))))
    return out


def path_segments(path_part: bytes) -> list[bytes]:
    """Segments of an absolute path, percent-decoded; '/a//b/' -> [a, '', b, '']; '/' -> ['']; ';params' stay in their segment."""
    if not path_part.startswith(b"/"):
        return [pct_decode(path_part)]
    return [pct_decode(s) for s in path_part[1:].split(b"/")]


# ---------------------------------------------------------------------------------------------
# cookies
# ---------------------------------------------------------------------------------------------

def _split_outside_quotes(s: str, sep: str) -> list[str]:
    """Split at sep, except inside a DQUOTE-delimited quoted-string that starts directly after the first '=' of a
    piece (RFC 2965 value = token | quoted-string; backslash quotes the next character)."""
    pieces = []
    i, n = 0, len(s)
    while i <= n:
        j = i
        seen_eq = False
        buf = []
        while j < n and s[j] != sep:
            c = s[j]
            buf.append(c)
            j += 1
            if c == "=" and not seen_eq:
                seen_eq = True
                if j < n and s[j] == '"':
                    buf.append('"')
                    j += 1
                    while j < n:
                        c = s[j]
                        if c == "\\" and j + 1 < n:
                            buf.append(c)
                            buf.append(s[j + 1])
                            j += 2
                            continue
                        buf.append(c)
                        j += 1
                        if c == '"':
                            break
        pieces.append("".join(buf))
        i = j + 1
    return pieces


def _unq(v: str) -> str:
    if len(v) >= 2 and v[0] == '"' and v[-1] == '"':
        body = v[1:-1]
        out = []
        i = 0
        while i < len(body):
            if body[i] == "\\" and i + 1 < len(body):
                out.append(body[i + 1])
                i += 2
            else:
                out.append(body[i])
                i += 1
        return "".join(out)
    return v


OWS = " \t"


def parse_cookie_string(s: str) -> list[tuple[str, str]]:
    out = []
    for piece in _split_outside_quotes(s, ";"):
        piece = piece.strip(OWS)
        if not piece:
            continue
        if "=" in piece:
            k, v = piece.split("=", 1)
            out.append((k.strip(OWS), _unq(v.strip(OWS))))
        else:
            out.append((piece, ""))
    return out


def parse_set_cookie(s: str):
    pieces = _split_outside_quotes(s, ";")
    first = pieces[0].strip(OWS)
    if "=" in first:
        name, value = first.split("=", 1)
        name, value = name.strip(OWS), _unq(value.strip(OWS))
    else:
        name, value = first, None
    attrs = []
    for p in pieces[1:]:
        p = p.strip(OWS)
        if not p:
            continue
        if "=" in p:
            k, v = p.split("=", 1)
            attrs.append((k.strip(OWS), _unq(v.strip(OWS))))
        else:
            attrs.append((p, None))
    return name, value, attrs


# ---------------------------------------------------------------------------------------------
# multipart/form-data
# ---------------------------------------------------------------------------------------------

class Part(NamedTuple):
    name: bytes | None
    filename: bytes | None
    ctype: bytes | None
    value: bytes


_PAD_CRLF = re.compile(rb"[ \t]*\r\n")
_param = re.compile(rb';\s*([A-Za-z*]+)\s*=\s*(?:"((?:[^"\\]|\\.)*)"|([^;\s]*))')


def parse_multipart(boundary: bytes, body: bytes) -> list[Part] | None:
    """RFC 2046 5.1.1: delimiter = CRLF "--" boundary (the CRLF belongs to the delimiter; the first delimiter may
    start the body), followed by optional linear whitespace and CRLF; close-delimiter ends with "--".
    Returns None if the body is not a well-formed multipart entity."""
    delim = b"--" + boundary
    data = b"\r\n" + body  # so that a delimiter at the very start is found by the same search
    pos = data.find(b"\r\n" + delim)
    parts = []
    while True:
        if pos < 0:
            return None
        after = pos + 2 + len(delim)
        if data[after : after + 2] == b"--":
            return parts  # close delimiter; epilogue ignored
        # transport padding then CRLF
        m = _PAD_CRLF.match(data, after)
        if not m:
            # not a delimiter line (e.g. boundary text followed by other characters): keep searching
            pos = data.find(b"\r\n" + delim, pos + 2)
            continue
        start = m.end()
        nxt = start - 2  # the CRLF ending the delimiter line may also start the next delimiter (empty part)
        while True:
            nxt = data.find(b"\r\n" + delim, nxt)
            if nxt < 0:
                return None
            a2 = nxt + 2 + len(delim)
            if data[a2 : a2 + 2] == b"--" or _PAD_CRLF.match(data, a2):
                break
            nxt += 2
        raw = data[start:nxt] if nxt >= start else b""
        # headers / body
        if raw.startswith(b"\r\n"):
            hdr, val = b"", raw[2:]
        elif b"\r\n\r\n" in raw:
            hdr, val = raw.split(b"\r\n\r\n", 1)
        else:
            hdr, val = raw, b""
        name = filename = ctype = None
        for line in hdr.split(b"\r\n"):
            if b":" not in line:
                continue
            hn, hv = line.split(b":", 1)
            hn = hn.strip().lower()
            if hn == b"content-disposition":
                for pm in _param.finditer(hv):
                    key = pm.group(1).lower()
                    v = pm.group(2) if pm.group(2) is not None else pm.group(3)
                    if key == b"name":
                        name = v
                    elif key == b"filename":
                        filename = v
            elif hn == b"content-type":
                ctype = hv.strip()
        parts.append(Part(name, filename, ctype, val))
        pos = nxt
