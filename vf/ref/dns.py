"""Reference DNS wire codec (RFC 1035 section 4, RFC 3597, RFC 2782/2915/...), independent of mitmproxy.

    decode(buf) -> dict          strict RFC decoder, loop-safe name decompression, raises DecodeError
    encode(msg, compress=False)  encoder; with compress=True owner names and names inside the RDATA of the
                                 name-bearing types are compressed with RFC 1035 section 4.1.4 pointers

Message dict (decode output == encode input):

    {"id": int, "qr": bool (True = response), "opcode": int, "aa": bool, "tc": bool, "rd": bool, "ra": bool,
     "z": int (3 reserved bits incl. AD/CD), "rcode": int, "flags": int (the raw 16 bit, decode only),
     "questions":   [{"name": labels, "type": int, "class": int}],
     "answers" / "authorities" / "additionals":
                    [{"name": labels, "type": int, "class": int, "ttl": int (unsigned 32 bit),
                      "rdata": bytes            RDATA exactly as on the wire (encode: used when "rdata_parts" is absent),
                      "rdata_parts": [...]      only for name-bearing types whose RDATA parsed according to its layout:
                                                 items are bytes or ("name", labels); encode() prefers it over "rdata",
                      "names": [labels, ...]    the names of rdata_parts in order (decode only),
                      "rdata_expanded": bytes   RDATA with every name written uncompressed (decode only; == rdata for
                                                 types that bear no names or whose RDATA does not fit the layout)}],
     "counts": (qd, an, ns, ar), "length": bytes consumed, "trailing": bytes after the message (decode only)}

``labels`` is a tuple of ``bytes`` (one per label, without the root), e.g. (b"www", b"example", b"com").
Names are limited to 255 octets on the wire and labels to 63 (RFC 1035 2.3.4); pointers must point backwards to a
prior occurrence (section 4.1.4) -- ``decode(..., lenient=True)`` lifts the last two restrictions (still loop safe).
"""
from __future__ import annotations

import struct

# ---- type numbers ------------------------------------------------------------------------------------------------------
A, NS, MD, MF, CNAME, SOA, MB, MG, MR, NULL, WKS, PTR, HINFO, MINFO, MX, TXT = range(1, 17)
RP, AFSDB, RT, SIG, PX, AAAA, NXT, SRV, NAPTR, KX, DNAME, OPT, RRSIG, NSEC, SVCB, HTTPS = 17, 18, 21, 24, 26, 28, 30, 33, 35, 36, 39, 41, 46, 47, 64, 65

# RDATA layouts of the types defined to hold domain names. Tokens: "name", int (that many opaque octets),
# "charstr" (<character-string>), "rest" (opaque remainder).
LAYOUTS: dict[int, tuple] = {
    NS: ("name",), MD: ("name",), MF: ("name",), CNAME: ("name",), MB: ("name",), MG: ("name",), MR: ("name",),
    PTR: ("name",), DNAME: ("name",),
    SOA: ("name", "name", 20),
    MINFO: ("name", "name"),
    RP: ("name", "name"),
    MX: (2, "name"), AFSDB: (2, "name"), RT: (2, "name"), KX: (2, "name"),
    PX: (2, "name", "name"),
    SRV: (6, "name"),
    NAPTR: (4, "charstr", "charstr", "charstr", "name"),
    SIG: (18, "name", "rest"), RRSIG: (18, "name", "rest"),
    NXT: ("name", "rest"), NSEC: ("name", "rest"),
}
# Types for which RFC 1035 / RFC 3597 section 4 permit a *sender* to compress names inside RDATA.
COMPRESSIBLE_RDATA = frozenset({NS, MD, MF, CNAME, SOA, MB, MG, MR, PTR, MINFO, MX})

_HDR = struct.Struct("!HHHHHH")
_QFIX = struct.Struct("!HH")
_RRFIX = struct.Struct("!HHIH")
MAX_NAME_WIRE = 255
MAX_LABEL = 63


class DecodeError(ValueError):
    pass


# ---- names ---------------------------------------------------------------------------------------------------------------

def read_name(buf: bytes, off: int, *, lenient: bool = False) -> tuple[tuple[bytes, ...], int]:
    """Read a possibly compressed name at ``off`` -> (labels, offset just after the name *at its original position*).

    Loop safe: every pointer must point strictly before the start of the name part being read in strict mode; in
    lenient mode a visited set bounds the walk."""
    labels: list[bytes] = []
    end = None  # offset after the name at the original position
    wire = 1  # length of the uncompressed name so far (root octet included)
    visited: set[int] = set()
    limit = off  # strict: pointers must be < position of the first octet of the current name fragment
    pos = off
    hops = 0
    while True:
        if pos >= len(buf):
            raise DecodeError(f"name runs past the end of the message at {pos}")
        b = buf[pos]
        if b & 0xC0 == 0xC0:
            if pos + 1 >= len(buf):
                raise DecodeError("truncated compression pointer")
            target = ((b & 0x3F) << 8) | buf[pos + 1]
            if end is None:
                end = pos + 2
            if lenient:
                if target in visited:
                    raise DecodeError("compression loop")
                visited.add(target)
            else:
                if target >= limit:
                    raise DecodeError(f"compression pointer at {pos} does not point backwards ({target} >= {limit})")
                limit = target
            hops += 1
            if hops > len(buf):
                raise DecodeError("too many compression pointers")
            pos = target
            continue
        if b & 0xC0:
            raise DecodeError(f"reserved label type 0x{b & 0xC0:02x} at {pos}")
        if b == 0:
            if end is None:
                end = pos + 1
            return tuple(labels), end
        if pos + 1 + b > len(buf):
            raise DecodeError("label runs past the end of the message")
        wire += 1 + b
        if wire > MAX_NAME_WIRE and not lenient:
            raise DecodeError("name longer than 255 octets")
        if wire > 70_000:
            raise DecodeError("name absurdly long")
        labels.append(bytes(buf[pos + 1 : pos + 1 + b]))
        pos += 1 + b


def name_wire(labels) -> bytes:
    """Uncompressed wire form."""
    out = bytearray()
    for lab in labels:
        if not 1 <= len(lab) <= MAX_LABEL:
            raise ValueError(f"label length {len(lab)}")
        out.append(len(lab))
        out += lab
    out.append(0)
    return bytes(out)


def labels_from_text(name: str, encoding: str = "ascii") -> tuple[bytes, ...]:
    """'www.example.com' -> labels (no escapes, '' is the root); convenience for generators."""
    return tuple(p.encode(encoding) for p in name.split(".")) if name else ()


# ---- decode ----------------------------------------------------------------------------------------------------------------

def _parse_rdata(buf: bytes, off: int, end: int, rtype: int, lenient: bool):
    """-> (parts, names) following LAYOUTS[rtype], or None when RDATA does not fit the layout."""
    layout = LAYOUTS.get(rtype)
    if layout is None:
        return None
    parts: list = []
    names: list = []
    pos = off
    try:
        for tok in layout:
            if tok == "name":
                labels, nxt = read_name(buf, pos, lenient=lenient)
                if nxt > end:
                    return None
                parts.append(("name", labels))
                names.append(labels)
                pos = nxt
            elif tok == "charstr":
                if pos >= end:
                    return None
                n = buf[pos]
                if pos + 1 + n > end:
                    return None
                parts.append(bytes(buf[pos : pos + 1 + n]))
                pos += 1 + n
            elif tok == "rest":
                parts.append(bytes(buf[pos:end]))
                pos = end
            else:
                if pos + tok > end:
                    return None
                parts.append(bytes(buf[pos : pos + tok]))
                pos += tok
    except DecodeError:
        return None
    if pos != end:
        return None
    return parts, names


def expand_parts(parts) -> bytes:
    return b"".join(name_wire(p[1]) if isinstance(p, tuple) else p for p in parts)


def decode(buf: bytes, *, lenient: bool = False, allow_trailing: bool = True) -> dict:
    buf = bytes(buf)
    if len(buf) < 12:
        raise DecodeError("shorter than a header")
    mid, flags, qd, an, ns, ar = _HDR.unpack_from(buf, 0)
    msg = {
        "id": mid,
        "flags": flags,
        "qr": bool(flags & 0x8000),
        "opcode": (flags >> 11) & 0xF,
        "aa": bool(flags & 0x0400),
        "tc": bool(flags & 0x0200),
        "rd": bool(flags & 0x0100),
        "ra": bool(flags & 0x0080),
        "z": (flags >> 4) & 0x7,
        "rcode": flags & 0xF,
        "counts": (qd, an, ns, ar),
        "questions": [],
        "answers": [],
        "authorities": [],
        "additionals": [],
    }
    pos = 12
    for i in range(qd):
        labels, pos = read_name(buf, pos, lenient=lenient)
        if pos + 4 > len(buf):
            raise DecodeError(f"question {i} truncated")
        qtype, qclass = _QFIX.unpack_from(buf, pos)
        pos += 4
        msg["questions"].append({"name": labels, "type": qtype, "class": qclass})
    for section, count in (("answers", an), ("authorities", ns), ("additionals", ar)):
        for i in range(count):
            labels, pos = read_name(buf, pos, lenient=lenient)
            if pos + 10 > len(buf):
                raise DecodeError(f"{section} {i} truncated")
            rtype, rclass, ttl, rdlen = _RRFIX.unpack_from(buf, pos)
            pos += 10
            if pos + rdlen > len(buf):
                raise DecodeError(f"{section} {i}: RDATA runs past the end of the message")
            raw = buf[pos : pos + rdlen]
            rr = {"name": labels, "type": rtype, "class": rclass, "ttl": ttl, "rdata": raw, "rdata_offset": pos,
                  "rdata_expanded": raw, "names": []}
            parsed = _parse_rdata(buf, pos, pos + rdlen, rtype, lenient)
            if parsed is not None:
                rr["rdata_parts"], rr["names"] = parsed
                rr["rdata_expanded"] = expand_parts(parsed[0])
            msg[section].append(rr)
            pos += rdlen
    msg["length"] = pos
    msg["trailing"] = buf[pos:]
    if msg["trailing"] and not allow_trailing:
        raise DecodeError("trailing bytes")
    return msg


# ---- encode ----------------------------------------------------------------------------------------------------------------

class _Writer:
    def __init__(self, compress: bool):
        self.out = bytearray()
        self.compress = compress
        self.suffixes: dict[tuple, int] = {}

    def name(self, labels, allow_compress=True):
        labels = tuple(labels)
        for i in range(len(labels)):
            suffix = labels[i:]  # exact octets: decode(encode(m)) reproduces m byte for byte
            if self.compress and allow_compress and suffix in self.suffixes:
                ptr = self.suffixes[suffix]
                self.out += bytes([0xC0 | (ptr >> 8), ptr & 0xFF])
                return
            if self.compress and len(self.out) < 0x4000:
                self.suffixes.setdefault(suffix, len(self.out))
            lab = labels[i]
            if not 1 <= len(lab) <= MAX_LABEL:
                raise ValueError(f"label length {len(lab)}")
            self.out.append(len(lab))
            self.out += lab
        self.out.append(0)


def flags_of(msg: dict) -> int:
    if "flags" in msg and not any(k in msg for k in ("qr", "opcode", "aa", "tc", "rd", "ra", "z", "rcode")):
        return msg["flags"]
    return (
        (0x8000 if msg.get("qr") else 0)
        | ((msg.get("opcode", 0) & 0xF) << 11)
        | (0x0400 if msg.get("aa") else 0)
        | (0x0200 if msg.get("tc") else 0)
        | (0x0100 if msg.get("rd") else 0)
        | (0x0080 if msg.get("ra") else 0)
        | ((msg.get("z", 0) & 0x7) << 4)
        | (msg.get("rcode", 0) & 0xF)
    )


def encode(msg: dict, compress: bool = False, compress_all_rdata_names: bool = False) -> bytes:
    """Encode a message dict. ``counts`` (if present) overrides the real section lengths (for malformed inputs)."""
    w = _Writer(compress)
    secs = [msg.get("questions", []), msg.get("answers", []), msg.get("authorities", []), msg.get("additionals", [])]
    counts = msg.get("counts") or tuple(len(s) for s in secs)
    w.out += _HDR.pack(msg.get("id", 0), flags_of(msg), *counts)
    for q in secs[0]:
        w.name(q["name"])
        w.out += _QFIX.pack(q["type"], q["class"])
    for sec in secs[1:]:
        for rr in sec:
            w.name(rr["name"])
            fix_at = len(w.out)
            w.out += _RRFIX.pack(rr["type"], rr["class"], rr["ttl"], 0)
            start = len(w.out)
            parts = rr.get("rdata_parts")
            if parts is None:
                w.out += rr["rdata"]
            else:
                ok = compress_all_rdata_names or rr["type"] in COMPRESSIBLE_RDATA
                for p in parts:
                    if isinstance(p, tuple):
                        w.name(p[1], allow_compress=ok)
                    else:
                        w.out += p
            rdlen = len(w.out) - start
            if rdlen > 0xFFFF:
                raise ValueError("RDATA longer than 65535 octets")
            struct.pack_into("!H", w.out, fix_at + 8, rdlen)
    return bytes(w.out)


def semantic(msg: dict) -> dict:
    """Layout-independent view of a decoded message (for comparing a message before/after forwarding):
    compression expanded, offsets and raw flags dropped."""
    def rr(r):
        return {"name": tuple(r["name"]), "type": r["type"], "class": r["class"], "ttl": r["ttl"],
                "rdata": r.get("rdata_expanded", r.get("rdata"))}
    return {
        **{k: msg[k] for k in ("id", "qr", "opcode", "aa", "tc", "rd", "ra", "z", "rcode")},
        "questions": [{"name": tuple(q["name"]), "type": q["type"], "class": q["class"]} for q in msg["questions"]],
        "answers": [rr(r) for r in msg["answers"]],
        "authorities": [rr(r) for r in msg["authorities"]],
        "additionals": [rr(r) for r in msg["additionals"]],
    }
