"""Tagged plaintext streams for C14: loss / duplication / reordering / corruption are decidable from the bytes.

A stream is the concatenation of chunks  b"<dir>:<n>:<len>:" + filler  where n counts 0,1,2,..., len is the total
chunk length and the filler is a fixed function of (dir, n).  Writers cut the stream anywhere (a write may carry
a fraction of a chunk or many chunks).  `diagnose(dir, expected, got)` explains the first deviation.
Independent of mitmproxy.
"""
from __future__ import annotations

import re

HDR = re.compile(rb"([a-z0-9]{3}):(\d+):(\d+):")


def chunk(d: str, n: int, size: int) -> bytes:
    head = b"%s:%d:" % (d.encode(), n)
    # total length includes the header; the length field has a fixed point because we pad the digits
    for digits in range(1, 8):
        total = max(size, len(head) + digits + 1)
        if len(str(total)) == digits:
            break
    head += b"%d:" % total
    unit = b"%d." % (n * 7919 % 10007)
    fill = (unit * ((total - len(head)) // len(unit) + 1))[: total - len(head)]
    return head + fill


class Stream:
    """Producer side: an endless tagged stream, consumed in arbitrary cuts."""

    def __init__(self, d: str, rng, sizes=(12, 40, 200, 1500, 6000)):
        self.d = d
        self.rng = rng
        self.sizes = sizes
        self.n = 0
        self.buf = bytearray()
        self.taken = bytearray()

    def take(self, k: int) -> bytes:
        while len(self.buf) < k:
            self.buf += chunk(self.d, self.n, self.rng.choice(self.sizes))
            self.n += 1
        out = bytes(self.buf[:k])
        del self.buf[:k]
        self.taken += out
        return out


def parse(d: str, data: bytes):
    """-> (list of chunk numbers completely and correctly present, in order; anomaly or None; offset)."""
    pos = 0
    seq = []
    while pos < len(data):
        m = HDR.match(data, pos)
        if not m:
            if len(data) - pos < 24 and re.fullmatch(rb"[a-z0-9]{0,3}(:\d*(:\d*)?)?", data[pos:]):
                return seq, None, pos  # truncated inside a header
            return seq, "garbage-where-a-chunk-header-should-be", pos
        if m.group(1).decode() != d:
            return seq, f"chunk-of-other-stream-{m.group(1).decode()}", pos
        n, total = int(m.group(2)), int(m.group(3))
        want = chunk(d, n, total)
        have = data[pos : pos + total]
        if have != want[: len(have)]:
            return seq, "chunk-body-corrupted", pos
        if len(have) < total:
            return seq, None, pos  # truncated inside the chunk
        seq.append(n)
        pos += total
    return seq, None, pos


def diagnose(d: str, expected: bytes, got: bytes) -> str:
    """Name the first deviation of `got` from `expected` (both are concatenations of chunk bytes)."""
    if got == expected:
        return "equal"
    if expected.startswith(got):
        return "truncated"
    seq, anomaly, pos = parse(d, got)
    if anomaly:
        return anomaly
    for i, n in enumerate(seq):
        if n != i:
            if n in seq[:i]:
                return "duplicated-chunk"
            if n > i and i not in seq:
                return "lost-chunk"
            return "reordered-chunks"
    if got.startswith(expected):
        return "extra-bytes-after-stream"
    # same chunk numbering but different bytes: find the position
    k = next((i for i, (a, b) in enumerate(zip(got, expected)) if a != b), min(len(got), len(expected)))
    return "bytes-differ-mid-chunk" if k else "first-byte-differs"
