"""Reference TLS / DTLS ClientHello builder, record wrapper and strict parser.

Independent of mitmproxy (no kaitai, no mitmproxy imports): written from RFC 5246 §7.4.1.2, RFC 8446 §4.1.2,
RFC 6066 §3 (server_name), RFC 7301 §3.1 (ALPN), RFC 6347 §4.2.2/§4.3.2 (DTLS handshake header + cookie).

    build_client_hello(sni=..., alpn=[...], ciphers=[...], extensions=[...], legacy_version=...) -> handshake bytes
    wrap_records(handshake_bytes, cuts)  -> TLS record bytes (one record per fragment)
    parse(handshake_bytes)               -> dict (strict: every length field must be exactly consistent)
    unwrap_records(record_bytes)         -> ("hello", handshake bytes) | ("incomplete", None); ParseError if invalid

"handshake bytes" always include the handshake header (TLS: type + u24 length; DTLS: the 12-byte header).
"""
from __future__ import annotations

import struct

GREASE = [0x0A0A + 0x1010 * i for i in range(16)]
HANDSHAKE = 22
CLIENT_HELLO = 1
EXT_SERVER_NAME = 0
EXT_ALPN = 16
MAX_RECORD = 2**14


class ParseError(ValueError):
    pass


def _u8(n):
    return struct.pack("!B", n)


def _u16(n):
    return struct.pack("!H", n)


def _u24(n):
    return struct.pack("!I", n)[1:]


# ---------------------------------------------------------------------------------------------
# builder
# ---------------------------------------------------------------------------------------------

def sni_ext_body(names) -> bytes:
    """names: list of (name_type, raw name bytes) -> body of the server_name extension."""
    lst = b"".join(_u8(t) + _u16(len(n)) + n for t, n in names)
    return _u16(len(lst)) + lst


def alpn_ext_body(protos) -> bytes:
    lst = b"".join(_u8(len(p)) + p for p in protos)
    return _u16(len(lst)) + lst


def build_client_hello(
    *,
    sni=None,
    alpn=None,
    ciphers=(0x1301, 0x1302, 0xC02F),
    extensions=(),
    legacy_version=0x0303,
    random=b"\x00" * 32,
    session_id=b"",
    compression=b"\x00",
    no_extensions_block=False,
    shuffle=None,
    dtls=False,
    cookie=b"",
    message_seq=0,
) -> bytes:
    """Return the handshake message (with handshake header).

    sni: None | str | bytes (a single host_name entry) ; alpn: None | list[bytes] ;
    extensions: further raw (type, body) pairs (types 0 and 16 are allowed here for hand-made bodies);
    shuffle: a random.Random used to permute the extension order (default: server_name, ALPN, then `extensions`).
    """
    assert len(random) == 32 and len(session_id) <= 255 and len(compression) <= 255 and len(cookie) <= 255
    exts = []
    if sni is not None:
        raw = sni.encode("utf-8") if isinstance(sni, str) else bytes(sni)
        exts.append((EXT_SERVER_NAME, sni_ext_body([(0, raw)])))
    if alpn is not None:
        exts.append((EXT_ALPN, alpn_ext_body([bytes(p) for p in alpn])))
    exts.extend((int(t), bytes(b)) for t, b in extensions)
    if shuffle is not None:
        shuffle.shuffle(exts)
    body = _u16(legacy_version) + random + _u8(len(session_id)) + session_id
    if dtls:
        body += _u8(len(cookie)) + cookie
    cs = b"".join(_u16(c) for c in ciphers)
    body += _u16(len(cs)) + cs + _u8(len(compression)) + compression
    if not no_extensions_block:
        eb = b"".join(_u16(t) + _u16(len(b)) + b for t, b in exts)
        body += _u16(len(eb)) + eb
    else:
        assert not exts
    if dtls:
        return _u8(CLIENT_HELLO) + _u24(len(body)) + _u16(message_seq) + _u24(0) + _u24(len(body)) + body
    return _u8(CLIENT_HELLO) + _u24(len(body)) + body


def extension_list(*, sni=None, alpn=None, extensions=()):
    """The (type, body) list build_client_hello produces without shuffling (ground truth helper)."""
    exts = []
    if sni is not None:
        raw = sni.encode("utf-8") if isinstance(sni, str) else bytes(sni)
        exts.append((EXT_SERVER_NAME, sni_ext_body([(0, raw)])))
    if alpn is not None:
        exts.append((EXT_ALPN, alpn_ext_body([bytes(p) for p in alpn])))
    exts.extend((int(t), bytes(b)) for t, b in extensions)
    return exts


def wrap_records(handshake_bytes: bytes, cuts=(), *, version=0x0301, versions=None, dtls=False, epoch=0, seq0=0) -> bytes:
    """Split the handshake bytes at the given offsets and put every fragment in its own handshake record.

    versions: optional per-record list of record-layer versions (cycled). For dtls=True the 13-byte DTLS record
    header is used (cuts are then plain byte cuts of the message, i.e. *not* RFC 6347 handshake fragmentation).
    """
    offs = sorted({c for c in cuts if 0 < c < len(handshake_bytes)})
    bounds = [0, *offs, len(handshake_bytes)]
    out = bytearray()
    for i in range(len(bounds) - 1):
        frag = handshake_bytes[bounds[i] : bounds[i + 1]]
        v = versions[i % len(versions)] if versions else version
        assert 0 < len(frag) <= 0xFFFF
        if dtls:
            out += _u8(HANDSHAKE) + _u16(v) + _u16(epoch) + struct.pack("!Q", seq0 + i)[2:] + _u16(len(frag)) + frag
        else:
            out += _u8(HANDSHAKE) + _u16(v) + _u16(len(frag)) + frag
    return bytes(out)


# ---------------------------------------------------------------------------------------------
# strict parser
# ---------------------------------------------------------------------------------------------

class _R:
    def __init__(self, b: bytes, what="hello"):
        self.b = b
        self.i = 0
        self.what = what

    def take(self, n):
        if n < 0 or self.i + n > len(self.b):
            raise ParseError(f"{self.what}: need {n} bytes at {self.i}, have {len(self.b) - self.i}")
        r = self.b[self.i : self.i + n]
        self.i += n
        return r

    def u8(self):
        return self.take(1)[0]

    def u16(self):
        return struct.unpack("!H", self.take(2))[0]

    def u24(self):
        return struct.unpack("!I", b"\x00" + self.take(3))[0]

    def vec(self, lenbytes):
        n = {1: self.u8, 2: self.u16, 3: self.u24}[lenbytes]()
        return self.take(n)

    def eof(self):
        return self.i == len(self.b)

    def done(self):
        if not self.eof():
            raise ParseError(f"{self.what}: {len(self.b) - self.i} trailing bytes")


def parse_sni_body(body: bytes):
    r = _R(body, "server_name")
    lst = _R(r.vec(2), "server_name_list")
    r.done()
    names = []
    while not lst.eof():
        t = lst.u8()
        names.append((t, lst.vec(2)))
    return names


def parse_alpn_body(body: bytes):
    r = _R(body, "alpn")
    lst = _R(r.vec(2), "protocol_name_list")
    r.done()
    protos = []
    while not lst.eof():
        protos.append(lst.vec(1))
    return protos


def parse(handshake_bytes: bytes, dtls: bool = False) -> dict:
    """Strictly parse one ClientHello handshake message. Raises ParseError on any inconsistency."""
    r = _R(handshake_bytes, "handshake")
    mt = r.u8()
    ln = r.u24()
    out = {"msg_type": mt}
    if dtls:
        out["message_seq"] = r.u16()
        fo, fl = r.u24(), r.u24()
        if fo != 0 or fl != ln:
            raise ParseError("fragmented DTLS handshake message")
    body = r.take(ln)
    r.done()
    if mt != CLIENT_HELLO:
        raise ParseError(f"handshake type {mt} is not client_hello")
    h = _R(body, "client_hello")
    out["legacy_version"] = h.u16()
    out["random"] = h.take(32)
    out["session_id"] = h.vec(1)
    if len(out["session_id"]) > 32:
        raise ParseError("session_id longer than 32")
    if dtls:
        out["cookie"] = h.vec(1)
    cs = h.vec(2)
    if len(cs) % 2:
        raise ParseError("odd cipher_suites length")
    out["ciphers"] = [struct.unpack("!H", cs[i : i + 2])[0] for i in range(0, len(cs), 2)]
    out["compression"] = h.vec(1)
    out["sni_names"] = None
    out["sni"] = None
    out["alpn"] = None
    out["duplicate_types"] = []
    if h.eof():
        out["extensions"] = None
        return out
    eb = _R(h.vec(2), "extensions")
    h.done()
    exts = []
    while not eb.eof():
        t = eb.u16()
        exts.append((t, eb.vec(2)))
    out["extensions"] = exts
    types = [t for t, _ in exts]
    # RFC 8446 4.2 / RFC 5246 7.4.1.4: "There MUST NOT be more than one extension of the same type"
    out["duplicate_types"] = sorted({t for t in types if types.count(t) > 1})
    for t, b in exts:
        if t == EXT_SERVER_NAME and out["sni_names"] is None:
            out["sni_names"] = parse_sni_body(b)
            out["sni"] = next((n for ty, n in out["sni_names"] if ty == 0), None)
        elif t == EXT_SERVER_NAME:
            parse_sni_body(b)
        elif t == EXT_ALPN and out["alpn"] is None:
            out["alpn"] = parse_alpn_body(b)
        elif t == EXT_ALPN:
            parse_alpn_body(b)
    return out


def unwrap_records(data: bytes, dtls: bool = False):
    """Reference record-layer reader for the first flight.

    Returns ("hello", handshake_bytes) once a complete handshake message is available,
    ("incomplete", None) if more bytes are needed; raises ParseError for anything that is not a sequence of
    non-empty handshake records of a TLS (3.x) / DTLS (254.x) version.
    """
    hdr = 13 if dtls else 5
    off = 0
    msg = b""
    hh = 12 if dtls else 4
    while True:
        if len(msg) >= hh:
            need = struct.unpack("!I", b"\x00" + msg[1:4])[0] + hh
            if len(msg) >= need:
                return "hello", msg[:need]
        if len(data) - off < hdr:
            # a partial header must still look like the start of a record
            part = data[off:]
            if len(part) >= 1 and part[0] != HANDSHAKE:
                raise ParseError("not a handshake record")
            if len(part) >= 2 and part[1] != (0xFE if dtls else 0x03):
                raise ParseError("not a TLS record version")
            return "incomplete", None
        h = data[off : off + hdr]
        if h[0] != HANDSHAKE:
            raise ParseError("not a handshake record")
        if h[1] != (0xFE if dtls else 0x03):
            raise ParseError("not a TLS record version")
        n = struct.unpack("!H", h[-2:])[0]
        if n == 0:
            raise ParseError("empty handshake record")
        if n > MAX_RECORD + 2048:
            raise ParseError("record overflow")
        off += hdr
        if len(data) - off < n:
            return "incomplete", None
        msg += data[off : off + n]
        off += n


# ---------------------------------------------------------------------------------------------
# hostname syntax used by the oracles (RFC 6066: ASCII "HostName", no trailing dot; RFC 1123 LDH + '_')
# ---------------------------------------------------------------------------------------------

_LD = set(b"abcdefghijklmnopqrstuvwxyzABCDEFGHIJKLMNOPQRSTUVWXYZ0123456789_")


def plain_hostname(name: bytes) -> bool:
    """True for names every TLS stack accepts as HostName: <=253 bytes, labels 1..63 of LDH/underscore,
    no leading/trailing hyphen, no trailing dot, no ACE ('xn--') label (those are judged separately)."""
    if not name or len(name) > 253:
        return False
    for lab in name.split(b"."):
        if not 1 <= len(lab) <= 63:
            return False
        if lab[0] not in _LD or lab[-1] not in _LD:
            return False
        if any(c not in _LD and c != 0x2D for c in lab):
            return False
        if lab[:4].lower() == b"xn--":
            return False
    return True
