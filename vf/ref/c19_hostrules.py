"""Reference for C19: which names does a connection's first flight carry, and is the connection excluded by
ignore_hosts / allow_hosts?   Independent of mitmproxy (own HTTP/1 head reader, TLS via vf/ref/tlshello.py, stdlib re).

Documented semantics (mitmproxy docs "Ignoring domains" / option help): every pattern is a regular expression searched
case-insensitively in "host:port" for each name the destination is known by -- the server address, the TLS SNI, the
HTTP Host header.   excluded  :=  (allow_hosts set and no name matches any allow pattern)
                               or (ignore_hosts set and some name matches some ignore pattern)
"""
from __future__ import annotations

import re

from vf.ref import tlshello

TOKEN = rb"[!#$%&'*+\-.^_`|~0-9A-Za-z]+"
REQUEST_LINE = re.compile(rb"^(" + TOKEN + rb") ([^ \t\r\n]+) HTTP/(\d)\.(\d)$")


def http_head(data: bytes):
    """Read an HTTP/1 request head the way RFC 9112 defines it (line terminator CRLF; a bare LF is recognised too,
    RFC 9112 2.2 MAY).  -> None if data does not start with a request line, else
    {"complete": bool, "method", "target", "fields": [(name_lower, value_ows_trimmed)], "host": value|None|"<multiple>"}"""
    lines = []
    pos = 0
    complete = False
    while True:
        nl = data.find(b"\n", pos)
        if nl < 0:
            break
        line = data[pos:nl]
        if line.endswith(b"\r"):
            line = line[:-1]
        pos = nl + 1
        if line == b"" and lines:
            complete = True
            break
        lines.append(line)
    if not lines:
        return None
    m = REQUEST_LINE.match(lines[0])
    if not m:
        return None
    fields = []
    for l in lines[1:]:
        name, sep, value = l.partition(b":")
        if not sep or not re.fullmatch(TOKEN, name):
            return None  # not a field line HTTP defines
        fields.append((name.lower(), value.strip(b" \t")))
    hosts = [v for n, v in fields if n == b"host"]
    host = None if not hosts else (hosts[0] if len(hosts) == 1 else "<multiple>")
    return {"complete": complete, "method": m.group(1), "target": m.group(2), "fields": fields, "host": host}


def tls_sni(data: bytes):
    """-> ("hello", sni str|None) | ("incomplete", None) | ("no", None)"""
    if len(data) < 3 or data[0] != 0x16 or data[1] != 3:
        return "no", None
    try:
        st, hs = tlshello.unwrap_records(data)
    except tlshello.ParseError:
        return "no", None
    if st != "hello":
        return "incomplete", None
    try:
        p = tlshello.parse(hs)
    except tlshello.ParseError:
        return "no", None
    return "hello", p.get("sni")


def split_host_port(value: str):
    m = re.fullmatch(r"(.*):(\d+)", value)
    if m:
        return m.group(1), int(m.group(2))
    return value, None


def candidates(addr, host_header, sni):
    """-> dict source -> 'name:port' using the documented form; the Host header keeps its own port if it has one."""
    out = {}
    port = addr[1]
    out["addr"] = f"{addr[0]}:{port}"
    if host_header:
        h, p = split_host_port(host_header)
        out["host"] = f"{h}:{p if p is not None else port}"
    if sni:
        out["sni"] = f"{sni}:{port}"
    return out


def excluded(names, ignore, allow) -> bool:
    names = list(names)
    if allow and not any(re.search(rx, n, re.IGNORECASE) for n in names for rx in allow):
        return True
    if ignore and any(re.search(rx, n, re.IGNORECASE) for n in names for rx in ignore):
        return True
    return False


def decide(addr, host_header, sni, ignore, allow):
    """-> {"excluded": bool, "decisive": set of sources whose removal flips the decision, "ambiguous": bool, "cands": {...}}"""
    c = candidates(addr, host_header, sni)
    ex = excluded(c.values(), ignore, allow)
    decisive = set()
    for k in c:
        if k == "addr":
            continue
        rest = [v for kk, v in c.items() if kk != k]
        if excluded(rest, ignore, allow) != ex:
            decisive.add(k)
    ambiguous = False
    if host_header:
        h, p = split_host_port(host_header)
        if p is not None and p != addr[1]:
            alt = dict(c)
            alt["host"] = f"{h}:{addr[1]}"
            ambiguous = excluded(alt.values(), ignore, allow) != ex
    return {"excluded": ex, "decisive": decisive, "ambiguous": ambiguous, "cands": c}
