"""Reference *backward* converters for flow states (C38): current format -> older format versions.

Written from the format history (what each version's state looked like), independently of mitmproxy.io.compat, which
only converts forward.  `downgrade(state, target)` returns `(old_state, expected)`:

    old_state   the flow as a mitmproxy writing format `target` would have stored it
    expected    the current-format state that loading `old_state` must produce: the original state, except for the
                fields the old format could not express (they get the value the format history documents for upgrades)

Supported targets: 20 ... 10.  Domain restrictions (`applicable`): formats < 18 predate UDP/DNS flows; formats < 12
stored WebSocket connections as separate flows (not synthesised here).
"""
from __future__ import annotations

import copy

CURRENT = 21
TARGETS = tuple(range(20, 9, -1))


def applicable(state: dict, target: int) -> bool:
    t = state["type"]
    if target < 18 and t not in ("http", "tcp"):
        return False
    if target < 12 and state.get("websocket"):
        return False
    if target < 12 and ("websocket" in state["metadata"] or "websocket_handshake" in state["metadata"]):
        return False  # these metadata keys marked the old separate websocket flows
    if state.get("backup") is not None:
        return False  # a backup is itself a state of the writing version; not synthesised
    return True


def _conns(s):
    return [s["client_conn"], s["server_conn"]]


def _21_20(s, e):
    for c in _conns(s):
        if c["tls_version"] == "QUICv1":
            c["tls_version"] = "QUIC"


def _20_19(s, e):
    s["client_conn"]["state"] = 3
    s["server_conn"]["state"] = 0


def _19_18(s, e):
    cc, sc = s["client_conn"], s["server_conn"]
    cc["address"] = cc.pop("peername")
    cc["tls_extensions"] = None
    sc["ip_address"] = sc.pop("peername")
    sc["source_address"] = sc.pop("sockname")
    sc["via2"] = sc.pop("via")
    sc["via"] = None
    for c in (cc, sc):
        c["tls_established"] = c["timestamp_tls_setup"] is not None
        c["cipher_name"] = c.pop("cipher")


def _18_17(s, e):
    del s["client_conn"]["proxy_mode"]
    e["client_conn"]["proxy_mode"] = "regular"


def _17_16(s, e):
    s["mode"] = "regular"


def _16_15(s, e):
    del s["timestamp_created"]
    e["timestamp_created"] = (s["request"] if "request" in s else s["client_conn"])["timestamp_start"]


def _15_14(s, e):
    if s.get("websocket"):
        s["websocket"]["messages"] = [list(m[:-1]) for m in s["websocket"]["messages"]]
        e["websocket"]["messages"] = [list(m[:-1]) + [False] for m in e["websocket"]["messages"]]


def _14_13(s, e):
    del s["comment"]
    e["comment"] = ""


def _13_12(s, e):
    s["marked"] = bool(s["marked"])
    e["marked"] = ":default:" if s["marked"] else ""


def _12_11(s, e):
    if s["type"] == "http":
        del s["websocket"]


def _11_10(s, e):
    for c in _conns(s):
        c["alpn_proto_negotiated"] = c.pop("alpn")


_STEPS = {20: _21_20, 19: _20_19, 18: _19_18, 17: _18_17, 16: _17_16, 15: _16_15, 14: _15_14, 13: _14_13, 12: _13_12, 11: _12_11, 10: _11_10}


def downgrade(state: dict, target: int):
    """state: a current-format state (plain dict, as produced by get_state()).  -> (old_state, expected_current_state)"""
    assert state["version"] == CURRENT and target in _STEPS
    s = copy.deepcopy(state)
    e = copy.deepcopy(state)
    for v in range(CURRENT - 1, target - 1, -1):
        _STEPS[v](s, e)
        s["version"] = v
    return s, e


# ------------------------------------------------------------------------------------------- old-format WebSocket flows
# Formats <= 11 (mitmproxy <= 6) stored one WebSocket connection as TWO flows: the HTTP handshake flow (written when the 101
# response arrived, metadata {"websocket": True}) and a separate flow of type "websocket" (written when the connection
# closed) that names its handshake by id in metadata["websocket_handshake"].  Loading merges the pair into one HTTP flow
# with a `websocket` attribute; a websocket flow whose handshake is not in the file is put on a made-up request to
# http://unknown/.

DUPLICATED = "This WebSocket flow has been migrated from an old file format version and may appear duplicated."
WS_TARGETS = (11, 10)


def old_handshake(state: dict, target: int):
    """state: current-format state of a plain HTTP flow (no websocket, no backup).  -> (old handshake state, expected)"""
    assert target in WS_TARGETS and state["type"] == "http" and not state.get("websocket")
    old, exp = downgrade(state, target)
    old["metadata"]["websocket"] = True
    exp["metadata"]["websocket"] = True
    return old, exp


def old_websocket_flow(base: dict, target: int, handshake_id: str, messages: list, close_sender: str, close_code: int, close_reason: str):
    """base: current-format state of an HTTP flow whose connection/flow-level fields the old websocket flow shares.
    messages: old message states [opcode, from_client, content (str for text, bytes for binary), timestamp, killed].
    -> (old websocket-flow state, expected current state of `base` -- used for the fields the merged flow inherits)"""
    assert target in WS_TARGETS
    old, exp = downgrade(base, target)
    for k in ("request", "response", "mode"):
        old.pop(k, None)
    old["type"] = "websocket"
    old["metadata"] = {"websocket_handshake": handshake_id}
    old.update(
        messages=copy.deepcopy(messages), close_sender=close_sender, close_code=close_code, close_message="(message missing)", close_reason=close_reason,
        client_key="psOeQKar8m7Otzq5uzGAhw==", client_protocol=None, client_extensions="permessage-deflate",
        server_accept="KHQasWKt4lBrFLDDBlc9uW9oLDc=", server_protocol=None, server_extensions=None,
    )
    return old, exp


def _ws_data(old_ws: dict, timestamp_end):
    return {
        "messages": [[m[0], m[1], m[2].encode("utf8") if isinstance(m[2], str) else m[2], m[3], m[4], False] for m in old_ws["messages"]],
        "closed_by_client": old_ws["close_sender"] == "client",
        "close_code": old_ws["close_code"],
        "close_reason": old_ws["close_reason"],
        "timestamp_end": timestamp_end,
    }


def expected_merged(exp_handshake: dict, old_ws: dict) -> dict:
    """Current state of the websocket flow once merged onto its OWN handshake."""
    e = copy.deepcopy(exp_handshake)
    e["metadata"]["duplicated"] = DUPLICATED
    e["websocket"] = _ws_data(old_ws, e["server_conn"]["timestamp_end"])
    return e


def expected_fallback(exp_base: dict, old_ws: dict) -> dict:
    """Current state of a websocket flow whose handshake flow is not in the file (documented made-up request)."""
    e = copy.deepcopy(exp_base)
    e["request"] = {"http_version": b"HTTP/1.1", "headers": [], "content": None, "trailers": None, "timestamp_start": 0, "timestamp_end": 0,
                    "host": "unknown", "port": 80, "method": b"GET", "scheme": b"http", "authority": b"", "path": b"/"}
    e["response"] = None
    e["metadata"] = {"duplicated": DUPLICATED}
    e["timestamp_created"] = 0
    e["websocket"] = _ws_data(old_ws, e["server_conn"]["timestamp_end"])
    return e
