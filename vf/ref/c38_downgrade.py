"""Reference *backward* converters for flow states (C38): current format -> older format versions.

Written from the format history (what each version's state looked like), independently of mitmproxy.io.compat, which
only converts forward.  `downgrade(state, target)` returns `(old_state, expected)`:

    old_state   the flow as a mitmproxy writing format `target` would have stored it
    expected    the current-format state that loading `old_state` must produce: the original state, except for the
                fields the old format could not express (they get the value the format history documents for upgrades)

Supported targets: 20 ... 10.  Domain restrictions (`applicable`): formats < 18 predate UDP/DNS flows; formats < 12
stored WebSocket connections as separate flows (not synthesised here).
"""
from __future__ import annotations

import copy

CURRENT = 21
TARGETS = tuple(range(20, 9, -1))


def applicable(state: dict, target: int) -> bool:
    t = state["type"]
    if target < 18 and t not in ("http", "tcp"):
        return False
    if target < 12 and state.get("websocket"):
        return False
    if target < 12 and ("websocket" in state["metadata"] or "websocket_handshake" in state["metadata"]):
        return False  # these metadata keys marked the old separate websocket flows
    if state.get("backup") is not None:
        return False  # a backup is itself a state of the writing version; not synthesised
    return True


def _conns(s):
    return [s["client_conn"], s["server_conn"]]


def _21_20(s, e):
    for c in _conns(s):
        if c["tls_version"] == "QUICv1":
            c["tls_version"] = "QUIC"


def _20_19(s, e):
    s["client_conn"]["state"] = 3
    s["server_conn"]["state"] = 0


def _19_18(s, e):
    cc, sc = s["client_conn"], s["server_conn"]
    cc["address"] = cc.pop("peername")
    cc["tls_extensions"] = None
    sc["ip_address"] = sc.pop("peername")
    sc["source_address"] = sc.pop("sockname")
    sc["via2"] = sc.pop("via")
    sc["via"] = None
    for c in (cc, sc):
        c["tls_established"] = c["timestamp_tls_setup"] is not None
        c["cipher_name"] = c.pop("cipher")


def _18_17(s, e):
    del s["client_conn"]["proxy_mode"]
    e["client_conn"]["proxy_mode"] = "regular"


def _17_16(s, e):
    s["mode"] = "regular"


def _16_15(s, e):
    del s["timestamp_created"]
    e["timestamp_created"] = (s["request"] if "request" in s else s["client_conn"])["timestamp_start"]


def _15_14(s, e):
    if s.get("websocket"):
        s["websocket"]["messages"] = [list(m[:-1]) for m in s["websocket"]["messages"]]
        e["websocket"]["messages"] = [list(m[:-1]) + [False] for m in e["websocket"]["messages"]]


def _14_13(s, e):
    del s["comment"]
    e["comment"] = ""


def _13_12(s, e):
    s["marked"] = bool(s["marked"])
    e["marked"] = ":default:" if s["marked"] else ""


def _12_11(s, e):
    if s["type"] == "http":
        del s["websocket"]


def _11_10(s, e):
    for c in _conns(s):
        c["alpn_proto_negotiated"] = c.pop("alpn")


_STEPS = {20: _21_20, 19: _20_19, 18: _19_18, 17: _18_17, 16: _17_16, 15: _16_15, 14: _15_14, 13: _14_13, 12: _13_12, 11: _12_11, 10: _11_10}


def downgrade(state: dict, target: int):
    """state: a current-format state (plain dict, as produced by get_state()).  -> (old_state, expected_current_state)"""
    assert state["version"] == CURRENT and target in _STEPS
    s = copy.deepcopy(state)
    e = copy.deepcopy(state)
    for v in range(CURRENT - 1, target - 1, -1):
        _STEPS[v](s, e)
        s["version"] = v
    return s, e
