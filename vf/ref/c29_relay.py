"""Reference model of a raw TCP / UDP relay (independent of mitmproxy/proxy/layers/tcp.py, udp.py).

Input: the ordered list of events that were delivered to the relay ("fed"):
    ("start",)                              relay started
    ("hookdone", name)                      an addon hook finished
    ("opendone", err|None)                  the upstream connect finished
    ("data", side, content, injected)       side in {"c","s"}: message received from that side / injected as coming from it
    ("closed", side)                        that side's read half is finished (EOF) -- for UDP: the peer is gone

The relay is a sequential processor: it handles one event at a time in arrival order and, while an addon hook or
the upstream connect is outstanding, later events wait in a FIFO.  The *ideal* relay semantics the property states:

  TCP  every message that arrives before the flow ended is recorded once and (after the hook) sent to the other side;
       the first EOF is propagated as a half-close of the other side's write half, the relay continues the other way;
       the second EOF ends the flow (end hook once).  A failed upstream connect ends the flow with the error hook.
  UDP  the first close ends the flow.

Output (Expect): the messages that must have been recorded (direction, original content, injected) in order, where the
half-close belongs in each connection's command stream, the feed index at which the flow ends and by which hook, and
for classification the feed index at which every event is *processed* (so a check can tell that an EOF was delivered
while an earlier EOF was still waiting in the queue).
"""
from __future__ import annotations

from dataclasses import dataclass, field

OTHER = {"c": "s", "s": "c"}


@dataclass
class Expect:
    recorded: list = field(default_factory=list)  # (side, content, injected, fed_index, processed_index, deliverable)
    half: dict = field(default_factory=dict)  # side whose WRITE half must be half-closed -> number of messages sent to it before
    half_required: dict = field(default_factory=dict)  # same key -> True iff data flowed the other way afterwards
    end_kind: str | None = None  # "end" | "error" | None (flow not finished by the fed events)
    end_at: int | None = None  # feed index at which the ending event is processed
    processed_at: dict = field(default_factory=dict)  # fed index -> feed index at which it is processed
    undeliverable: list = field(default_factory=list)  # indices into recorded: injected from a side that had already sent EOF (TCP)
    eof_fed_at: dict = field(default_factory=dict)  # side -> fed index of its EOF
    eof_race: bool = False  # the second EOF was delivered before the first one was processed
    data_between_racing_eofs: bool = False


def reference(proto: str, fed: list, preconnected: bool = False, hook_undeliverable: bool = False) -> Expect:
    ex = Expect()
    queue: list[int] = []
    waiting: str | None = None
    phase = "init"  # init -> starthook -> open -> relay -> ended
    eof: list[str] = []
    sent_to = {"c": 0, "s": 0}
    now = -1

    def process(i):
        nonlocal waiting, phase
        ev = fed[i]
        ex.processed_at[i] = now
        if phase == "ended":
            return
        if ev[0] == "data":
            _, side, content, injected = ev
            k = len(ex.recorded)
            deliverable = not (proto == "tcp" and side in eof)
            ex.recorded.append((side, content, injected, i, now, deliverable))
            if not deliverable:
                # (only an injected message can 'come from' a side that already sent EOF) the other connection's write
                # half is closed: the ideal relay neither records nor sends it and does not wait for a hook
                ex.undeliverable.append(k)
                if hook_undeliverable:  # timeline variant used for classification only: the relay runs a hook for it anyway
                    waiting = "message"
                return
            sent_to[OTHER[side]] += 1
            for wside in list(ex.half):
                # data flowing towards the side that sent EOF, i.e. from the side whose write half we half-closed
                if side == wside:
                    ex.half_required[wside] = True
            waiting = "message"
        elif ev[0] == "closed":
            side = ev[1]
            if side in eof:
                return
            eof.append(side)
            if proto == "udp" or len(eof) == 2:
                phase = "ended"
                ex.end_kind = "end"
                ex.end_at = now
                waiting = "endhook"
            else:
                ex.half[OTHER[side]] = sent_to[OTHER[side]]
                ex.half_required[OTHER[side]] = False

    def drain():
        while queue and waiting is None:
            process(queue.pop(0))

    for idx, ev in enumerate(fed):
        now = idx
        kind = ev[0]
        if kind == "start":
            phase = "starthook"
            waiting = "starthook"
        elif kind == "hookdone":
            if waiting == "starthook" and preconnected:
                phase = "relay"
                waiting = None
                drain()
            elif waiting == "starthook":
                phase = "open"
                waiting = "open"
            elif waiting in ("message", "endhook"):
                waiting = None
                drain()
        elif kind == "opendone":
            if ev[1]:
                phase = "ended"
                ex.end_kind = "error"
                ex.end_at = now
                waiting = "endhook"
            else:
                phase = "relay"
                waiting = None
                drain()
        else:
            if kind == "closed":
                ex.eof_fed_at.setdefault(ev[1], idx)
            queue.append(idx)
            drain()

    # classification helper: second EOF delivered while the first was still queued
    if proto == "tcp" and len(ex.eof_fed_at) == 2:
        (s1, i1), (s2, i2) = sorted(ex.eof_fed_at.items(), key=lambda kv: kv[1])
        p1 = ex.processed_at.get(i1)
        if p1 is not None and p1 > i2:
            ex.eof_race = True
            ex.data_between_racing_eofs = any(fed[j][0] == "data" for j in range(i1 + 1, i2))
    return ex
