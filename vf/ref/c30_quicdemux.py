"""Reference checker for QUIC stream demultiplexing (independent of mitmproxy; RFC 9000 section 2.1 stream-id classes).

A trace is the merged, ordered list of what went into a QUIC-stream relay and what came out of it:

  ("in",  "data",  side, sid, payload, fin)     stream data received from `side` ("c" client / "s" server)
  ("in",  "reset", side, sid, code)
  ("in",  "connclosed", side, code)
  ("in",  "dgram", side, payload)
  ("out", "send",  side, sid, payload, fin)     command addressed to `side`'s connection
  ("out", "reset", side, sid, code)
  ("out", "stop",  side, sid, code)
  ("out", "closeconn", side, code)
  ("out", "dgram", side, payload)

Payload chunks carry unique tags  <c12.3>  (source side, source stream id, sequence number) or <Dc.4> (datagram), so
every byte that comes out can be attributed to the stream it came in on without trusting the relay's bookkeeping.

RFC 9000 2.1: bit 0 of a stream id = initiator (0 client, 1 server), bit 1 = directionality (0 bidi, 1 uni).  A relay
that is a server towards the client and a client towards the server must pair a client-initiated stream with a
client-initiated stream of the same directionality on the other connection, and vice versa.

check(trace) returns (violations, stats); a violation is (kind, detail-dict).
"""
from __future__ import annotations

import re

TAG = re.compile(rb"<([cs])(\d+)\.(\d+)>")
DTAG = re.compile(rb"<D([cs])\.(\d+)>")
OTHER = {"c": "s", "s": "c"}


def initiator(sid: int) -> str:
    return "s" if sid & 1 else "c"


def is_uni(sid: int) -> bool:
    return bool(sid & 2)


def check(trace, nextlayer=False):
    """nextlayer: the relay picks a protocol handler per stream lazily (trace entries ("in", "decided", [stream keys]) say
    when); a stream whose handler is still undecided when its own side terminates it is aborted on that side (FIN +
    STOP_SENDING to the side that terminated it) -- that is the relay's own shutdown of a never-relayed stream, not a relayed
    signal, and is accepted.  A RESET is a relayed signal and is never accepted on the stream it came from."""
    viol = []
    decided = set()
    link = {}  # (side, sid) -> (other side, sid): established pairing (symmetric)
    seen_in = {}  # (side, sid) -> dict(fin=bool, reset=set(codes), first=index)
    in_tags = set()
    connclosed = set()
    allocated = {"c": [], "s": []}  # ids in the relay's own id space per connection, in order of first use
    out_ids = {"c": set(), "s": set()}
    stats = {"pairs": 0, "data_out": 0, "fin_out": 0, "reset_out": 0, "stop_out": 0, "alloc": 0, "unattributed_term": 0}

    def bad(kind, **kw):
        viol.append((kind, kw))

    def establish(a, b, idx):
        """a=(side,sid) source, b=(side,sid) destination"""
        for x, y in ((a, b), (b, a)):
            if x in link and link[x] != y:
                bad("stream-paired-with-two-streams", stream=x, first=link[x], second=y, at=idx)
                return False
        if a not in link:
            link[a] = b
            link[b] = a
            stats["pairs"] += 1
            if is_uni(a[1]) != is_uni(b[1]):
                bad("pair-differs-in-directionality", a=a, b=b, at=idx)
            if initiator(a[1]) != initiator(b[1]):
                bad("pair-differs-in-initiator", a=a, b=b, at=idx)
        return True

    def note_out_id(side, sid, idx):
        """first use of (side, sid) in an outgoing command: own id space or the peer's?"""
        if sid in out_ids[side]:
            return
        out_ids[side].add(sid)
        if initiator(sid) == side:
            # the peer on that connection opened this stream itself: it must have appeared in the input
            if (side, sid) not in seen_in:
                bad("command-on-peer-initiated-stream-the-peer-never-opened", side=side, sid=sid, at=idx)
        else:
            # the relay opened it: allocation in its own id space for that connection
            allocated[side].append(sid)
            stats["alloc"] += 1

    def terminated_inputs(key):
        d = seen_in.get(key)
        return d is not None and (d["fin"] or d["reset"])

    for idx, ev in enumerate(trace):
        if ev[0] == "in":
            kind = ev[1]
            if kind == "data":
                _, _, side, sid, payload, fin = ev
                d = seen_in.setdefault((side, sid), {"fin": False, "reset": set(), "first": idx})
                d["fin"] = d["fin"] or fin
                for m in TAG.finditer(payload):
                    in_tags.add(m.group(0))
            elif kind == "reset":
                _, _, side, sid, code = ev
                seen_in.setdefault((side, sid), {"fin": False, "reset": set(), "first": idx})["reset"].add(code)
            elif kind == "connclosed":
                connclosed.add(ev[2])
            elif kind == "decided":
                decided.update(tuple(k) for k in ev[2])
            continue

        kind = ev[1]
        if kind == "dgram":
            _, _, side, payload = ev
            if TAG.search(payload):
                bad("stream-data-sent-as-datagram", side=side, payload=payload[:60], at=idx)
            for m in DTAG.finditer(payload):
                if m.group(1).decode() != OTHER[side]:
                    bad("datagram-sent-back-to-its-sender", side=side, at=idx)
            continue
        if kind == "closeconn":
            continue
        side, sid = ev[2], ev[3]
        note_out_id(side, sid, idx)
        dst = (side, sid)
        if kind == "send":
            payload, fin = ev[4], ev[5]
            if DTAG.search(payload):
                bad("datagram-sent-on-a-stream", side=side, sid=sid, at=idx)
            tags = list(TAG.finditer(payload))
            if payload and not tags:
                bad("untagged-stream-data", side=side, sid=sid, payload=payload[:60], at=idx)
            for m in tags:
                if m.group(0) not in in_tags:
                    bad("data-never-received", tag=m.group(0), at=idx)
                    continue
                src = (m.group(1).decode(), int(m.group(2)))
                stats["data_out"] += 1
                if src[0] != OTHER[side]:
                    bad("data-sent-back-to-its-sender", src=src, dst=dst, at=idx)
                    continue
                if src in link and link[src] != dst:
                    bad("data-reaches-a-stream-other-than-the-pair", src=src, pair=link[src], dst=dst, at=idx)
                    continue
                if dst in link and link[dst] != src:
                    bad("two-streams-share-one-destination-stream", dst=dst, first=link[dst], second=src, at=idx)
                    continue
                establish(src, dst, idx)
            if not fin:
                continue
            stats["fin_out"] += 1
            term = "fin"
        elif kind == "reset":
            stats["reset_out"] += 1
            term = "reset"
        elif kind == "stop":
            stats["stop_out"] += 1
            term = "stop"
        else:
            bad("unknown-command", ev=ev[:4], at=idx)
            continue

        # ---- a terminating signal (FIN / RESET_STREAM / STOP_SENDING) addressed to dst: it must be caused by its pair
        src_side = OTHER[side]
        if dst in link:
            src = link[dst]
            if term == "reset":
                ok = ev[4] in seen_in.get(src, {"reset": ()})["reset"]
            elif term == "fin":
                ok = terminated_inputs(src) or src_side in connclosed
            else:  # stop: the pair is being shut down -- some terminating input on either stream of the pair
                ok = terminated_inputs(src) or terminated_inputs(dst) or bool(connclosed)
            if not ok and term == "reset" and ev[4] in seen_in.get(dst, {"reset": ()})["reset"]:
                bad("reset-reflected-onto-the-stream-it-came-from", dst=dst, code=ev[4], at=idx)
            elif not ok:
                bad(f"{term}-on-stream-whose-pair-received-no-such-signal", dst=dst, pair=src, at=idx)
        else:
            # pair not yet revealed by data: there must be a not-yet-paired stream of the matching class on the other
            # side that received a terminating signal (for RESET: with this error code)
            cands = []
            for key, d in seen_in.items():
                if key[0] != src_side or key in link:
                    continue
                if is_uni(key[1]) != is_uni(sid) or initiator(key[1]) != initiator(sid):
                    continue
                if term == "reset":
                    if ev[4] in d["reset"]:
                        cands.append(key)
                elif d["fin"] or d["reset"]:
                    cands.append(key)
            if term == "stop" and not cands:
                # STOP_SENDING towards the side whose own stream finished (pair known only from that side's input)
                if terminated_inputs(dst) or connclosed:
                    cands = [dst]
            if term == "fin" and not cands and src_side in connclosed:
                cands = ["connclosed"]
            if term == "fin" and not cands and nextlayer and dst not in decided and terminated_inputs(dst):
                cands = ["abort-of-undecided-stream"]
                stats["undecided_abort"] = stats.get("undecided_abort", 0) + 1
            if not cands and term == "reset" and ev[4] in seen_in.get(dst, {"reset": ()})["reset"]:
                bad("reset-reflected-onto-the-stream-it-came-from", dst=dst, code=ev[4], at=idx)
            elif not cands:
                bad(f"{term}-on-unpaired-stream-without-cause", dst=dst, at=idx)
            else:
                stats["unattributed_term"] += 1  # accepted, but never used to establish a pairing (only tagged data does)

    # ---- allocation: ids the relay opened are unique (by construction of out_ids: first use) and of the right class
    for side in "cs":
        ids = allocated[side]
        if len(set(ids)) != len(ids):
            bad("allocated-id-repeats", side=side, ids=ids)
    # every allocated id must be linked to at most one source, and no two sources to one id: enforced online via link
    stats["links"] = {f"{a[0]}{a[1]}": f"{b[0]}{b[1]}" for a, b in link.items() if a[0] == "c"}
    stats["allocated"] = allocated
    return viol, stats
