"""Independent schema of a *current-format* flow state (format version 21), used by C38 to decide whether a loaded /
migrated flow is a valid current flow.  Written from the documented attribute types of the flow classes; it does not use
mitmproxy's own (de)serialisation or type checks.

    problems(state) -> list[str]      empty list = valid; each entry is "path: what is wrong"
"""
from __future__ import annotations

CURRENT = 21
TLS_VERSIONS = {"SSLv3", "TLSv1", "TLSv1.1", "TLSv1.2", "TLSv1.3", "DTLSv0.9", "DTLSv1", "DTLSv1.2", "QUICv1"}
VIA_SCHEMES = {"http", "https", "http3", "tls", "dtls", "tcp", "udp", "dns", "quic"}
OPCODES = {0, 1, 2, 8, 9, 10}


def _is(t):
    def chk(v):
        if t is int:
            return isinstance(v, int) and not isinstance(v, bool)
        return isinstance(v, t)
    chk.__name__ = getattr(t, "__name__", str(t))
    return chk


def num(v):
    return isinstance(v, (int, float)) and not isinstance(v, bool)


def opt(c):
    def chk(v):
        return v is None or c(v)
    chk.__name__ = "optional " + c.__name__
    return chk


def seq_of(c):
    def chk(v):
        return isinstance(v, (list, tuple)) and all(c(x) for x in v)
    chk.__name__ = "sequence of " + c.__name__
    return chk


def one_of(vals):
    def chk(v):
        return isinstance(v, str) and v in vals
    chk.__name__ = "one of " + "/".join(sorted(vals))
    return chk


def addr(v):
    return isinstance(v, (list, tuple)) and len(v) in (2, 4) and isinstance(v[0], str) and all(_is(int)(x) for x in v[1:])


def addr2(v):
    return isinstance(v, (list, tuple)) and len(v) == 2 and isinstance(v[0], str) and _is(int)(v[1])


def via(v):
    return isinstance(v, (list, tuple)) and len(v) == 2 and v[0] in VIA_SCHEMES and addr2(v[1])


def pem(v):
    return isinstance(v, bytes) and v.lstrip().startswith(b"-----BEGIN CERTIFICATE-----")


def header_fields(v):
    return isinstance(v, (list, tuple)) and all(isinstance(x, (list, tuple)) and len(x) == 2 and isinstance(x[0], bytes) and isinstance(x[1], bytes) for x in v)


def ws_msg(v):
    return (isinstance(v, (list, tuple)) and len(v) == 6 and v[0] in OPCODES and isinstance(v[1], bool) and isinstance(v[2], bytes) and num(v[3])
            and isinstance(v[4], bool) and isinstance(v[5], bool))


def raw_msg(v):
    return isinstance(v, (list, tuple)) and len(v) == 3 and isinstance(v[0], bool) and isinstance(v[1], bytes) and num(v[2])


S, B, I, BOOL = _is(str), _is(bytes), _is(int), _is(bool)

CONN = {
    "peername": opt(addr), "sockname": opt(addr), "id": S, "transport_protocol": one_of({"tcp", "udp"}), "error": opt(S), "tls": BOOL,
    "certificate_list": seq_of(pem), "alpn": opt(B), "alpn_offers": seq_of(B), "cipher": opt(S), "cipher_list": seq_of(S),
    "tls_version": opt(one_of(TLS_VERSIONS)), "sni": opt(S), "timestamp_start": opt(num), "timestamp_end": opt(num), "timestamp_tls_setup": opt(num),
}
CLIENT = {**CONN, "peername": addr, "sockname": addr, "mitmcert": opt(pem), "proxy_mode": S, "timestamp_start": num}
SERVER = {**CONN, "address": opt(addr2), "timestamp_tcp_setup": opt(num), "via": opt(via)}
ERROR = {"msg": S, "timestamp": num}
MESSAGE = {"http_version": B, "headers": header_fields, "content": opt(B), "trailers": opt(header_fields), "timestamp_start": num, "timestamp_end": opt(num)}
REQUEST = {**MESSAGE, "host": S, "port": I, "method": B, "scheme": B, "authority": B, "path": B}
RESPONSE = {**MESSAGE, "status_code": I, "reason": B}
WEBSOCKET = {"messages": seq_of(ws_msg), "closed_by_client": opt(BOOL), "close_code": opt(I), "close_reason": opt(S), "timestamp_end": opt(num)}
QUESTION = {"name": S, "type": I, "class_": I}
RR = {"name": S, "type": I, "class_": I, "ttl": I, "data": B}
DNSMSG = {"id": I, "query": BOOL, "op_code": I, "authoritative_answer": BOOL, "truncation": BOOL, "recursion_desired": BOOL, "recursion_available": BOOL,
          "reserved": I, "response_code": I, "questions": ("list", QUESTION), "answers": ("list", RR), "authorities": ("list", RR), "additionals": ("list", RR),
          "timestamp": opt(num)}
FLOW = {
    "version": lambda v: v == CURRENT and _is(int)(v), "type": S, "id": S, "error": ("opt", ERROR), "client_conn": ("dict", CLIENT), "server_conn": ("dict", SERVER),
    "intercepted": BOOL, "is_replay": opt(one_of({"request", "response"})), "marked": S, "metadata": _is(dict), "comment": S, "timestamp_created": num,
    "backup": opt(_is(dict)),
}
BY_TYPE = {
    "http": {**FLOW, "request": ("dict", REQUEST), "response": ("opt", RESPONSE), "websocket": ("opt", WEBSOCKET)},
    "tcp": {**FLOW, "messages": seq_of(raw_msg)},
    "udp": {**FLOW, "messages": seq_of(raw_msg)},
    "dns": {**FLOW, "request": ("dict", DNSMSG), "response": ("opt", DNSMSG)},
}


def _check(v, spec, path, out):
    if isinstance(spec, tuple):
        kind, sub = spec
        if kind == "opt" and v is None:
            return
        if kind == "list":
            if not isinstance(v, (list, tuple)):
                out.append(f"{path}: expected a list, got {type(v).__name__}")
                return
            for i, x in enumerate(v):
                _check_dict(x, sub, f"{path}[{i}]", out)
            return
        _check_dict(v, sub, path, out)
    elif not spec(v):
        out.append(f"{path}: expected {getattr(spec, '__name__', 'valid value')}, got {type(v).__name__} {repr(v)[:60]}")


def _check_dict(v, spec, path, out):
    if not isinstance(v, dict):
        out.append(f"{path}: expected a dict, got {type(v).__name__}")
        return
    for k in spec:
        if k not in v:
            out.append(f"{path}/{k}: missing")
    for k in v:
        if k not in spec:
            out.append(f"{path}/{k}: unexpected key")
    for k, sub in spec.items():
        if k in v:
            _check(v[k], sub, f"{path}/{k}", out)


def problems(state) -> list[str]:
    out: list[str] = []
    if not isinstance(state, dict):
        return ["state is not a dict"]
    t = state.get("type")
    if t not in BY_TYPE:
        return [f"/type: unknown flow type {t!r}"]
    _check_dict(state, BY_TYPE[t], "", out)
    return out
