"""Reference cookie scoping rules for C54 (RFC 6265 sections 5.1.3, 5.1.4, 5.2.x, 5.3) -- stdlib only.

The model works on *cookie specs* (what the generator decided to put into a Set-Cookie header), not on
header text, so it needs no cookie parser of its own: the generator serialises a spec with `set_cookie_text`.

Tolerances (most favourable reading for the code under test):
* host names are compared lower-cased and with one trailing dot removed on both sides;
* a Domain attribute that is empty is treated as absent (host-only), RFC 6265 5.2.3;
* removal of a cookie by an expiring Set-Cookie is only *required* when it comes from the same host and
  port as the Set-Cookie that created the cookie, with identical name, Domain spelling and Path spelling,
  AND the RFC-computed (domain, path) are equal.
"""
from __future__ import annotations

import ipaddress
from dataclasses import dataclass, field


def canon_host(h: str) -> str:
    h = h.lower()
    if h.endswith(".") and len(h) > 1:
        h = h[:-1]
    return h


def is_ip(h: str) -> bool:
    try:
        ipaddress.ip_address(h.strip("[]"))
        return True
    except ValueError:
        return False


def cookie_domain(attr: str | None) -> str | None:
    """RFC 6265 5.2.3: empty -> ignored; one leading '.' removed; lower-cased."""
    if attr is None or attr == "":
        return None
    d = attr[1:] if attr.startswith(".") else attr
    return canon_host(d)


def domain_match(host: str, domain: str) -> bool:
    """RFC 6265 5.1.3 (both canonicalised)."""
    host = canon_host(host)
    domain = canon_host(domain)
    if not domain:
        return False
    if host == domain:
        return True
    return host.endswith("." + domain) and not is_ip(host)


def uri_path(target: str) -> str:
    return target.split("?", 1)[0]


def default_path(target: str) -> str:
    """RFC 6265 5.1.4 default-path of a request-uri."""
    p = uri_path(target)
    if not p.startswith("/"):
        return "/"
    i = p.rfind("/")
    if i == 0:
        return "/"
    return p[:i]


def path_match(request_target: str, cpath: str) -> bool:
    """RFC 6265 5.1.4 path-match."""
    rp = uri_path(request_target)
    if rp == cpath:
        return True
    if rp.startswith(cpath):
        if cpath.endswith("/"):
            return True
        if rp[len(cpath)] == "/":
            return True
    return False


@dataclass
class CookieSpec:
    name: str
    value: str  # unique tag
    domain_attr: str | None
    path_attr: str | None
    expires: str | None  # None | "past" | "future" | "garbage"
    max_age: object  # None | int | "garbage"
    set_host: str = ""
    set_port: int = 0
    set_target: str = "/"
    step: int = -1
    removed_at: int | None = None  # step of an expiring Set-Cookie with the same identity
    removed_by: "CookieSpec | None" = field(default=None, repr=False)
    seq: int = -1  # global order of Set-Cookie processing
    expires_text: str | None = None  # as serialised
    attr_order: tuple = ()  # lower-case attribute names in serialised order
    text: str = ""  # the Set-Cookie value as sent

    def swallowed_by_short_expires(self) -> str | None:
        """Input condition only: an Expires value of <= 3 characters directly followed by another attribute
        (returns that attribute's lower-case name)."""
        if self.expires_text is None or len(self.expires_text) > 3 or "expires" not in self.attr_order:
            return None
        i = self.attr_order.index("expires")
        return self.attr_order[i + 1] if i + 1 < len(self.attr_order) else None

    # ---- RFC 6265 5.3 storage model
    @property
    def host_only(self) -> bool:
        return cookie_domain(self.domain_attr) is None

    @property
    def domain(self) -> str:
        d = cookie_domain(self.domain_attr)
        return canon_host(self.set_host) if d is None else d

    @property
    def storable(self) -> bool:
        """False when the Domain attribute does not domain-match the responding host (5.3 step 6)."""
        d = cookie_domain(self.domain_attr)
        return True if d is None else domain_match(self.set_host, d)

    @property
    def path(self) -> str:
        if self.path_attr and self.path_attr.startswith("/"):
            return self.path_attr
        return default_path(self.set_target)

    @property
    def expired(self) -> bool:
        """5.3 step 3: Max-Age (if it is a number) wins over Expires; unparsable attributes are ignored."""
        if isinstance(self.max_age, int):
            return self.max_age <= 0
        return self.expires == "past"

    def same_identity(self, other: "CookieSpec") -> bool:
        """Conservative identity (see module docstring)."""
        if self.name != other.name or self.set_port != other.set_port:
            return False
        if self.domain_attr != other.domain_attr or self.path_attr != other.path_attr:
            return False
        if self.set_host != other.set_host:
            return False
        return self.domain == other.domain and self.path == other.path

    def send_problems(self, host: str, port: int, target: str) -> list[str]:
        """Why this cookie must NOT be attached to a request for (host, port, target); [] = may be sent."""
        out = []
        if not self.storable:
            out.append("not-storable")
        if self.expired:
            out.append("expired-at-set")
        if self.removed_at is not None:
            out.append("removed")
        if self.host_only:
            if canon_host(host) != canon_host(self.set_host):
                out.append("domain")
        elif not domain_match(host, self.domain):
            out.append("domain")
        if port != self.set_port:
            out.append("port")
        if not path_match(target, self.path):
            out.append("path")
        return out


PAST = ["Wed, 21 Oct 2015 07:28:00 GMT", "Thu, 01-Jan-1970 00:00:00 GMT", "Wed, 21-Oct-2015 07:28:00 GMT"]
FUTURE = ["Mon, 24 Aug 2133 00:00:00 GMT", "Mon, 24-Aug-2133 00:00:00 GMT"]
GARBAGE = ["false", "tomorrow", "0", "-1"]


def set_cookie_text(c: CookieSpec, rng) -> str:
    parts = [f"{c.name}={c.value}"]
    attrs = []
    if c.domain_attr is not None:
        attrs.append(f"{rng.choice(['Domain', 'domain', 'DOMAIN'])}={c.domain_attr}")
    if c.path_attr is not None:
        attrs.append(f"{rng.choice(['Path', 'path'])}={c.path_attr}")
    if c.expires is not None:
        v = rng.choice({"past": PAST, "future": FUTURE, "garbage": GARBAGE}[c.expires])
        c.expires_text = v
        attrs.append(f"{rng.choice(['Expires', 'expires'])}={v}")
    if c.max_age is not None:
        v = "soon" if c.max_age == "garbage" else str(c.max_age)
        attrs.append(f"{rng.choice(['Max-Age', 'max-age'])}={v}")
    if rng.random() < 0.2:
        attrs.append("Secure")
    if rng.random() < 0.2:
        attrs.append("HttpOnly")
    rng.shuffle(attrs)
    c.attr_order = tuple(a.split("=", 1)[0].lower() for a in attrs)
    c.text = "; ".join(parts + attrs)
    return c.text


def parse_cookie_header(v: str | None) -> list[tuple[str, str]]:
    """Cookie: a=b; c=d (values are bare tokens in this workload; quotes stripped)."""
    out = []
    if not v:
        return out
    for seg in v.split(";"):
        seg = seg.strip()
        if not seg:
            continue
        n, _, val = seg.partition("=")
        out.append((n.strip(), val.strip().strip('"')))
    return out
