"""Reference model for C35: an ordered multimap of header fields with ASCII-case-insensitive names.

State: a Python list of (name: bytes, value: bytes) in wire order.  Every operation is written directly
against that list (no inheritance, no shared helper with mitmproxy).  Text in/out conventions are the ones
documented for mitmproxy.http.Headers: names and values may be given as str or bytes (str is encoded as
UTF-8 with surrogateescape), and are reported as str (decoded the same way); looking a name up folds all its
values with ", ".

Specified behaviour (what "ordered multimap that preserves spelling and relative order of untouched fields"
means operation by operation):

  get_all(k)        values of all fields named k (case-insensitively), in order
  m[k]              ", ".join(get_all(k)); KeyError if there is none
  k in m / get      presence / value-or-default
  m[k] = v          == set_all(k, [v])
  set_all(k, vs)    the i-th existing field named k keeps its position and spelling and gets vs[i]; surplus
                    existing fields named k are removed; surplus values are appended as (k as given, v)
  del m[k]          removes all fields named k, KeyError if none; nothing else moves
  add(k, v)         appends (k, v);   insert(i, k, v)  list.insert semantics
  iteration/keys()  the distinct names in order of first occurrence, in the spelling of the first occurrence
  len               number of distinct names
  items()/values()  (name, m[name]) / m[name] for name in iteration order; with multi=True the raw fields as text
  pop/popitem/setdefault/update/clear   as collections.abc.MutableMapping defines them on top of the above
  copy              an independent collection with equal fields
  ==                True for a header collection with identical fields; False if the fields differ by more
                    than the case of names, or the other object is not a header collection; *unspecified*
                    (None) if they differ only in the case of names
"""
from __future__ import annotations

_MISSING = object()


def to_b(x) -> bytes:
    if isinstance(x, bytes):
        return x
    if isinstance(x, str):
        return x.encode("utf-8", "surrogateescape")
    raise TypeError(f"header text must be str or bytes, not {type(x).__name__}")


def to_s(b: bytes) -> str:
    return b.decode("utf-8", "surrogateescape")


def fold(name: bytes) -> bytes:
    return bytes(c + 32 if 65 <= c <= 90 else c for c in name)


class RefHeaders:
    def __init__(self, fields=()):
        self.f: list[tuple[bytes, bytes]] = [(bytes(n), bytes(v)) for n, v in fields]

    # -- state
    def fields(self) -> tuple:
        return tuple(self.f)

    def _idx(self, k) -> list[int]:
        kk = fold(to_b(k))
        return [i for i, (n, _) in enumerate(self.f) if fold(n) == kk]

    # -- lookups
    def get_all(self, k) -> list[str]:
        return [to_s(self.f[i][1]) for i in self._idx(k)]

    def getitem(self, k) -> str:
        vals = self.get_all(k)
        if not vals:
            raise KeyError(k)
        return ", ".join(vals)

    def contains(self, k) -> bool:
        return bool(self._idx(k))

    def get(self, k, default=None):
        return self.getitem(k) if self.contains(k) else default

    def names(self) -> list[str]:
        seen = set()
        out = []
        for n, _ in self.f:
            if fold(n) not in seen:
                seen.add(fold(n))
                out.append(to_s(n))
        return out

    def length(self) -> int:
        return len(self.names())

    def items(self, multi=False) -> list:
        if multi:
            return [(to_s(n), to_s(v)) for n, v in self.f]
        return [(n, self.getitem(n)) for n in self.names()]

    def keys(self, multi=False) -> list:
        return [k for k, _ in self.items(multi)]

    def values(self, multi=False) -> list:
        return [v for _, v in self.items(multi)]

    # -- mutation
    def set_all(self, k, values) -> None:
        kb = to_b(k)
        vals = [to_b(v) for v in values]
        idx = self._idx(k)
        new = []
        used = 0
        for i, (n, v) in enumerate(self.f):
            if i in idx:
                if used < len(vals):
                    new.append((n, vals[used]))
                    used += 1
            else:
                new.append((n, v))
        for v in vals[used:]:
            new.append((kb, v))
        self.f = new

    def setitem(self, k, v) -> None:
        self.set_all(k, [v])

    def delitem(self, k) -> None:
        idx = set(self._idx(k))
        if not idx:
            raise KeyError(k)
        self.f = [fv for i, fv in enumerate(self.f) if i not in idx]

    def add(self, k, v) -> None:
        self.f.append((to_b(k), to_b(v)))

    def insert(self, index, k, v) -> None:
        self.f.insert(index, (to_b(k), to_b(v)))

    def pop(self, k, default=_MISSING):
        if not self.contains(k):
            if default is _MISSING:
                raise KeyError(k)
            return default
        v = self.getitem(k)
        self.delitem(k)
        return v

    def popitem(self):
        names = self.names()
        if not names:
            raise KeyError("popitem(): collection is empty")
        n = names[0]
        v = self.getitem(n)
        self.delitem(n)
        return (n, v)

    def setdefault(self, k, default):
        if self.contains(k):
            return self.getitem(k)
        self.setitem(k, default)
        return default

    def update_pairs(self, pairs) -> None:
        for k, v in pairs:
            self.setitem(k, v)

    def update_from(self, other: "RefHeaders") -> None:
        for n in other.names():
            self.setitem(n, other.getitem(n))

    def clear(self) -> None:
        self.f = []

    def copy(self) -> "RefHeaders":
        return RefHeaders(self.f)

    def eq(self, other):
        if not isinstance(other, RefHeaders):
            return False
        if self.f == other.f:
            return True
        if [(fold(n), v) for n, v in self.f] == [(fold(n), v) for n, v in other.f]:
            return None  # differs only in the case of names: unspecified
        return False

    # -- HTTP/1 wire form of a field list (RFC 9112 section 5: field-name ":" OWS field-value OWS CRLF)
    def wire(self) -> bytes:
        return b"".join(n + b": " + v + b"\r\n" for n, v in self.f)


TCHAR = b"!#$%&'*+-.^_`|~0123456789abcdefghijklmnopqrstuvwxyzABCDEFGHIJKLMNOPQRSTUVWXYZ"


def is_valid_field(name: bytes, value: bytes) -> bool:
    """RFC 9110 5.1/5.5: token name; value of VCHAR / obs-text / SP / HTAB without leading/trailing whitespace."""
    if not name or any(c not in TCHAR for c in name):
        return False
    if value[:1] in (b" ", b"\t") or value[-1:] in (b" ", b"\t"):
        return False
    return all(c == 9 or 32 <= c <= 126 or c >= 128 for c in value)


def split_lines(block: bytes) -> list[bytes]:
    """Split a header block into lines at CRLF (own splitter; the final CRLF terminates the last line)."""
    if block == b"":
        return []
    assert block.endswith(b"\r\n")
    return block[:-2].split(b"\r\n")
