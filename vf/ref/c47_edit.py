"""Reference model of a mitmweb flow edit (PUT /flows/<id>) for C47 -- own code, independent of mitmproxy.

``snapshot(flow)`` reads the raw stored fields of a flow through its data objects; ``apply(doc, snap)`` computes
what the snapshot must be after the document was applied *completely* according to the documented semantics of
the edit API (fields are assigned in document order; replacing a header list replaces all fields; assigning text
content encodes it with the charset of the current Content-Type header -- Latin-1 by default, UTF-8 for JSON,
falling back to UTF-8 and declaring it when the text is not encodable -- and refreshes Content-Length; assigning
host or port refreshes an existing Host header).

Verdicts of ``apply``:
  ("ok", expected_snapshot)     the document is unambiguously valid: a 200 answer must produce exactly this
  ("unknown-field", why)        the document contains an unknown key: a 200 answer is a violation
  ("unmodelled", why)           validity is debatable (coercions such as port "80", out-of-range numbers, exotic
                                content types, invalid values the server may or may not reject): only atomicity
                                is judged
"""
from __future__ import annotations

import copy
import re


class Unmodelled(Exception):
    pass


class UnknownField(Exception):
    pass


def _b(s: str) -> bytes:
    if any(0xD800 <= ord(c) <= 0xDFFF for c in s):
        raise Unmodelled("lone surrogate in string")
    return s.encode("utf-8")


def _fields(h):
    return None if h is None else [(k, v) for k, v in h.fields]


def snapshot(flow) -> dict:
    s = {"marked": flow.marked, "comment": flow.comment, "request": None, "response": None, "has_request": hasattr(flow, "request")}
    if not hasattr(flow, "request"):
        return s
    q = flow.request.data
    s["request"] = {
        "method": q.method,
        "scheme": q.scheme,
        "host": q.host,
        "port": q.port,
        "path": q.path,
        "http_version": q.http_version,
        "authority": q.authority,
        "headers": _fields(q.headers),
        "trailers": _fields(q.trailers),
        "content": q.content,
    }
    if flow.response is not None:
        p = flow.response.data
        s["response"] = {
            "code": p.status_code,
            "reason": p.reason,
            "http_version": p.http_version,
            "headers": _fields(p.headers),
            "trailers": _fields(p.trailers),
            "content": p.content,
        }
    return s


# ---------------------------------------------------------------------------------------------
# header helpers
# ---------------------------------------------------------------------------------------------

def hget(fields, name: bytes):
    for k, v in fields:
        if k.lower() == name.lower():
            return v
    return None


def hset(fields, name: bytes, value: bytes):
    """Assign a single value: first field of that name (any case) keeps its spelling and gets the value, further
    fields of that name disappear; appended under the given spelling if absent."""
    out, used = [], False
    for k, v in fields:
        if k.lower() == name.lower():
            if not used:
                out.append((k, value))
                used = True
        else:
            out.append((k, v))
    if not used:
        out.append((name, value))
    return out


def header_list(v):
    if not isinstance(v, list):
        raise Unmodelled("header list is not a list")
    out = []
    for item in v:
        if not (isinstance(item, list) and len(item) == 2 and all(isinstance(x, str) for x in item)):
            raise Unmodelled("header item is not a pair of strings")
        out.append((_b(item[0]), _b(item[1])))
    return out


MODELLED_CT = {
    "": "latin-1",
    "text/plain": "latin-1",
    "text/plain; charset=utf-8": "utf-8",
    "text/plain; charset=iso-8859-1": "latin-1",
    "application/json": "utf-8",
}


def set_text(msg: dict, text):
    if text is None:
        msg["content"] = None
        return
    if not isinstance(text, str):
        raise Unmodelled("content is not a string")
    h = msg["headers"]
    if hget(h, b"content-encoding") is not None or hget(h, b"transfer-encoding") is not None:
        raise Unmodelled("content/transfer-encoding present")
    if sum(1 for k, _ in h if k.lower() == b"content-type") > 1:
        raise Unmodelled("several content-type headers")
    ct = hget(h, b"content-type")
    ct = "" if ct is None else ct.decode("utf-8", "surrogateescape")
    if ct not in MODELLED_CT:
        raise Unmodelled("content-type outside the modelled set")
    if any(0xD800 <= ord(c) <= 0xDFFF for c in text):
        raise Unmodelled("lone surrogate in text")
    try:
        raw = text.encode(MODELLED_CT[ct])
    except UnicodeEncodeError:
        raw = text.encode("utf-8")
        h = hset(h, b"content-type", b"text/plain; charset=utf-8")
    msg["content"] = raw
    msg["headers"] = hset(h, b"content-length", str(len(raw)).encode())


_LABEL = re.compile(r"(?!-)[a-z0-9-]{1,63}(?<!-)$")


def plain_hostname(h: str) -> bool:
    return 0 < len(h) <= 253 and all(_LABEL.match(x) for x in h.split("."))


def refresh_host(q: dict):
    if q["authority"]:
        raise Unmodelled("authority set")
    try:
        scheme = q["scheme"].decode("utf-8")
    except UnicodeDecodeError:
        raise Unmodelled("scheme bytes")
    default = {"http": 80, "https": 443}.get(scheme)
    val = q["host"] if default == q["port"] else "%s:%d" % (q["host"], q["port"])
    if hget(q["headers"], b"host") is not None:
        q["headers"] = hset(q["headers"], b"Host", _b(val))


def _str(v, what):
    if not isinstance(v, str):
        raise Unmodelled(f"{what} is not a string (coercion)")
    if any(0xD800 <= ord(c) <= 0xDFFF for c in v):
        raise Unmodelled("lone surrogate in string")
    return v


def apply_request(q: dict, k, v):
    if k in ("method", "scheme", "path", "http_version"):
        q[k] = _b(_str(v, k))
    elif k == "host":
        v = _str(v, k)
        if not plain_hostname(v):
            raise Unmodelled("host is not a plain ASCII hostname")
        q["host"] = v
        refresh_host(q)
    elif k == "port":
        if type(v) is not int or not (0 < v <= 65535):
            raise Unmodelled("port is not an int in range")
        q["port"] = v
        refresh_host(q)
    elif k == "headers":
        q["headers"] = header_list(v)
    elif k == "trailers":
        q["trailers"] = header_list(v)
    elif k == "content":
        set_text(q, v)
    else:
        raise UnknownField(f"request.{k}")


def apply_response(p: dict, k, v):
    if k == "reason":
        v = _str(v, k)
        try:
            p["reason"] = v.encode("iso-8859-1")
        except UnicodeEncodeError:
            raise Unmodelled("reason not Latin-1")
    elif k == "http_version":
        p["http_version"] = _b(_str(v, k))
    elif k == "code":
        if type(v) is not int or not (100 <= v <= 999):
            raise Unmodelled("code is not a three-digit int")
        p["code"] = v
    elif k == "headers":
        p["headers"] = header_list(v)
    elif k == "trailers":
        p["trailers"] = header_list(v)
    elif k == "content":
        set_text(p, v)
    else:
        raise UnknownField(f"response.{k}")


def apply(doc, snap: dict):
    s = copy.deepcopy(snap)
    try:
        if not isinstance(doc, dict):
            raise Unmodelled("document is not an object")
        for a, b in doc.items():
            if a == "request" and s["has_request"]:
                if not isinstance(b, dict):
                    raise Unmodelled("request is not an object")
                for k, v in b.items():
                    apply_request(s["request"], k, v)
            elif a == "response" and s["has_request"]:
                if not isinstance(b, dict):
                    raise Unmodelled("response is not an object")
                if s["response"] is None:
                    if b:
                        raise Unmodelled("flow has no response")
                    continue
                for k, v in b.items():
                    apply_response(s["response"], k, v)
            elif a == "marked":
                s["marked"] = _str(b, a)
            elif a == "comment":
                s["comment"] = _str(b, a)
            else:
                raise UnknownField(a)
    except UnknownField as e:
        return "unknown-field", str(e)
    except Unmodelled as e:
        return "unmodelled", str(e)
    return "ok", s


def diff(a: dict, b: dict, prefix=""):
    out = []
    for k in sorted(set(a) | set(b)):
        x, y = a.get(k), b.get(k)
        if isinstance(x, dict) and isinstance(y, dict):
            out += diff(x, y, prefix + k + ".")
        elif x != y:
            out.append(prefix + k)
    return out
