"""Reference model of the flow view (property C43): a plain list model over *facts* dictionaries.

Facts are the dictionaries of vf/gen/c42_filtergen.py (plus "id", "ts", "live"); filter verdicts come from the independent
evaluator vf/ref/c42_filter.py.  Nothing here imports mitmproxy.
"""
from __future__ import annotations

import ipaddress

from vf.ref import c42_filter as fref

ORDERS = ("time", "method", "url", "size")


def sort_key(f, order, dns_resp_size=0):
    t = f["type"]
    if order == "time":
        return f["ts"]
    if order == "method":
        if t == "http":
            return f["method"]
        if t in ("tcp", "udp"):
            return t.upper()
        return "QUERY"
    if order == "url":
        if t == "http":
            return fref.make_url(f["scheme"], f["host"], f["port"], f["path"])
        if t in ("tcp", "udp"):
            host, port = f["dst"]
            try:
                ip = ipaddress.ip_address(host)
                if ip.version == 6:
                    host = f"[{host}]"
            except ValueError:
                pass
            return f"{host}:{port}"
        return f["qname"] or ""
    if order == "size":
        if t == "http":
            n = len(f["req_body"] or b"")
            if f["resp"]:
                n += len(f["resp"]["body"] or b"")
            return n
        if t in ("tcp", "udp"):
            return sum(len(c) for _, c in f["messages"])
        return f.get("dns_size", 0) if f["dns_resp"] else 0
    raise ValueError(order)


class ViewModel:
    """What the view must show, stated directly from the property."""

    def __init__(self):
        self.store: dict[str, dict] = {}  # id -> facts (insertion ordered)
        self.filter = None  # AST or None (= everything)
        self.show_marked = False
        self.order = "time"
        self.reversed = False

    def matches(self, f) -> bool:
        if self.show_marked and not f["marked"]:
            return False
        if self.filter is None:
            return True
        v = fref.ev(self.filter, f)
        assert v is not None, "C43 filters must be crisp"
        return v

    def visible_ids(self) -> set:
        return {i for i, f in self.store.items() if self.matches(f)}

    def key(self, fid):
        return sort_key(self.store[fid], self.order)

    def is_sorted(self, ids) -> bool:
        ks = [self.key(i) for i in ids]
        if self.reversed:
            ks.reverse()
        return all(a <= b for a, b in zip(ks, ks[1:]))
