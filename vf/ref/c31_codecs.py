"""Reference content-coding encoders / decoders for C31 (independent of mitmproxy.net.encoding).

Decoders call the stdlib / library modules directly and are *strict*: the whole input must be one
well-formed stream (gzip: RFC 1952 members only, no trailing garbage; deflate: RFC 1950 zlib stream;
br: one complete brotli stream; zstd: complete frames only).  Two documented tolerances, both common
recipient practice, are switched on only where the check says so:

* ``empty_ok``  -- a zero-length body denotes empty content under every coding;
* ``raw_deflate_ok`` -- "deflate" may also be a bare RFC 1951 stream (no zlib wrapper).
"""
from __future__ import annotations

import gzip
import io
import sys
import zlib

import brotli

if sys.version_info >= (3, 14):
    from compression import zstd
else:
    from backports import zstd

SUPPORTED = ("identity", "gzip", "deflate", "br", "zstd")


class RefDecodeError(Exception):
    pass


def _gzip(data: bytes) -> bytes:
    # gzip.decompress handles multi-member files and rejects truncation / trailing garbage.
    return gzip.decompress(data)


def _zlib(data: bytes) -> bytes:
    d = zlib.decompressobj()
    out = d.decompress(data) + d.flush()
    if not d.eof:
        raise RefDecodeError("truncated zlib stream")
    return out


def _raw_deflate(data: bytes) -> bytes:
    d = zlib.decompressobj(-15)
    out = d.decompress(data) + d.flush()
    if not d.eof:
        raise RefDecodeError("truncated deflate stream")
    return out


def _br(data: bytes) -> bytes:
    d = brotli.Decompressor()
    out = d.process(data)
    if not d.is_finished():
        raise RefDecodeError("truncated brotli stream")
    return out


def _zstd(data: bytes) -> bytes:
    out = []
    rest = data
    if not rest:
        raise RefDecodeError("empty zstd input")
    while rest:
        d = zstd.ZstdDecompressor()
        out.append(d.decompress(rest))
        if not d.eof:
            raise RefDecodeError("truncated zstd frame")
        rest = d.unused_data
    return b"".join(out)


def ref_decode(coding: str, data: bytes, empty_ok: bool = False, raw_deflate_ok: bool = False) -> bytes:
    """Decode with the independent decoder; raises RefDecodeError when the data is not a valid stream."""
    c = coding.lower()
    if c == "identity":
        return data
    if empty_ok and data == b"":
        return b""
    try:
        if c == "gzip":
            return _gzip(data)
        if c == "deflate":
            try:
                return _zlib(data)
            except (zlib.error, RefDecodeError):
                if raw_deflate_ok:
                    return _raw_deflate(data)
                raise
        if c == "br":
            return _br(data)
        if c == "zstd":
            return _zstd(data)
    except RefDecodeError:
        raise
    except Exception as e:  # zlib.error, brotli.error, ZstdError, EOFError, BadGzipFile, ...
        raise RefDecodeError(f"{type(e).__name__}: {e}") from None
    raise KeyError(coding)


def ref_encode(coding: str, data: bytes, rng) -> tuple[bytes, str]:
    """A valid *single-stream* encoding produced without mitmproxy, with random parameters.
    Returns (encoded, variant label)."""
    c = coding.lower()
    if c == "identity":
        return data, "identity"
    if c == "gzip":
        lvl = rng.choice([0, 1, 6, 9])
        s = io.BytesIO()
        name = rng.choice(["", "", "f.txt"])
        with gzip.GzipFile(filename=name, fileobj=s, mode="wb", mtime=rng.choice([0, 1, 1700000000]), compresslevel=lvl) as f:
            f.write(data)
        return s.getvalue(), f"gzip-l{lvl}{'-fname' if name else ''}"
    if c == "deflate":
        lvl = rng.choice([0, 1, 6, 9])
        return zlib.compress(data, lvl), f"zlib-l{lvl}"
    if c == "br":
        q = rng.choice([0, 1, 5] if len(data) > 20000 else [0, 1, 5, 11])
        return brotli.compress(data, quality=q), f"br-q{q}"
    if c == "zstd":
        lvl = rng.choice([1, 3, 9])
        return zstd.compress(data, level=lvl), f"zstd-l{lvl}"
    raise KeyError(coding)


def raw_deflate(data: bytes) -> bytes:
    co = zlib.compressobj(6, zlib.DEFLATED, -15)
    return co.compress(data) + co.flush()
