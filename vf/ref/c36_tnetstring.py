"""Independent reference codec for the typed-netstring flow-file format (used by C36, C37, C38).

Written from the format description only (``LEN:PAYLOAD TAG`` with tags ``, ; # ^ ! ~ ] }``); it shares no
code with mitmproxy.io.tnetstring.  The decoder is iterative (explicit stack) so that it can measure the
nesting depth of hostile inputs without hitting the interpreter's recursion limit.

    encode(value) -> bytes
    decode(buf, pos=0, end=None) -> (value, next_pos, max_depth)      raises RefError
    decode_all(buf) -> list of values (whole buffer must be a sequence of records)   raises RefError
    frames(buf) -> (list of (start, end) of the complete top-level records, offset where framing stopped)
    step budget helper: StepBudget / BudgetExceeded (deterministic call counter via sys.monitoring)
"""
from __future__ import annotations

import re
import signal
import sys

_INT = re.compile(rb"-?[0-9]+\Z")
_LEN = re.compile(rb"(0|[1-9][0-9]{0,11}):")


class RefError(ValueError):
    pass


# ------------------------------------------------------------------------------------------- encoder

def encode(v) -> bytes:
    if v is None:
        return b"0:~"
    if v is True:
        return b"4:true!"
    if v is False:
        return b"5:false!"
    if isinstance(v, int):
        p, t = str(v).encode("ascii"), b"#"
    elif isinstance(v, float):
        p, t = repr(v).encode("ascii"), b"^"
    elif isinstance(v, bytes):
        p, t = v, b","
    elif isinstance(v, str):
        p, t = v.encode("utf-8"), b";"
    elif isinstance(v, (list, tuple)):
        p, t = b"".join(encode(x) for x in v), b"]"
    elif isinstance(v, dict):
        p, t = b"".join(encode(k) + encode(x) for k, x in v.items()), b"}"
    else:
        raise RefError(f"unserialisable {type(v)}")
    return str(len(p)).encode("ascii") + b":" + p + t


# ------------------------------------------------------------------------------------------- decoder

def _header(buf: bytes, pos: int, end: int):
    """-> (tag, payload_start, payload_end, next_pos)"""
    m = _LEN.match(buf, pos, min(end, pos + 14))
    if not m:
        raise RefError(f"bad length prefix at {pos}")
    n = int(m.group(1))
    p0 = m.end()
    p1 = p0 + n
    if p1 + 1 > end:
        raise RefError(f"record at {pos} exceeds its container")
    return buf[p1:p1 + 1], p0, p1, p1 + 1


def _scalar(tag: bytes, payload: bytes):
    if tag == b",":
        return payload
    if tag == b";":
        try:
            return payload.decode("utf-8")
        except UnicodeDecodeError as e:
            raise RefError("invalid utf-8 in text") from e
    if tag == b"#":
        if not _INT.match(payload):
            raise RefError("bad int")
        return int(payload)
    if tag == b"^":
        try:
            return float(payload)
        except ValueError as e:
            raise RefError("bad float") from e
    if tag == b"!":
        if payload == b"true":
            return True
        if payload == b"false":
            return False
        raise RefError("bad bool")
    if tag == b"~":
        if payload:
            raise RefError("bad null")
        return None
    raise RefError(f"unknown tag {tag!r}")


def decode(buf: bytes, pos: int = 0, end: int | None = None):
    end = len(buf) if end is None else end
    _, _, _, root_next = _header(buf, pos, end)
    out: list = []
    stack = [[out, b"R", pos, root_next]]  # [items, kind, cursor, stop]
    maxdepth = 0
    while stack:
        fr = stack[-1]
        if fr[2] >= fr[3]:
            stack.pop()
            if fr[1] == b"]":
                stack[-1][0].append(fr[0])
            elif fr[1] == b"}":
                it = fr[0]
                if len(it) % 2:
                    raise RefError("dict with odd number of items")
                d = {}
                for i in range(0, len(it), 2):
                    k = it[i]
                    if isinstance(k, (list, dict)):
                        raise RefError("unhashable dict key")
                    d[k] = it[i + 1]
                stack[-1][0].append(d)
            continue
        tag, p0, p1, nxt = _header(buf, fr[2], fr[3])
        fr[2] = nxt
        if tag in (b"]", b"}"):
            stack.append([[], tag, p0, p1])
            maxdepth = max(maxdepth, len(stack) - 1)
        else:
            fr[0].append(_scalar(tag, buf[p0:p1]))
    return out[0], root_next, maxdepth


def decode_all(buf: bytes) -> list:
    res = []
    pos = 0
    while pos < len(buf):
        v, pos, _ = decode(buf, pos)
        res.append(v)
    return res


def frames(buf: bytes):
    """Frame the buffer into complete top-level records without decoding payloads."""
    res = []
    pos = 0
    n = len(buf)
    while pos < n:
        try:
            _, _, _, nxt = _header(buf, pos, n)
        except RefError:
            break
        res.append((pos, nxt))
        pos = nxt
    return res, pos


def max_depth(buf: bytes) -> int | None:
    """Nesting depth of the first record, or None if it is not well-formed."""
    try:
        return decode(buf)[2]
    except RefError:
        return None
    except RecursionError:  # pragma: no cover  (decoder is iterative)
        return 10**9


# ------------------------------------------------------------------------------------------- state comparison

def norm(o):
    """Normal form of a state for comparison: tuples -> lists (the file format has one sequence type)."""
    if isinstance(o, (list, tuple)):
        return [norm(x) for x in o]
    if isinstance(o, dict):
        return {k: norm(v) for k, v in o.items()}
    return o


def same(a, b) -> bool:
    """Type-strict deep equality of normalised states; NaN equals NaN; -0.0 differs from 0.0."""
    if type(a) is not type(b):
        return False
    if isinstance(a, float):
        return repr(a) == repr(b)
    if isinstance(a, list):
        return len(a) == len(b) and all(same(x, y) for x, y in zip(a, b))
    if isinstance(a, dict):
        if len(a) != len(b):
            return False
        for (k1, v1), (k2, v2) in zip(sorted(a.items(), key=lambda kv: repr(kv[0])), sorted(b.items(), key=lambda kv: repr(kv[0]))):
            if type(k1) is not type(k2) or k1 != k2 or not same(v1, v2):
                return False
        return True
    return a == b


def diff(a, b, path="") -> str | None:
    """First differing path between two normalised states (for witnesses)."""
    if type(a) is not type(b):
        return f"{path}: type {type(a).__name__} != {type(b).__name__}"
    if isinstance(a, dict):
        for k in a:
            if k not in b:
                return f"{path}/{k!r}: missing on the right"
        for k in b:
            if k not in a:
                return f"{path}/{k!r}: missing on the left"
        for k in a:
            d = diff(a[k], b[k], f"{path}/{k}")
            if d:
                return d
        return None
    if isinstance(a, list):
        if len(a) != len(b):
            return f"{path}: length {len(a)} != {len(b)}"
        for i, (x, y) in enumerate(zip(a, b)):
            d = diff(x, y, f"{path}[{i}]")
            if d:
                return d
        return None
    if isinstance(a, float):
        return None if repr(a) == repr(b) else f"{path}: {a!r} != {b!r}"
    return None if a == b else f"{path}: {repr(a)[:80]} != {repr(b)[:80]}"


# ------------------------------------------------------------------------------------------- step budget

class BudgetExceeded(BaseException):
    """Deliberately not an Exception: `except Exception` in the code under test must not swallow it."""


class StepBudget:
    """Deterministic hang protection: counts Python function entries (sys.monitoring PY_START) while active and
    raises BudgetExceeded in the monitored code when more than `limit` happened.  `cpu_seconds` adds a coarse
    CPU-time backstop (ITIMER_VIRTUAL) for loops whose iterations get slower without entering functions; a trip of
    the backstop sets `cpu_tripped` (callers treat it as inconclusive unless the input is a known non-terminating one)."""

    TOOL = 4

    def __init__(self, limit: int, cpu_seconds: float = 0.0):
        self.limit = limit
        self.count = 0
        self.tripped = False
        self.cpu_seconds = cpu_seconds
        self.cpu_tripped = False
        self._old = None

    def _cb(self, code, offset):
        self.count += 1
        if self.count > self.limit:
            sys.monitoring.set_events(self.TOOL, 0)
            self.tripped = True
            raise BudgetExceeded(self.count)

    def _alarm(self, signum, frame):
        sys.monitoring.set_events(self.TOOL, 0)
        self.cpu_tripped = True
        raise BudgetExceeded(f"cpu>{self.cpu_seconds}s after {self.count} steps")

    def __enter__(self):
        m = sys.monitoring
        m.use_tool_id(self.TOOL, "vf-step-budget")
        m.register_callback(self.TOOL, m.events.PY_START, self._cb)
        if self.cpu_seconds:
            self._old = signal.signal(signal.SIGVTALRM, self._alarm)
            signal.setitimer(signal.ITIMER_VIRTUAL, self.cpu_seconds)
        m.set_events(self.TOOL, m.events.PY_START)
        return self

    def __exit__(self, *a):
        m = sys.monitoring
        m.set_events(self.TOOL, 0)
        if self.cpu_seconds:
            signal.setitimer(signal.ITIMER_VIRTUAL, 0)
            signal.signal(signal.SIGVTALRM, self._old or signal.SIG_DFL)
        m.register_callback(self.TOOL, m.events.PY_START, None)
        m.free_tool_id(self.TOOL)
        return False
