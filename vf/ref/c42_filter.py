"""Reference semantics for mitmproxy filter expressions (property C42).

Independent of mitmproxy: works on plain *facts* dictionaries (what the generator decided a flow looks like)
and on a tiny AST:

    ("leaf", op, arg)      op without the tilde, "" for a naked regex (= ~u); arg: str | int | None
    ("not", child)
    ("and", [children])    explicit & or juxtaposition -- same meaning
    ("or",  [children])

Documented semantics (docs/src/content/concepts/filters.md + the operator table):
  * ! binds tighter than &, & binds tighter than |, juxtaposition means & -- the AST *is* the meaning, the renderer
    is responsible for only emitting strings whose documented reading is that AST.
  * regexes are Python regexes, case-insensitive, searched (not anchored) in the documented part of the flow.

Verdicts are three-valued (True / False / None).  None = "the documentation does not pin the answer down for this
leaf on this flow" (e.g. flags such as DOTALL/MULTILINE are undocumented, so a leaf whose verdict depends on them is
None; two candidate URLs when the Host header disagrees with the destination host; DNS bodies).  Connectives use
Kleene logic so an undetermined leaf only makes the whole verdict undetermined when it actually matters.
"""
from __future__ import annotations

import re

UNARY = ["a", "e", "http", "marked", "replay", "replayq", "replays", "q", "s", "tcp", "udp", "dns", "websocket", "all"]
REX = ["b", "bq", "bs", "t", "tq", "ts", "d", "dst", "h", "hq", "hs", "m", "src", "u", "meta", "marker", "comment"]
INT = ["c"]

_FLAGSETS = (0, re.M, re.S, re.M | re.S)

ASSET_EXACT = ("text/javascript", "application/x-javascript", "application/javascript", "text/css")
ASSET_PREFIX = ("image/", "font/", "application/font-")


def search(pattern: str, text, *, flags_free=True):
    """Case-insensitive search; None if the answer depends on the (undocumented) MULTILINE/DOTALL flags."""
    if isinstance(text, bytes):
        pat = pattern.encode("utf8")
    else:
        pat = pattern
    res = set()
    for fl in _FLAGSETS if flags_free else (0,):
        res.add(re.compile(pat, re.I | fl).search(text) is not None)
    if len(res) == 1:
        return res.pop()
    return None


def k_any(vals):
    vals = list(vals)
    if any(v is True for v in vals):
        return True
    if any(v is None for v in vals):
        return None
    return False


def k_all(vals):
    vals = list(vals)
    if any(v is False for v in vals):
        return False
    if any(v is None for v in vals):
        return None
    return True


def k_not(v):
    return None if v is None else (not v)


def agree(vals):
    vals = set(vals)
    return vals.pop() if len(vals) == 1 else None


def default_port(scheme):
    return {"http": 80, "https": 443}.get(scheme)


def make_url(scheme, host, port, path):
    hp = host if port == default_port(scheme) else f"{host}:{port}"
    return f"{scheme}://{hp}{path}"


def url_candidates(f):
    """All readings of 'the request URL' the docs allow: destination host or Host header as the host part."""
    c = {make_url(f["scheme"], f["host"], f["port"], f["path"])}
    hh = f.get("host_header")
    if hh:
        c.add(make_url(f["scheme"], hh, f["port"], f["path"]))
        c.add(make_url(f["scheme"], hh, default_port(f["scheme"]), f["path"]))
    return c


def header_lines(headers):
    return [n.encode() + b": " + v.encode() for n, v in headers]


def content_types(headers):
    return [v.encode() for n, v in headers if n.lower() == "content-type"]


def is_asset(ct: str) -> bool:
    main = ct.split(";")[0].strip()
    return main in ASSET_EXACT or main.startswith(ASSET_PREFIX)


def leaf(op, arg, f):
    """Verdict of one operator on one facts dict (header operators: per 'name: value' string, as documented)."""
    t = f["type"]
    is_http = t == "http"
    resp = f.get("resp") if is_http else None
    if op == "all":
        return True
    if op == "e":
        return bool(f["error"])
    if op == "marked":
        return bool(f["marked"])
    if op == "http":
        return is_http
    if op in ("tcp", "udp", "dns"):
        return t == op
    if op == "websocket":
        return is_http and f.get("ws") is not None
    if op == "replay":
        return f["is_replay"] is not None
    if op == "replayq":
        return f["is_replay"] == "request"
    if op == "replays":
        return f["is_replay"] == "response"
    if op == "q":
        if t == "dns":
            return not f["dns_resp"]
        return is_http and resp is None
    if op == "s":
        if t == "dns":
            return bool(f["dns_resp"])
        return is_http and resp is not None
    if op == "a":
        return bool(is_http and resp is not None and any(is_asset(v) for n, v in resp["headers"] if n.lower() == "content-type"))
    if op == "c":
        return bool(is_http and resp is not None and resp["code"] == int(arg))
    # ---- flow-level regex operators
    if op == "marker":
        return search(arg, f["marked"])
    if op == "comment":
        return search(arg, f["comment"])
    if op == "meta":
        lines = [f"{k}: {v}" for k, v in f["metadata"].items()]
        per_line = k_any(search(arg, ln) for ln in lines) if lines else search(arg, "")
        block = search(arg, "\n".join(lines))
        return agree([per_line, block])  # the docs do not say how metadata is laid out
    if op == "src":
        if not f["src"]:
            return False
        return search(arg, f"{f['src'][0]}:{f['src'][1]}")
    if op == "dst":
        if not f["dst"]:
            return False
        return search(arg, f"{f['dst'][0]}:{f['dst'][1]}")
    # ---- bodies
    if op in ("b", "bq", "bs"):
        if t == "dns":
            return None  # textual form of a DNS message is not documented
        parts = []
        if is_http:
            if op in ("b", "bq") and f["req_body"] is not None:
                parts.append(f["req_body"])
            if op in ("b", "bs") and resp is not None and resp["body"] is not None:
                parts.append(resp["body"])
            msgs = f.get("ws") or []
        else:
            msgs = f["messages"]
        for from_client, content in msgs:
            if op == "b" or (op == "bq") == bool(from_client):
                parts.append(content)
        return k_any(search(arg, p) for p in parts) if parts else False
    # ---- everything below is HTTP only (DNS ~u is undocumented)
    if op in ("u", ""):
        if t == "dns":
            return None
        if not is_http:
            return False
        return agree(search(arg, u) for u in url_candidates(f))
    if not is_http:
        return False
    if op == "m":
        return search(arg, f["method"].encode())
    if op == "d":
        c = {f["host"]}
        if f.get("host_header"):
            c.add(f["host_header"])
            c.add(f["host_header"].rsplit(":", 1)[0])
        return agree(search(arg, h) for h in c)
    if op in ("h", "hq", "hs"):
        blocks = []
        if op in ("h", "hq"):
            blocks.append(f["req_headers"])
        if op in ("h", "hs") and resp is not None:
            blocks.append(resp["headers"])
        lines = [ln for b in blocks for ln in header_lines(b)]
        return k_any(search(arg, ln) for ln in lines) if lines else False
    if op in ("t", "tq", "ts"):
        vals = []
        if op in ("t", "tq"):
            vals += content_types(f["req_headers"])
        if op in ("t", "ts") and resp is not None:
            vals += content_types(resp["headers"])
        return k_any(search(arg, v) for v in vals) if vals else False
    raise ValueError(f"unknown operator {op!r}")


def ev(ast, f, override=None):
    """override: {id(leaf_node): verdict} -- lets the classifier ask 'what if this leaf had answered differently'."""
    k = ast[0]
    if k == "leaf":
        if override is not None and id(ast) in override:
            return override[id(ast)]
        return leaf(ast[1], ast[2], f)
    if k == "not":
        return k_not(ev(ast[1], f, override))
    if k == "and":
        return k_all(ev(c, f, override) for c in ast[1])
    if k == "or":
        return k_any(ev(c, f, override) for c in ast[1])
    raise ValueError(k)


def header_block_verdicts(op, arg, f):
    """Verdicts the header operators would give if the regex saw the whole CRLF-joined header block (any flag set)."""
    resp = f.get("resp")
    blocks = []
    if op in ("h", "hq"):
        blocks.append(f["req_headers"])
    if op in ("h", "hs") and resp is not None:
        blocks.append(resp["headers"])
    out = set()
    pat = arg.encode("utf8")
    for fl in _FLAGSETS:
        rx = re.compile(pat, re.I | fl)
        out.add(any(rx.search(b"".join(ln + b"\r\n" for ln in header_lines(b))) is not None for b in blocks))
    return out


def depth(ast):
    k = ast[0]
    if k == "leaf":
        return 1
    if k == "not":
        return 1 + depth(ast[1])
    return 1 + max(depth(c) for c in ast[1])


def leaves(ast):
    k = ast[0]
    if k == "leaf":
        yield ast
    elif k == "not":
        yield from leaves(ast[1])
    else:
        for c in ast[1]:
            yield from leaves(c)


def kinds(ast, out=None):
    out = set() if out is None else out
    k = ast[0]
    if k == "leaf":
        return out
    out.add(k)
    if k == "not":
        kinds(ast[1], out)
    else:
        for c in ast[1]:
            kinds(c, out)
    return out
