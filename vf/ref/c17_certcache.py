"""Lock-step reference model of the certificate store for C17 -- stdlib only.

State: `custom` (name -> label of the registered custom certificate, later registrations win) and a FIFO of
generated keys with capacity `cap`.  Names are plain tuples: ("dns", "a.example.com") / ("ip", "10.0.0.1").
Other SAN kinds: ("email", text), ("uri", text) match a registration only under exactly that text;
("dirname" | "rid" | "other", text) match nothing.
The wildcard rules are the store's documented ones: a DNS name a.b.c is looked up as a.b.c, *.b.c, *.c; an IP
address only literally; "*" matches everything.
"""
from __future__ import annotations


def forms(name: str) -> list[str]:
    parts = name.split(".")
    out = [name]
    for i in range(1, len(parts)):
        out.append("*." + ".".join(parts[i:]))
    return out


def lookup_names(cn: str | None, sans: list[tuple[str, str]]) -> list[str]:
    out: list[str] = []
    if cn:
        out.extend(forms(cn))
    for kind, value in sans:
        if kind == "dns":
            out.extend(forms(value))
        elif kind in ("ip", "email", "uri"):
            out.append(value)  # exact string only, never wildcard forms
        # DirectoryName / RegisteredID / OtherName name no host: they match no registration
    out.append("*")
    return out


class CertCacheModel:
    def __init__(self, cap: int):
        self.cap = cap
        self.custom: dict[str, str] = {}
        self.fifo: list[tuple] = []  # generated keys, oldest first
        self.evicted: list[tuple] = []
        self.generated_total = 0
        self.evictions = 0

    @staticmethod
    def key(cn, sans):
        return (cn, tuple(sans))

    def register(self, label: str, names: list[str]) -> None:
        for n in names:
            self.custom[n] = label

    def custom_candidates(self, cn, sans) -> list[str]:
        """Labels of registered custom certificates that match one of the requested names (lookup order)."""
        out = []
        for n in lookup_names(cn, sans):
            if n in self.custom and self.custom[n] not in out:
                out.append(self.custom[n])
        return out

    def is_cached(self, cn, sans) -> bool:
        return self.key(cn, sans) in self.fifo

    def generated(self, cn, sans) -> tuple | None:
        """The real store answered with a generated certificate; returns the key evicted by this call (if any)."""
        k = self.key(cn, sans)
        if k in self.fifo:
            return None
        self.fifo.append(k)
        self.generated_total += 1
        if len(self.fifo) > self.cap:
            old = self.fifo.pop(0)
            self.evicted.append(old)
            self.evictions += 1
            return old
        return None
