"""Independent tnetstring reader used by C39 (own code, written from the tnetstring format description:
``<decimal length>:<payload><type byte>`` with type bytes  ',' bytes  ';' unicode  '#' int  '^' float
'!' bool  '~' null  ']' list  '}' dict).  It frames a byte string into top-level records and decodes
them far enough to fingerprint a mitmproxy flow record (id, type, message counts, response / error
presence) without using mitmproxy.io.
"""


class FrameError(ValueError):
    pass


def _frame(data: bytes, pos: int, end: int):
    """Return (payload_start, payload_end, type_byte, next_pos) of the element starting at pos."""
    colon = data.find(b":", pos, min(end, pos + 12))
    if colon < 0:
        raise FrameError(f"no length prefix at {pos}")
    digits = data[pos:colon]
    if not digits.isdigit():
        raise FrameError(f"bad length {digits!r} at {pos}")
    n = int(digits)
    p0 = colon + 1
    p1 = p0 + n
    if p1 + 1 > end:
        raise FrameError(f"truncated element at {pos}: needs {p1 + 1 - end} more bytes")
    return p0, p1, data[p1 : p1 + 1], p1 + 1


def _decode(data: bytes, pos: int, end: int):
    p0, p1, t, nxt = _frame(data, pos, end)
    raw = data[p0:p1]
    if t == b",":
        return raw, nxt
    if t == b";":
        return raw.decode("utf8"), nxt
    if t == b"#":
        return int(raw), nxt
    if t == b"^":
        return float(raw), nxt
    if t == b"!":
        if raw not in (b"true", b"false"):
            raise FrameError("bad bool")
        return raw == b"true", nxt
    if t == b"~":
        if raw:
            raise FrameError("bad null")
        return None, nxt
    if t == b"]":
        out = []
        p = p0
        while p < p1:
            v, p = _decode(data, p, p1)
            out.append(v)
        return out, nxt
    if t == b"}":
        d = {}
        p = p0
        while p < p1:
            k, p = _decode(data, p, p1)
            if p >= p1:
                raise FrameError("dict key without value")
            v, p = _decode(data, p, p1)
            d[k] = v
        return d, nxt
    raise FrameError(f"unknown type byte {t!r} at {p1}")


def frames(data: bytes):
    """Split data into top-level records. Returns (list of (start, end) offsets, error or None)."""
    out = []
    pos = 0
    end = len(data)
    while pos < end:
        try:
            _p0, _p1, _t, nxt = _frame(data, pos, end)
        except FrameError as e:
            return out, str(e)
        out.append((pos, nxt))
        pos = nxt
    return out, None


def decode_records(data: bytes):
    """Decode every top-level record. Returns (list of python values, error or None)."""
    spans, err = frames(data)
    vals = []
    for a, b in spans:
        try:
            v, nxt = _decode(data, a, b)
        except (FrameError, ValueError) as e:
            return vals, f"record at {a}: {e}"
        if nxt != b:
            return vals, f"record at {a}: trailing bytes"
        vals.append(v)
    return vals, err


def fingerprint(state: dict):
    """(id, type, #messages, has_response, has_error) of a flow-state dict."""
    typ = state.get("type")
    if typ in ("tcp", "udp"):
        nmsg = len(state.get("messages") or [])
    elif typ == "http":
        ws = state.get("websocket")
        nmsg = len(ws.get("messages") or []) if ws else -1
    else:
        nmsg = -1
    return (
        state.get("id"),
        typ,
        nmsg,
        state.get("response") is not None if typ in ("http", "dns") else None,
        state.get("error") is not None,
    )
