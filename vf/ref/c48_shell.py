"""Private reference for C48: a deliberately small model of POSIX shell word splitting (XCU 2.2 Quoting, 2.3 Token
Recognition) that accepts only *inert* simple commands.

parse(cmd) -> list of words.  A word is either ``str`` (fully literal after quote removal) or
``("printf-subst", fmt)`` for the single construct mitmproxy emits for bodies with control characters,
``"$(printf '<single-quoted format>')"``.  The optional here-string ``<<< word`` (bash) is returned separately.

Anything that could make a shell do more than run one command with literal arguments raises ``Unsafe``: an unquoted
operator or expansion character (| & ; < > ( ) $ ` \\ newline * ? [ # ~ = % ! { }), an unterminated quote, an expansion
inside double quotes other than the recognised printf substitution.  The model is stricter than a real shell on purpose
(it is only used to *accept* exports; real bash/dash executions are the deciding oracle for rejected ones).
"""
from __future__ import annotations


class Unsafe(Exception):
    pass


# characters that are literal in an unquoted word for every POSIX shell (no expansion, no operator, no globbing)
SAFE_UNQUOTED = set("abcdefghijklmnopqrstuvwxyzABCDEFGHIJKLMNOPQRSTUVWXYZ0123456789_@%+=:,./-")
PRINTF_OPEN = '"$(printf '
PRINTF_CLOSE = ')"'


def _single(cmd: str, i: int):
    """cmd[i] is the opening quote; returns (literal, index after the closing quote)."""
    j = cmd.find("'", i + 1)
    if j < 0:
        raise Unsafe("unterminated single quote")
    return cmd[i + 1 : j], j + 1


def parse(cmd: str):
    """-> (words, herestring_word_or_None)"""
    words = []
    here = None
    i = 0
    n = len(cmd)
    expect_here = False
    while i < n:
        c = cmd[i]
        if c == " ":
            i += 1
            continue
        if cmd.startswith("<<<", i) and not expect_here and here is None:
            expect_here = True
            i += 3
            continue
        # start of a word
        parts = []
        special = None
        started = False
        while i < n and cmd[i] != " ":
            c = cmd[i]
            if c == "'":
                lit, i = _single(cmd, i)
                parts.append(lit)
                started = True
            elif c == '"':
                if cmd.startswith(PRINTF_OPEN, i) and not started:
                    k = i + len(PRINTF_OPEN)
                    if k >= n or cmd[k] != "'":
                        # printf with an unquoted (safe) format word
                        m = k
                        while m < n and cmd[m] in SAFE_UNQUOTED:
                            m += 1
                        fmt = cmd[k:m]
                        k = m
                    else:
                        fmt = ""
                        # the format may be a concatenation of single-quoted strings and "'" pieces, as shlex.quote writes
                        while k < n and cmd[k] in "'\"":
                            if cmd[k] == "'":
                                lit, k = _single(cmd, k)
                                fmt += lit
                            else:
                                # a double-quoted piece inside $( ): only the  "'"  idiom is accepted
                                if cmd.startswith("\"'\"", k):
                                    fmt += "'"
                                    k += 3
                                else:
                                    raise Unsafe("unexpected double quote inside command substitution")
                    if not cmd.startswith(PRINTF_CLOSE, k):
                        raise Unsafe("unrecognised command substitution")
                    i = k + len(PRINTF_CLOSE)
                    special = ("printf-subst", fmt)
                    started = True
                    if i < n and cmd[i] != " ":
                        raise Unsafe("text glued to command substitution")
                    break
                # ordinary double quotes: accept only content without $ ` \ (shlex.quote writes "'" this way)
                j = cmd.find('"', i + 1)
                if j < 0:
                    raise Unsafe("unterminated double quote")
                inner = cmd[i + 1 : j]
                if any(ch in inner for ch in "$`\\!"):
                    raise Unsafe("expansion character inside double quotes")
                parts.append(inner)
                i = j + 1
                started = True
            elif c in SAFE_UNQUOTED:
                parts.append(c)
                i += 1
                started = True
            else:
                raise Unsafe(f"unquoted special character {c!r}")
        word = special if special is not None else "".join(parts)
        if expect_here:
            here = word
            expect_here = False
        else:
            words.append(word)
    if expect_here:
        raise Unsafe("here-string without word")
    return words, here


def printf_simple(fmt: str):
    """Value of ``printf fmt`` (bash) when fmt only uses \\xHH, an escaped backslash and %% ; None if the format contains
    anything else printf interprets (conversions, other backslash sequences, a leading option dash) -- then only a real
    shell decides."""
    if fmt.startswith("-"):
        return None
    out = []
    i = 0
    while i < len(fmt):
        c = fmt[i]
        if c == "%":
            if fmt[i + 1 : i + 2] == "%":  # "%%" prints one percent sign
                out.append("%")
                i += 2
                continue
            return None
        if c == "\\":
            if fmt[i + 1 : i + 2] == "\\":  # an escaped backslash prints one backslash
                out.append("\\")
                i += 2
                continue
            if fmt[i + 1 : i + 2] == "x" and len(fmt) >= i + 4 and all(h in "0123456789abcdef" for h in fmt[i + 2 : i + 4]):
                # bash consumes at most two hex digits
                out.append(chr(int(fmt[i + 2 : i + 4], 16)))
                i += 4
                continue
            return None
        out.append(c)
        i += 1
    return "".join(out)
