"""Reference model for C45: what a console command line means.

Oracle part (independent of mitmproxy):
  * ``split_ref(line)``: split a command line at *unquoted* whitespace (space, tab, CR, LF).  A quote
    character (' or ") opens a quoted region wherever it occurs; the region ends at the next occurrence of
    the same quote character (or at end of input).  Returns the raw tokens.
  * ``token_value(tok)``: the argument a raw token denotes when that is unambiguous: a bare word without quote
    characters denotes itself, a token that is exactly one quoted region denotes the text between the quotes.
    For anything else (quote in the middle of a word, unterminated quote) only the *number* of arguments is
    specified by the property, and None is returned.

Classification part (a model of the *known defects*, used only to name the mechanism of a violation, never
to decide whether something is a violation):
  * ``predict_defects(line)``: what the arguments become if exactly the known mechanisms act.
"""
from __future__ import annotations

import re
import unicodedata

WS = " \t\r\n"
QUOTES = "'\""


def split_ref(line: str) -> list[str]:
    toks: list[str] = []
    cur: list[str] = []
    in_tok = False
    q = None
    for ch in line:
        if q is not None:
            cur.append(ch)
            if ch == q:
                q = None
        elif ch in WS:
            if in_tok:
                toks.append("".join(cur))
                cur = []
                in_tok = False
        else:
            in_tok = True
            cur.append(ch)
            if ch in QUOTES:
                q = ch
    if in_tok:
        toks.append("".join(cur))
    return toks


def token_value(tok: str) -> str | None:
    if not any(c in tok for c in QUOTES):
        return tok
    q = tok[0]
    if len(tok) >= 2 and q in QUOTES and tok[-1] == q and q not in tok[1:-1]:
        return tok[1:-1]
    return None


# ---------------------------------------------------------------------------------------------
# defect model (classification only)
# ---------------------------------------------------------------------------------------------

# Python-style escape sequences (own copy of the grammar in the Python language reference)
ESC = re.compile(r"\\([\\'\"abfnrtv]|[0-7]{1,3}|x..|N\{[^}]+\}|u....|U........)")
SIMPLE = {"\\": "\\", "'": "'", '"': '"', "a": "\a", "b": "\b", "f": "\f", "n": "\n", "r": "\r", "t": "\t", "v": "\v"}
HEX = set("0123456789abcdefABCDEF")


def decode_escape(body: str) -> str | None:
    """Value of one escape sequence (text after the backslash), None if malformed."""
    c = body[0]
    if c in SIMPLE and len(body) == 1:
        return SIMPLE[c]
    if c in "01234567":
        return chr(int(body, 8))
    if c in "xuU":
        digits = body[1:]
        if not digits or any(d not in HEX for d in digits):
            return None
        v = int(digits, 16)
        if v > 0x10FFFF:
            return None
        return chr(v)
    if c == "N":
        try:
            return unicodedata.lookup(body[2:-1])
        except KeyError:
            return None
    return None


def has_escape(s: str) -> bool:
    return ESC.search(s) is not None


def has_malformed_escape(s: str) -> bool:
    return any(decode_escape(m.group(1)) is None for m in ESC.finditer(s))


def lex_model(line: str) -> list[str]:
    """The splitting rule with the 'quote only recognised at the start of a token' defect:
    a bare word ends at the first quote character, a quoted string ends right after its closing quote."""
    parts: list[str] = []
    i, n = 0, len(line)
    while i < n:
        ch = line[i]
        if ch in QUOTES:
            j = line.find(ch, i + 1)
            j = n if j < 0 else j + 1
            parts.append(line[i:j])
            i = j
        elif ch in WS:
            while i < n and line[i] in WS:
                i += 1
        else:
            j = i
            while j < n and line[j] not in WS and line[j] not in QUOTES:
                j += 1
            parts.append(line[i:j])
            i = j
    return parts


def _unquote_model(x: str) -> str:
    if len(x) > 1 and x[0] in QUOTES and x[0] == x[-1]:
        return x[1:-1]
    return x


def _predict(line: str, drop_uws: bool):
    flags: set[str] = set()
    raises = False
    out = []
    parts = lex_model(line)
    if parts != split_ref(line):
        flags.add("quote-inside-word-splits-argument")
    for p in parts:
        if drop_uws and p.isspace():  # only possible for non-ASCII / VT / FF whitespace, the lexer's own set was consumed
            flags.add("unquoted-unicode-whitespace-argument-dropped")
            continue
        v = _unquote_model(p)
        res = []
        pos = 0
        for m in ESC.finditer(v):
            res.append(v[pos : m.start()])
            d = decode_escape(m.group(1))
            if d is None:
                raises = True
                flags.add("str-argument-malformed-backslash-escape-rejected")
                d = m.group(0)
            else:
                flags.add("str-argument-backslash-escape-decoded")
            res.append(d)
            pos = m.end()
        res.append(v[pos:])
        out.append("".join(res))
    return out, flags, raises


def predict_defects(line: str):
    """Candidate predictions [(args incl. command name, mechanisms, raises)]: what the arguments become if
    exactly the known mechanisms act -- first without, then with tab expansion of the whole line."""
    cands = []
    for expand in (False, True) if "\t" in line else (False,):
        ln = line.expandtabs() if expand else line
        for drop in (False, True) if any(p.isspace() for p in lex_model(ln)) else (False,):
            out, flags, raises = _predict(ln, drop)
            cands.append((out, flags | ({"tab-expanded-to-spaces"} if expand else set()), raises))
    return cands
