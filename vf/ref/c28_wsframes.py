"""RFC 6455 / RFC 7692 helpers written from the RFCs (independent of mitmproxy and of wsproto).

build_frame / parse_frames   section 5.2 base framing (fin, rsv1, opcode, mask, 7/16/64-bit length)
RawSender                    serialises messages with arbitrary fragment boundaries (also inside a UTF-8 character, empty
                             fragments) and, when permessage-deflate was negotiated, compresses each message itself with zlib
                             (raw deflate, sync flush, trailing 00 00 ff ff removed, RSV1 on the first frame; context
                             takeover / window bits as negotiated)
aligned_lengths              lengths of the pieces an incremental UTF-8 decoder hands out per fragment (what an intermediary
                             that decodes text per frame can at best preserve)
char_boundary_ok             is offset on a UTF-8 character boundary of content
"""
from __future__ import annotations

import struct
import zlib

OP_CONT, OP_TEXT, OP_BIN, OP_CLOSE, OP_PING, OP_PONG = 0, 1, 2, 8, 9, 10


def build_frame(opcode: int, payload: bytes, fin: bool = True, mask: bytes | None = None, rsv1: bool = False) -> bytes:
    b0 = (0x80 if fin else 0) | (0x40 if rsv1 else 0) | opcode
    n = len(payload)
    m = 0x80 if mask is not None else 0
    if n < 126:
        head = bytes([b0, m | n])
    elif n < 65536:
        head = bytes([b0, m | 126]) + struct.pack("!H", n)
    else:
        head = bytes([b0, m | 127]) + struct.pack("!Q", n)
    if mask is not None:
        assert len(mask) == 4
        payload = bytes(c ^ mask[i & 3] for i, c in enumerate(payload)) if n < 4096 else _mask_fast(payload, mask)
        head += mask
    return head + payload


def _mask_fast(payload: bytes, mask: bytes) -> bytes:
    n = len(payload)
    key = (mask * (n // 4 + 1))[:n]
    return (int.from_bytes(payload, "big") ^ int.from_bytes(key, "big")).to_bytes(n, "big")


def parse_frames(data: bytes):
    """-> (frames, rest); frame = dict(fin, rsv1, opcode, masked, payload[unmasked])"""
    out = []
    i = 0
    n = len(data)
    while True:
        if n - i < 2:
            break
        b0, b1 = data[i], data[i + 1]
        ln = b1 & 0x7F
        j = i + 2
        if ln == 126:
            if n - j < 2:
                break
            (ln,) = struct.unpack("!H", data[j : j + 2])
            j += 2
        elif ln == 127:
            if n - j < 8:
                break
            (ln,) = struct.unpack("!Q", data[j : j + 8])
            j += 8
        mask = None
        if b1 & 0x80:
            if n - j < 4:
                break
            mask = data[j : j + 4]
            j += 4
        if n - j < ln:
            break
        payload = data[j : j + ln]
        if mask is not None and ln:
            payload = _mask_fast(payload, mask)
        out.append({"fin": bool(b0 & 0x80), "rsv1": bool(b0 & 0x40), "opcode": b0 & 0x0F, "masked": mask is not None, "payload": payload})
        i = j + ln
    return out, data[i:]


class RawSender:
    """Serialises what one endpoint sends; masks iff `client`."""

    def __init__(self, client: bool, rng, deflate: bool = False, wbits: int = 15, no_context_takeover: bool = False):
        self.client = client
        self.rng = rng
        self.deflate = deflate
        self.wbits = wbits
        self.nct = no_context_takeover
        self._c = None

    def _mask(self):
        return bytes(self.rng.getrandbits(8) for _ in range(4)) if self.client else None

    def _compress(self, data: bytes) -> bytes:
        if self._c is None or self.nct:
            self._c = zlib.compressobj(self.rng.choice([1, 6, 9]), zlib.DEFLATED, -self.wbits)
        out = self._c.compress(data) + self._c.flush(zlib.Z_SYNC_FLUSH)
        assert out.endswith(b"\x00\x00\xff\xff")
        return out[:-4]

    def message(self, is_text: bool, fragments: list[bytes], wire_cuts=None) -> bytes:
        return b"".join(self.message_frames(is_text, fragments, wire_cuts))

    def message_frames(self, is_text: bool, fragments: list[bytes], wire_cuts=None) -> list[bytes]:
        """fragments: payload pieces (any byte boundaries).  With deflate the *compressed* message is cut into
        len(fragments) pieces at `wire_cuts` (random if None) since frame boundaries of a compressed message carry no meaning."""
        op = OP_TEXT if is_text else OP_BIN
        if self.deflate:
            comp = self._compress(b"".join(fragments))
            k = len(fragments)
            cuts = sorted(self.rng.randrange(0, len(comp) + 1) for _ in range(k - 1)) if wire_cuts is None else wire_cuts
            pieces, last = [], 0
            for c in cuts:
                pieces.append(comp[last:c])
                last = c
            pieces.append(comp[last:])
        else:
            pieces = list(fragments)
        return [
            build_frame(op if idx == 0 else OP_CONT, p, fin=(idx == len(pieces) - 1), mask=self._mask(), rsv1=(self.deflate and idx == 0))
            for idx, p in enumerate(pieces)
        ]

    def control(self, opcode: int, payload: bytes) -> bytes:
        return build_frame(opcode, payload, True, self._mask())

    def close(self, code: int | None, reason: str = "") -> bytes:
        payload = b"" if code is None else struct.pack("!H", code) + reason.encode("utf-8")
        return self.control(OP_CLOSE, payload)


def char_boundary_ok(content: bytes, offset: int) -> bool:
    """True iff offset does not fall inside a multi-byte UTF-8 sequence of (valid UTF-8) content."""
    return offset <= 0 or offset >= len(content) or (content[offset] & 0xC0) != 0x80


def aligned_lengths(fragments: list[bytes]) -> list[int]:
    """Per fragment: number of bytes of complete characters available once that fragment has arrived (minus what was
    already handed out) -- the fragment lengths after per-frame incremental UTF-8 decoding."""
    total = b"".join(fragments)
    out = []
    pos = 0
    done = 0
    for k, f in enumerate(fragments):
        pos += len(f)
        end = pos
        if k < len(fragments) - 1:
            while end > done and not char_boundary_ok(total, end):
                end -= 1
        out.append(end - done)
        done = end
    return out
