"""Independent little wire codecs for the C11 check (own code, stdlib only).

  * RFC 6455 frames: ws_frame() builds one frame (client frames masked with a caller-supplied mask), ws_decode() reads
    a byte stream back into frames and ws_messages() reassembles data messages (fragment boundaries are not semantic).
  * RFC 1035 messages: dns_query()/dns_answer() build one-question messages, dns_read() extracts (id, qr, rcode, qname,
    first A rdata) from a datagram.
"""
from __future__ import annotations

import struct

OP_CONT, OP_TEXT, OP_BIN, OP_CLOSE, OP_PING, OP_PONG = 0, 1, 2, 8, 9, 10


def ws_frame(opcode: int, payload: bytes, fin: bool = True, mask: bytes | None = None) -> bytes:
    b0 = (0x80 if fin else 0) | opcode
    n = len(payload)
    m = 0x80 if mask is not None else 0
    if n < 126:
        head = bytes([b0, m | n])
    elif n < 65536:
        head = bytes([b0, m | 126]) + struct.pack("!H", n)
    else:
        head = bytes([b0, m | 127]) + struct.pack("!Q", n)
    if mask is not None:
        payload = bytes(c ^ mask[i % 4] for i, c in enumerate(payload))
        head += mask
    return head + payload


def ws_decode(buf: bytes):
    """-> (frames, rest) with frames = [(fin, opcode, masked, payload)]; stops at the first incomplete frame."""
    frames = []
    pos = 0
    n = len(buf)
    while n - pos >= 2:
        b0, b1 = buf[pos], buf[pos + 1]
        ln = b1 & 0x7F
        p = pos + 2
        if ln == 126:
            if n - p < 2:
                break
            (ln,) = struct.unpack_from("!H", buf, p)
            p += 2
        elif ln == 127:
            if n - p < 8:
                break
            (ln,) = struct.unpack_from("!Q", buf, p)
            p += 8
        masked = bool(b1 & 0x80)
        mask = None
        if masked:
            if n - p < 4:
                break
            mask = buf[p : p + 4]
            p += 4
        if n - p < ln:
            break
        payload = bytes(buf[p : p + ln])
        if mask is not None:
            payload = bytes(c ^ mask[i % 4] for i, c in enumerate(payload))
        frames.append((bool(b0 & 0x80), b0 & 0x0F, masked, payload))
        pos = p + ln
    return frames, bytes(buf[pos:])


def ws_messages(frames):
    """Reassemble data messages: -> (messages [(opcode, payload)], controls [(opcode, payload)], partial_bytes)."""
    msgs, ctrl = [], []
    cur = None
    for fin, op, _masked, payload in frames:
        if op >= 8:
            ctrl.append((op, payload))
            continue
        if op != OP_CONT:
            cur = [op, bytearray()]
        if cur is None:
            cur = [OP_BIN, bytearray()]
        cur[1] += payload
        if fin:
            msgs.append((cur[0], bytes(cur[1])))
            cur = None
    return msgs, ctrl, (len(cur[1]) if cur else 0)


# ------------------------------------------------------------------------------------------------ DNS

def _qname(name: bytes) -> bytes:
    out = bytearray()
    for label in name.split(b"."):
        if label:
            out += bytes([len(label)]) + label
    return bytes(out) + b"\x00"


def dns_query(msg_id: int, name: bytes, qtype: int = 1) -> bytes:
    return struct.pack("!HHHHHH", msg_id, 0x0100, 1, 0, 0, 0) + _qname(name) + struct.pack("!HH", qtype, 1)


def dns_answer(msg_id: int, name: bytes, addr: bytes, qtype: int = 1) -> bytes:
    q = _qname(name) + struct.pack("!HH", qtype, 1)
    rr = b"\xc0\x0c" + struct.pack("!HHIH", 1, 1, 60, len(addr)) + addr
    return struct.pack("!HHHHHH", msg_id, 0x8180, 1, 1, 0, 0) + q + rr


def dns_read(buf: bytes):
    """-> dict(id, qr, rcode, qname, rdata) or None if it is not a one-question message we understand."""
    if len(buf) < 12:
        return None
    mid, flags, qd, an, _ns, _ar = struct.unpack_from("!HHHHHH", buf, 0)
    pos = 12
    labels = []
    try:
        if qd < 1:
            return {"id": mid, "qr": flags >> 15, "rcode": flags & 0xF, "qname": b"", "rdata": None}
        while True:
            ln = buf[pos]
            pos += 1
            if ln == 0:
                break
            if ln & 0xC0:
                return None
            labels.append(bytes(buf[pos : pos + ln]))
            pos += ln
        pos += 4
        rdata = None
        if an >= 1:
            # name: pointer or labels
            while True:
                ln = buf[pos]
                if ln & 0xC0 == 0xC0:
                    pos += 2
                    break
                pos += 1
                if ln == 0:
                    break
                pos += ln
            _t, _c, _ttl, rdlen = struct.unpack_from("!HHIH", buf, pos)
            pos += 10
            rdata = bytes(buf[pos : pos + rdlen])
    except (IndexError, struct.error):
        return None
    return {"id": mid, "qr": flags >> 15, "rcode": flags & 0xF, "qname": b".".join(labels), "rdata": rdata}
