"""Reference policy for C46 (own code; independent of mitmproxy and of tornado's implementation).

* credential builders: signed session cookies in the documented tornado "version 2" wire format
  (``2|1:0|<len>:<ts>|<len>:<name>|<len>:<b64 value>|<hmac-sha256 hex>``), re-implemented here so that forged /
  expired / tampered variants can be minted;
* XSRF double-submit tokens (version 1 = bare hex, version 2 = ``2|mask|masked-token|ts``);
* ``expected(...)``: what the property demands of a request, as a function of the *input only*.
"""
from __future__ import annotations

import base64
import hashlib
import hmac

SAFE_METHODS = ("GET", "HEAD", "OPTIONS")
METHODS = ("GET", "HEAD", "POST", "PUT", "DELETE", "PATCH", "OPTIONS")

# Sec-Fetch-Site: None = header absent.  class: "ok" (browser says same-origin / user-initiated, or header absent),
# "cross" (property: must be refused), "other" (not a value browsers send; either outcome acceptable).
SFS = [
    (None, "ok"),
    ("same-origin", "ok"),
    ("none", "ok"),
    ("same-site", "cross"),
    ("cross-site", "cross"),
    ("CROSS-SITE", "other"),
    ("", "other"),
]


def _field(b: bytes) -> bytes:
    return b"%d:%s" % (len(b), b)


def sign_cookie_v2(secret: bytes, name: str, value: bytes, ts: int) -> str:
    to_sign = b"|".join([b"2", _field(b"0"), _field(str(int(ts)).encode()), _field(name.encode()), _field(base64.b64encode(value)), b""])
    sig = hmac.new(secret, to_sign, hashlib.sha256).hexdigest().encode()
    return (to_sign + sig).decode()


def xsrf_v1(token16: bytes) -> str:
    return token16.hex()


def xsrf_v2(token16: bytes, mask4: bytes, ts: int) -> str:
    masked = bytes(b ^ mask4[i % 4] for i, b in enumerate(token16))
    return "|".join(["2", mask4.hex(), masked.hex(), str(int(ts))])


# ---------------------------------------------------------------------------------------------
# credential forms: name -> valid?
# ---------------------------------------------------------------------------------------------
CRED_FORMS = [
    ("none", False),
    ("bearer-wrong", False),
    ("bearer-empty", False),
    ("bearer-truncated", False),
    ("bearer-extended", False),
    ("bearer-uppercased", False),
    ("basic-wrong", False),
    ("query-wrong", False),
    ("query-empty", False),
    ("query-truncated", False),
    ("cookie-wrong-secret", False),
    ("cookie-unsigned", False),
    ("cookie-zero-signature", False),
    ("cookie-tampered-timestamp", False),
    ("cookie-expired", False),
    # exotic values in every channel (never the password)
    ("query-nonascii", False),
    ("query-astral", False),
    ("bearer-nonascii", False),
    ("form-nonascii", False),
    ("query-invalid-utf8", False),
    ("query-nul", False),
    ("bearer-nul", False),
    ("query-very-long", False),
    ("bearer-very-long", False),
    ("form-very-long", False),
    ("bearer-right", True),
    ("query-right", True),
    ("cookie-valid", True),
]
CRED_VALID = dict(CRED_FORMS)
# the credential is not decodable as text / not a legal header value: the HTTP framework may reject the request as
# malformed (400) before the application sees it
CRED_MALFORMED = {"query-invalid-utf8", "bearer-nul"}
# the presented password contains a non-ASCII character
CRED_NONASCII = {"query-nonascii", "query-astral", "bearer-nonascii", "form-nonascii"}
NONASCII_SAMPLES = ["\u00e9", "pass\u00e9", "\u00fc" * 16, "\u0416\u0416", "caf\u00e9-token"]


def build_cred_form(form: str, *, token: str, rng):
    """Login-form channel: pairs for an application/x-www-form-urlencoded body (only sent with non-safe methods)."""
    if form == "form-nonascii":
        return [("token", rng.choice(NONASCII_SAMPLES + ["\U0001F600"]))]
    if form == "form-very-long":
        return [("token", token + "a" * rng.choice([5000, 60000]))]
    return []


def build_cred(form: str, *, token: str, secret: bytes, cookie_name: str, now: int, rng):
    """-> (headers, query_pairs, cookies) for one credential form."""
    h, q, c = [], [], []
    wrong = "".join(rng.choice("0123456789abcdef") for _ in range(len(token)))
    if wrong == token:
        wrong = wrong[::-1] + "0"
    if form == "none":
        pass
    elif form == "bearer-wrong":
        h.append(("Authorization", f"Bearer {wrong}"))
    elif form == "bearer-empty":
        h.append(("Authorization", "Bearer"))
    elif form == "bearer-truncated":
        h.append(("Authorization", f"Bearer {token[:-1]}"))
    elif form == "bearer-extended":
        h.append(("Authorization", f"Bearer {token}0"))
    elif form == "bearer-uppercased":
        up = token.upper()
        h.append(("Authorization", f"Bearer {up if up != token else wrong}"))
    elif form == "basic-wrong":
        h.append(("Authorization", "Basic " + base64.b64encode(f"mitm:{wrong}".encode()).decode()))
    elif form == "query-wrong":
        q.append(("token", wrong))
    elif form == "query-empty":
        q.append(("token", ""))
    elif form == "query-truncated":
        q.append(("token", token[: len(token) // 2]))
    elif form == "cookie-wrong-secret":
        other = bytes(rng.getrandbits(8) for _ in range(32))
        c.append((cookie_name, sign_cookie_v2(other, cookie_name, b"y", now)))
    elif form == "cookie-unsigned":
        c.append((cookie_name, rng.choice(["y", "eQ==", "true", "1"])))
    elif form == "cookie-zero-signature":
        good = sign_cookie_v2(secret, cookie_name, b"y", now)
        c.append((cookie_name, good[:-64] + "0" * 64))
    elif form == "cookie-tampered-timestamp":
        good = sign_cookie_v2(secret, cookie_name, b"y", now - 40 * 86400)
        fresh = sign_cookie_v2(b"x" * 32, cookie_name, b"y", now)
        c.append((cookie_name, fresh[:-64] + good[-64:]))  # fresh timestamp, signature of the old one
    elif form == "cookie-expired":
        c.append((cookie_name, sign_cookie_v2(secret, cookie_name, b"y", now - rng.choice([32, 40, 400]) * 86400)))
    elif form == "query-nonascii":
        q.append(("token", rng.choice(NONASCII_SAMPLES + [token[:-1] + "\u00e9"])))
    elif form == "query-astral":
        q.append(("token", rng.choice(["\U0001F600", token + "\U00010348"])))
    elif form == "bearer-nonascii":
        # sent as raw Latin-1 bytes in the header
        h.append(("Authorization", "Bearer " + rng.choice(["\u00e9", "pass\u00e9", token[:-1] + "\u00ff", "\u00c3\u00a9"])))
    elif form == "query-invalid-utf8":
        q.append(("token", rng.choice([b"\xff", b"ab\xc3", b"\xed\xa0\x80", token.encode() + b"\xfe"])))
    elif form == "query-nul":
        # never derived from the real token: tornado's get_argument documents that it strips control characters
        # and surrounding whitespace, so "<token>\x00" IS the token
        q.append(("token", rng.choice(["a\x00b", "\x00", wrong + "\x00", "\x00" + wrong[:8]])))
    elif form == "bearer-nul":
        h.append(("Authorization", "Bearer " + rng.choice(["a\x00b", wrong + "\x00"])))
    elif form == "query-very-long":
        q.append(("token", token + "a" * rng.choice([5000, 30000])))
    elif form == "bearer-very-long":
        h.append(("Authorization", "Bearer " + token * rng.choice([100, 900])))
    elif form in ("form-nonascii", "form-very-long"):
        pass  # see build_cred_form
    elif form == "bearer-right":
        h.append(("Authorization", f"Bearer {token}"))
    elif form == "query-right":
        q.append(("token", token))
    elif form == "cookie-valid":
        c.append((cookie_name, sign_cookie_v2(secret, cookie_name, b"y", now - rng.choice([0, 5, 86400]))))
    else:
        raise KeyError(form)
    return h, q, c


# ---------------------------------------------------------------------------------------------
# XSRF forms: name -> valid?
# ---------------------------------------------------------------------------------------------
XSRF_FORMS = [
    ("none", False),
    ("cookie-only", False),
    ("header-only", False),
    ("query-only", False),
    ("mismatch-header", False),
    ("mismatch-form", False),
    ("empty-equal", False),
    ("default-cookie-name", False),
    ("valid-v1-header", True),
    ("valid-v1-nonhex-header", True),  # tornado (documented double-submit): a non-hex cookie is its own token
    ("valid-v1-csrf-header", True),
    ("valid-v1-query", True),
    ("valid-v1-form", True),
    ("valid-v2-header", True),
    ("valid-v2-remasked-header", True),
]
XSRF_VALID = dict(XSRF_FORMS)


def build_xsrf(form: str, *, cookie_name: str, now: int, rng):
    """-> (headers, query_pairs, cookies, form_pairs)."""
    h, q, c, f = [], [], [], []
    t = bytes(rng.getrandbits(8) for _ in range(16))
    t2 = bytes(rng.getrandbits(8) for _ in range(16))
    if t2 == t:
        t2 = bytes(b ^ 1 for b in t)
    m1 = bytes(rng.getrandbits(8) for _ in range(4))
    m2 = bytes((b + 1) & 0xFF for b in m1)
    if form == "none":
        pass
    elif form == "cookie-only":
        c.append((cookie_name, xsrf_v1(t)))
    elif form == "header-only":
        h.append(("X-XSRFToken", xsrf_v1(t)))
    elif form == "query-only":
        q.append(("_xsrf", xsrf_v1(t)))
    elif form == "mismatch-header":
        c.append((cookie_name, xsrf_v1(t)))
        h.append(("X-XSRFToken", xsrf_v1(t2)))
    elif form == "mismatch-form":
        c.append((cookie_name, xsrf_v2(t, m1, now)))
        f.append(("_xsrf", xsrf_v2(t2, m1, now)))
    elif form == "valid-v1-nonhex-header":
        c.append((cookie_name, "zzzz-not-hex"))
        h.append(("X-XSRFToken", "zzzz-not-hex"))
    elif form == "empty-equal":
        c.append((cookie_name, ""))
        h.append(("X-XSRFToken", ""))
    elif form == "default-cookie-name":
        c.append(("_xsrf" if cookie_name != "_xsrf" else "_mitmproxy_xsrf", xsrf_v1(t)))
        h.append(("X-XSRFToken", xsrf_v1(t)))
    elif form == "valid-v1-header":
        c.append((cookie_name, xsrf_v1(t)))
        h.append(("X-XSRFToken", xsrf_v1(t)))
    elif form == "valid-v1-csrf-header":
        c.append((cookie_name, xsrf_v1(t)))
        h.append(("X-CSRFToken", xsrf_v1(t)))
    elif form == "valid-v1-query":
        c.append((cookie_name, xsrf_v1(t)))
        q.append(("_xsrf", xsrf_v1(t)))
    elif form == "valid-v1-form":
        c.append((cookie_name, xsrf_v1(t)))
        f.append(("_xsrf", xsrf_v1(t)))
    elif form == "valid-v2-header":
        c.append((cookie_name, xsrf_v2(t, m1, now)))
        h.append(("X-XSRFToken", xsrf_v2(t, m1, now)))
    elif form == "valid-v2-remasked-header":
        c.append((cookie_name, xsrf_v2(t, m1, now)))
        h.append(("X-XSRFToken", xsrf_v2(t, m2, now)))
    else:
        raise KeyError(form)
    return h, q, c, f


# ---------------------------------------------------------------------------------------------
# what the property demands
# ---------------------------------------------------------------------------------------------

def expected(method: str, cred_valid: bool, xsrf_valid: bool, sfs_class: str) -> dict:
    """Demands on one request.  Keys:
    must_403        -- no valid credential: status 403 (405 tolerated if the route lacks the method), nothing
                       disclosed, nothing changed, no session cookie handed out
    must_refuse     -- valid credential, state-changing method, but no valid XSRF token or marked cross-site:
                       an error status (>= 400)
    must_not_change -- the state digest must be identical afterwards
    control         -- everything valid: nothing demanded (positive control for the evidence)
    """
    unsafe = method not in SAFE_METHODS
    if not cred_valid:
        return {"must_403": True, "must_refuse": False, "must_not_change": True, "control": False}
    blocked = (not xsrf_valid) or sfs_class == "cross"
    if unsafe and blocked:
        return {"must_403": False, "must_refuse": True, "must_not_change": True, "control": False}
    if not unsafe and blocked:
        # a safe-method request that changed state would be a state-changing request accepted without XSRF token
        return {"must_403": False, "must_refuse": False, "must_not_change": True, "control": False}
    return {"must_403": False, "must_refuse": False, "must_not_change": False, "control": sfs_class == "ok"}
