"""Private reference for C48: how curl(1) and httpie interpret the argument vectors that mitmproxy's export emits.

Only documented option semantics are modelled (curl man page; httpie docs "Request items"):

curl
  -H <line>      "Name: value" adds/replaces a header; "Name:" (nothing but whitespace after the colon) REMOVES the header;
                 "Name;" sends it with an empty value; a leading "@" reads header lines from a file.
  -X <method>    request method.   Without -X: POST if -d is present, else GET.
  -d <data>      request body (implies POST); a leading "@" reads the body from a file.
  --compressed   asks for a compressed response (an Accept-Encoding header chosen by curl).
  --resolve <host:port:addr>
  <url>          subject to URL globbing ({} and [] are patterns unless -g/--globoff), to dot-segment squashing
                 (/./ and /../ are removed unless --path-as-is), the fragment (#...) is never sent, and URLs containing
                 a space or a control character are rejected ("URL using bad/illegal format").
httpie
  http METHOD URL ITEM...   ITEM "Name:value" = header (value stripped); "Name:" unsets, "Name;" = empty header; the
                 separator is the first of  : ; = == := @ =@ :=@  found in the item (backslash escapes a separator).
"""
from __future__ import annotations

import re


class ArgError(Exception):
    pass


def interpret_curl(argv):
    """argv[0] is the program name.  Returns a dict describing the request(s) curl would make."""
    out = {
        "method_opt": None,
        "headers": [],  # (name, value) as curl would send them (value with leading whitespace skipped)
        "removed": [],  # header names removed by "Name:"
        "header_files": [],
        "data": None,
        "data_file": None,
        "compressed": 0,
        "resolve": [],
        "urls": [],
        "unknown": [],
        "globoff": False,
        "path_as_is": False,
    }
    i = 1
    while i < len(argv):
        a = argv[i]
        if a in ("-H", "-X", "-d", "--resolve"):
            if i + 1 >= len(argv):
                raise ArgError(f"{a} without argument")
            v = argv[i + 1]
            i += 2
            if a == "-H":
                if v.startswith("@"):
                    out["header_files"].append(v[1:])
                elif ":" in v:
                    name, val = v.split(":", 1)
                    # curl decides "blank" by skipping ISSPACE() characters after the colon; a non-blank line is sent verbatim
                    if val.lstrip(" \t\r\n\v\f") == "":
                        out["removed"].append(name)
                    else:
                        out["headers"].append((name, val.lstrip(" \t")))
                elif v.endswith(";"):
                    out["headers"].append((v[:-1], ""))
                else:
                    out["unknown"].append(("-H", v))  # curl ignores a header line without colon
            elif a == "-X":
                out["method_opt"] = v
            elif a == "-d":
                if v.startswith("@"):
                    out["data_file"] = v[1:]
                elif out["data"] is None:
                    out["data"] = v
                else:
                    out["data"] += "&" + v
            else:
                out["resolve"].append(v)
            continue
        if a == "--compressed":
            out["compressed"] += 1
        elif a in ("-g", "--globoff"):
            out["globoff"] = True
        elif a == "--path-as-is":
            out["path_as_is"] = True
        elif a.startswith("-") and a != "-":
            out["unknown"].append(a)
        else:
            out["urls"].append(a)
        i += 1
    if out["method_opt"] is not None:
        out["method"] = out["method_opt"]
    else:
        out["method"] = "POST" if (out["data"] is not None or out["data_file"] is not None) else "GET"
    return out


GLOB_CHARS = re.compile(r"(?<!\\)[\[\]{}]")
DOTSEG = re.compile(r"/\.{1,2}(/|$)")


def url_effects(url: str, globoff=False, path_as_is=False):
    """Set of curl URL-processing effects that make the request differ from the literal URL string."""
    eff = set()
    if any(ord(c) < 0x20 or ord(c) == 0x7F or c == " " for c in url):
        eff.add("rejected-space-or-control")
    if not globoff and GLOB_CHARS.search(url):
        eff.add("globbing")
    m = re.match(r"^[A-Za-z][A-Za-z0-9+.-]*://[^/?#]*", url)
    rest = url[m.end() :] if m else url
    if "#" in url:
        eff.add("fragment-dropped")
    path = rest.split("#", 1)[0].split("?", 1)[0]
    if not path_as_is and DOTSEG.search(path):
        eff.add("dot-segments-squashed")
    return eff


# ------------------------------------------------------------------------------------------------
# httpie
# ------------------------------------------------------------------------------------------------
HTTPIE_SEPS = [":=@", ":=", "==", "=@", ":", ";", "=", "@"]


def httpie_item(item: str):
    """-> (key, separator, value) following httpie's tokeniser: the first separator position wins, the longest separator
    at that position is taken; a backslash escapes a following separator character."""
    i = 0
    key = []
    while i < len(item):
        if item[i] == "\\" and i + 1 < len(item) and any(s.startswith(item[i + 1]) for s in HTTPIE_SEPS):
            key.append(item[i + 1])
            i += 2
            continue
        for s in HTTPIE_SEPS:  # longest first
            if item.startswith(s, i):
                return "".join(key), s, item[i + len(s) :]
        key.append(item[i])
        i += 1
    return "".join(key), None, None


def interpret_httpie(argv):
    """argv = ['http', METHOD, URL, ITEM...] (the form mitmproxy emits)."""
    if len(argv) < 3:
        raise ArgError("too few arguments")
    out = {"method": argv[1], "url": argv[2], "headers": [], "removed": [], "other_items": []}
    # httpie only accepts argv[1] as METHOD if it is purely alphabetic; otherwise it is taken for the URL
    out["method_is_alpha"] = bool(re.match(r"^[a-zA-Z]+$", argv[1]))
    for item in argv[3:]:
        k, sep, v = httpie_item(item)
        if sep == ":":
            if v.strip() == "":
                out["removed"].append(k)
            else:
                out["headers"].append((k, v.strip()))
        elif sep == ";" and v == "":
            out["headers"].append((k, ""))
        else:
            out["other_items"].append((k, sep, v))
    return out
