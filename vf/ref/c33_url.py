"""Reference URL / authority reader for C33 (independent of mitmproxy.net.http.url and of urllib.parse).

RFC 3986 generic syntax by regular expression, host normalisation with ``ipaddress`` and the third-party
``idna`` package (UTS 46 mapping), default-port elision for http/https.

Equivalence used by the check (documented tolerances):
* scheme and reg-name hosts are case-insensitive; U-labels and A-labels of the same IDN are the same host;
  IPv6 literals are compared as addresses (any textual form), and must be bracketed inside a URL / authority;
* an absent port, an empty port and the scheme's default port are the same; leading zeros are ignored;
* an empty path is "/"; a delimiter "?" or "#" followed by an empty component is ignored (urllib-level
  equivalence; an empty query reaches an origin server as the same empty QUERY_STRING, a fragment is never sent);
* everything else in path, query and fragment is compared literally (no percent-normalisation, no dot-segment
  removal) -- in particular ";" is an ordinary path character.
"""
from __future__ import annotations

import ipaddress
import re

import idna

DEFAULT_PORT = {"http": 80, "https": 443}


class RefURLError(Exception):
    pass


_URL = re.compile(r"^(?P<scheme>[A-Za-z][A-Za-z0-9+.\-]*)://(?P<authority>[^/?#]*)(?P<path>[^?#]*)(?:\?(?P<query>[^#]*))?(?:#(?P<fragment>.*))?$", re.S)


def split_authority(auth: str) -> tuple[str, bool, str | None]:
    """-> (host text, was bracketed, port text or None). No userinfo support (not generated)."""
    if "@" in auth:
        raise RefURLError(f"userinfo not expected: {auth!r}")
    if auth.startswith("["):
        end = auth.find("]")
        if end < 0:
            raise RefURLError(f"unterminated IP literal: {auth!r}")
        host, rest = auth[1:end], auth[end + 1 :]
        if rest == "":
            return host, True, None
        if not rest.startswith(":"):
            raise RefURLError(f"garbage after IP literal: {auth!r}")
        return host, True, rest[1:]
    if auth.count(":") > 1:
        raise RefURLError(f"more than one ':' outside brackets (unbracketed IPv6?): {auth!r}")
    if ":" in auth:
        host, port = auth.split(":", 1)
        return host, False, port
    return auth, False, None


def norm_host(host: str, bracketed: bool | None = None) -> tuple[str, str]:
    """Canonical key of a host: ('ip6', compressed) / ('ip4', dotted) / ('name', lower-case A-label form)."""
    if host == "":
        raise RefURLError("empty host")
    if bracketed or (bracketed is None and ":" in host):
        try:
            return "ip6", ipaddress.IPv6Address(host).compressed
        except ValueError as e:
            raise RefURLError(f"bad IPv6 literal {host!r}: {e}") from None
    try:
        return "ip4", str(ipaddress.IPv4Address(host))
    except ValueError:
        pass
    labels = []
    for lab in host.split("."):
        if lab.isascii():
            labels.append(lab.lower())
        else:
            try:
                labels.append(idna.encode(lab, uts46=True).decode("ascii").lower())
            except idna.IDNAError as e:
                raise RefURLError(f"bad IDN label {lab!r}: {e}") from None
    return "name", ".".join(labels)


def norm_port(port: str | None, scheme: str) -> int | None:
    if port is None or port == "":
        return DEFAULT_PORT.get(scheme)
    if not (port.isascii() and port.isdigit()):
        raise RefURLError(f"bad port {port!r}")
    p = int(port)
    if not 0 <= p <= 65535:
        raise RefURLError(f"port out of range {port!r}")
    return p


def norm_target(path: str, query: str | None, fragment: str | None) -> str:
    t = path if path.startswith("/") else "/" + path
    if query:
        t += "?" + query
    if fragment:
        t += "#" + fragment
    return t


def parse_url(u: str) -> dict:
    m = _URL.match(u)
    if not m:
        raise RefURLError(f"not an absolute URL with authority: {u!r}")
    scheme = m["scheme"].lower()
    host, bracketed, port = split_authority(m["authority"])
    return {
        "scheme": scheme,
        "host": norm_host(host, bracketed),
        "port": norm_port(port, scheme),
        "target": norm_target(m["path"], m["query"], m["fragment"]),
    }


def parse_hostport(value: str, scheme: str) -> tuple[tuple[str, str], int | None]:
    """Host header / :authority value -> (host key, effective port)."""
    host, bracketed, port = split_authority(value)
    return norm_host(host, bracketed), norm_port(port, scheme)


# --- input predicates for mechanism classification ------------------------------------------------

def host_is_ipv6(host: str) -> bool:
    try:
        ipaddress.IPv6Address(host.strip("[]"))
        return True
    except ValueError:
        return False


def host_is_idn(host: str) -> bool:
    """Some label is a U-label or an A-label of a non-ASCII name."""
    for lab in host.split("."):
        if not lab.isascii():
            return True
        if lab.lower().startswith("xn--"):
            try:
                if not idna.decode(lab.lower()).isascii():
                    return True
            except idna.IDNAError:
                return True
    return False
