"""Reference model for property C44 (transactional, typed options with config round-trip).  No mitmproxy imports.

Option kinds: "bool" "str" "int" "optstr" "optint" "seqstr".  The model predicts, for every operation, whether it must be
accepted or must raise (and which class of error), and what the option values are afterwards: an operation that raises
leaves every value untouched; an accepted one assigns exactly the given names.
"""
from __future__ import annotations

KINDS = ("bool", "str", "int", "optstr", "optint", "seqstr")


def conforms(value, kind) -> bool:
    """Is value of the declared type?  (Python's notion: bool is an int.)"""
    if kind == "bool":
        return isinstance(value, bool)
    if kind == "str":
        return isinstance(value, str)
    if kind == "int":
        return isinstance(value, int)
    if kind == "optstr":
        return value is None or isinstance(value, str)
    if kind == "optint":
        return value is None or isinstance(value, int)
    if kind == "seqstr":
        return isinstance(value, (list, tuple)) and all(isinstance(x, str) for x in value)
    raise ValueError(kind)


class SetError(Exception):
    """A set-spec is malformed (the real code must raise OptionsError)."""


def parse_setval(kind, current, values):
    """Documented meaning of `option=value` specs: values = the list of strings given for one option name."""
    if kind == "seqstr":
        return list(values)
    if len(values) > 1:
        raise SetError("multiple values")
    s = values[0] if values else None
    if kind in ("str", "optstr"):
        if kind == "str" and s is None:
            raise SetError("required")
        return s
    if kind in ("int", "optint"):
        if s:
            try:
                return int(s)
            except ValueError:
                raise SetError("not an integer")
        if kind == "int":
            raise SetError("required")
        return None
    if kind == "bool":
        if s == "toggle":
            return not current
        if not s or s == "true":
            return True
        if s == "false":
            return False
        raise SetError("bad bool")
    raise ValueError(kind)


def same(a, b) -> bool:
    """Value equality that does not distinguish list from tuple (YAML has one sequence type) but does distinguish
    bool from int and str from everything else."""
    if isinstance(a, (list, tuple)) and isinstance(b, (list, tuple)):
        return len(a) == len(b) and all(same(x, y) for x, y in zip(a, b))
    if isinstance(a, bool) != isinstance(b, bool):
        return False
    return type(a) is type(b) and a == b


class Rule:
    """A listener's acceptance rule: predicate over the option values it can see."""

    def __init__(self, name, scope, pred):
        self.name = name
        self.scope = scope  # None = connected to .changed (sees everything); else the subscribe() list
        self.pred = pred  # values dict -> True if the listener REJECTS

    def hears(self, names) -> bool:
        return self.scope is None or bool(set(self.scope) & set(names))

    def rejects(self, values) -> bool:
        try:
            return bool(self.pred(values))
        except (KeyError, TypeError):
            return False


class OptModel:
    def __init__(self):
        self.kinds: dict[str, str] = {}
        self.defaults: dict[str, object] = {}
        self.values: dict[str, object] = {}
        self.rules: list[Rule] = []
        self.deferred: dict[str, object] = {}  # name -> value | ("specs", [str])

    def add_option(self, name, kind, default):
        self.kinds[name] = kind
        self.defaults[name] = default
        self.values[name] = default

    def predict(self, assign: dict):
        """Outcome of assigning exactly these known options: ("ok", names) | ("TypeError",) | ("OptionsError", rule)."""
        for k, v in assign.items():
            if not conforms(v, self.kinds[k]):
                return ("TypeError",)
        new = dict(self.values)
        new.update(assign)
        for r in self.rules:
            if r.hears(assign.keys()) and r.rejects(new):
                return ("OptionsError", r.name)
        return ("ok", set(assign))

    def commit(self, assign):
        self.values.update(assign)

    def non_default(self):
        return {k: v for k, v in self.values.items() if not same(v, self.defaults[k])}
