"""Reference model for property C44 (transactional, typed options with config round-trip).  No mitmproxy imports.

Option kinds: "bool" "str" "int" "optstr" "optint" "seqstr".  The model predicts, for every operation, whether it must be
accepted or must raise (and which class of error), and what the option values are afterwards: an operation that raises
leaves every value untouched; an accepted one assigns exactly the given names.
"""
from __future__ import annotations

KINDS = ("bool", "str", "int", "optstr", "optint", "seqstr")


def conforms(value, kind) -> bool:
    """Is value of the declared type?  (Python's notion: bool is an int.)"""
    if kind == "bool":
        return isinstance(value, bool)
    if kind == "str":
        return isinstance(value, str)
    if kind == "int":
        return isinstance(value, int)
    if kind == "optstr":
        return value is None or isinstance(value, str)
    if kind == "optint":
        return value is None or isinstance(value, int)
    if kind == "seqstr":
        return isinstance(value, (list, tuple)) and all(isinstance(x, str) for x in value)
    raise ValueError(kind)


class SetError(Exception):
    """A set-spec is malformed (the real code must raise OptionsError)."""


def parse_setval(kind, current, values):
    """Documented meaning of `option=value` specs: values = the list of strings given for one option name."""
    if kind == "seqstr":
        return list(values)
    if len(values) > 1:
        raise SetError("multiple values")
    s = values[0] if values else None
    if kind in ("str", "optstr"):
        if kind == "str" and s is None:
            raise SetError("required")
        return s
    if kind in ("int", "optint"):
        if s:
            try:
                return int(s)
            except ValueError:
                raise SetError("not an integer")
        if kind == "int":
            raise SetError("required")
        return None
    if kind == "bool":
        if s == "toggle":
            return not current
        if not s or s == "true":
            return True
        if s == "false":
            return False
        raise SetError("bad bool")
    raise ValueError(kind)


def same(a, b) -> bool:
    """Value equality that does not distinguish list from tuple (YAML has one sequence type) but does distinguish
    bool from int and str from everything else."""
    if isinstance(a, (list, tuple)) and isinstance(b, (list, tuple)):
        return len(a) == len(b) and all(same(x, y) for x, y in zip(a, b))
    if isinstance(a, bool) != isinstance(b, bool):
        return False
    return type(a) is type(b) and a == b


class Rule:
    """A listener's acceptance rule: predicate over the option values it can see."""

    def __init__(self, name, scope, pred):
        self.name = name
        self.scope = scope  # None = connected to .changed (sees everything); else the subscribe() list
        self.pred = pred  # values dict -> True if the listener REJECTS

    def hears(self, names) -> bool:
        return self.scope is None or bool(set(self.scope) & set(names))

    def rejects(self, values) -> bool:
        try:
            return bool(self.pred(values))
        except (KeyError, TypeError):
            return False


class Cascade:
    """A listener that derives one option from another: subscribed to `src`; whenever `src` is among the updated names and
    its value is truthy it performs a nested update dst := f(src value).  It never reacts to a falsy src, so it does not
    undo its derived value when it is re-notified with a restored state."""

    def __init__(self, name, src, dst, f):
        self.name = name
        self.src = src
        self.dst = dst
        self.f = f

    def fires(self, names, values) -> bool:
        return self.src in names and bool(values[self.src])


class OptModel:
    def __init__(self):
        self.kinds: dict[str, str] = {}
        self.defaults: dict[str, object] = {}
        self.values: dict[str, object] = {}
        self.rules: list[Rule] = []
        self.cascades: list[Cascade] = []
        self.deferred: dict[str, object] = {}  # name -> value | ("specs", [str])

    def add_option(self, name, kind, default):
        self.kinds[name] = kind
        self.defaults[name] = default
        self.values[name] = default

    def derived(self, assign: dict) -> dict:
        """Options that cascading listeners set in reaction to an accepted assignment of exactly these names."""
        new = dict(self.values)
        new.update(assign)
        return {c.dst: c.f(new[c.src]) for c in self.cascades if c.fires(assign.keys(), new)}

    def predict(self, assign: dict):
        """Outcome of assigning exactly these known options:
        ("ok", names, derived) | ("TypeError",) | ("OptionsError", rule).
        A rejected assignment changes nothing at all -- neither the assigned names nor anything a listener derived."""
        for k, v in assign.items():
            if not conforms(v, self.kinds[k]):
                return ("TypeError",)
        derived = self.derived(assign)
        new = dict(self.values)
        new.update(assign)
        new.update(derived)
        for r in self.rules:
            # a rule hears the outer update if it is in scope, and every nested update of a derived option if it is global
            if (r.hears(assign.keys()) or (derived and r.scope is None)) and r.rejects(new):
                return ("OptionsError", r.name)
        return ("ok", set(assign), derived)

    def commit(self, assign, derived=None):
        self.values.update(assign)
        self.values.update(derived or {})

    def non_default(self):
        return {k: v for k, v in self.values.items() if not same(v, self.defaults[k])}
