"""Independent RFC 9112 HTTP/1.x message parser used as the wire-boundary oracle.

Written from the RFC; imports nothing from mitmproxy or h11.  Three-valued results:
    ("ok", messages, rest)      every byte consumed (rest == b"") or a trailing incomplete message
    ("incomplete", messages, rest)
    ("reject", messages, reason)   framing faulty / ambiguous at message len(messages)

A message is a dict: kind, method/target/version or version/status/reason, headers (list of
(name_lower:str, value:bytes) with OWS trimmed and obs-fold -> SP), body (bytes), trailers, framing
("none" | "cl" | "chunked" | "eof" | "tunnel"), raw_head.

`strict` (used for bytes mitmproxy emits): CRLF line ends only, no whitespace before ':'.
`lenient` (used to *classify client input*): additionally accepts bare LF and reports features.
"""
from __future__ import annotations

import re

TOKEN = re.compile(rb"^[!#$%&'*+\-.^_`|~0-9A-Za-z]+$")
VERSION = re.compile(rb"^HTTP/(\d)\.(\d)$")
DIGITS = re.compile(rb"^[0-9]+$")
HEX = re.compile(rb"^[0-9A-Fa-f]+$")


class Reject(Exception):
    pass


class Incomplete(Exception):
    pass


def _read_line(buf: bytes, pos: int, lenient: bool):
    """Return (line_without_eol, newpos). Raises Incomplete."""
    i = buf.find(b"\n", pos)
    if i < 0:
        raise Incomplete()
    if i > pos and buf[i - 1 : i] == b"\r":
        return buf[pos : i - 1], i + 1
    if lenient:
        return buf[pos:i], i + 1
    raise Reject("bare LF line ending")


def _read_fields(buf, pos, lenient):
    fields = []
    while True:
        line, pos = _read_line(buf, pos, lenient)
        if line == b"":
            return fields, pos
        if line[:1] in b" \t":
            if not fields:
                raise Reject("leading whitespace before first field")
            # obs-fold: replace by SP
            n, v = fields[-1]
            fields[-1] = (n, (v + b" " + line.strip(b" \t")).strip(b" \t"))
            continue
        if b":" not in line:
            raise Reject(f"field line without colon: {line[:40]!r}")
        name, value = line.split(b":", 1)
        if not TOKEN.match(name):
            raise Reject(f"invalid field name: {name[:40]!r}")
        fields.append((name.decode("ascii").lower(), value.strip(b" \t")))


def _get_all(fields, name):
    return [v for n, v in fields if n == name]


def _te_codings(fields):
    vals = _get_all(fields, "transfer-encoding")
    codings = []
    for v in vals:
        for c in v.split(b","):
            c = c.strip(b" \t").lower()
            if c:
                codings.append(c)
    return vals, codings


def _content_length(fields):
    vals = _get_all(fields, "content-length")
    if not vals:
        return None
    nums = []
    for v in vals:
        for part in v.split(b","):
            part = part.strip(b" \t")
            if not DIGITS.match(part):
                raise Reject(f"invalid Content-Length: {v[:40]!r}")
            nums.append(int(part))
    if len(set(nums)) != 1:
        raise Reject("conflicting Content-Length values")
    return nums[0]


def _read_chunked(buf, pos, lenient):
    body = bytearray()
    while True:
        line, pos = _read_line(buf, pos, lenient)
        size_part = line.split(b";", 1)[0].strip(b" \t")
        if not HEX.match(size_part):
            raise Reject(f"invalid chunk size: {line[:40]!r}")
        size = int(size_part, 16)
        if size == 0:
            trailers, pos = _read_fields(buf, pos, lenient)
            return bytes(body), trailers, pos
        if len(buf) < pos + size + 2:
            raise Incomplete()
        body += buf[pos : pos + size]
        pos += size
        if buf[pos : pos + 2] == b"\r\n":
            pos += 2
        elif lenient and buf[pos : pos + 1] == b"\n":
            pos += 1
        else:
            raise Reject("chunk data not followed by CRLF")


def parse_request(buf: bytes, pos: int = 0, lenient=False):
    """Parse one request starting at pos -> (message, newpos)."""
    start = pos
    # RFC 9112 2.2: a server SHOULD ignore at least one empty line before the request-line
    while True:
        line, npos = _read_line(buf, pos, lenient)
        if line == b"":
            pos = npos
            continue
        break
    pos = npos
    # RFC 9112 3: strict = single SP; lenient recipients MAY split on any whitespace (SP, HTAB, VT, FF, bare CR)
    parts = line.split() if lenient else line.split(b" ")
    if len(parts) != 3:
        raise Reject(f"malformed request line: {line[:60]!r}")
    method, target, version = parts
    if not TOKEN.match(method):
        raise Reject("invalid method")
    m = VERSION.match(version)
    if not m:
        raise Reject("invalid HTTP version")
    if not target or any(c <= 0x20 or c == 0x7F for c in target):
        raise Reject("invalid request target")
    fields, pos = _read_fields(buf, pos, lenient)
    head_end = pos
    msg = {
        "kind": "request",
        "method": method.decode("ascii"),
        "target": target,
        "version": version.decode("ascii"),
        "headers": fields,
        "trailers": [],
    }
    te_vals, codings = _te_codings(fields)
    has_cl = bool(_get_all(fields, "content-length"))
    if te_vals:
        if m.group(1) == b"1" and m.group(2) == b"0":
            raise Reject("Transfer-Encoding in HTTP/1.0 message")
        if has_cl:
            raise Reject("both Transfer-Encoding and Content-Length")
        if not codings or codings[-1] != b"chunked":
            raise Reject("request Transfer-Encoding does not end in chunked")
        if codings.count(b"chunked") > 1:
            raise Reject("chunked applied twice")
        body, trailers, pos = _read_chunked(buf, pos, lenient)
        msg.update(body=body, trailers=trailers, framing="chunked")
    else:
        n = _content_length(fields)
        if n is None:
            msg.update(body=b"", framing="none")
        else:
            if len(buf) < pos + n:
                raise Incomplete()
            msg.update(body=buf[pos : pos + n], framing="cl")
            pos += n
    msg["raw_head"] = buf[start:head_end]
    return msg, pos


def parse_requests(buf: bytes, lenient=False):
    msgs = []
    pos = 0
    while pos < len(buf):
        if buf[pos:].strip(b"\r\n") == b"":
            pos = len(buf)
            break
        try:
            msg, pos = parse_request(buf, pos, lenient)
        except Incomplete:
            return "incomplete", msgs, buf[pos:]
        except Reject as e:
            return "reject", msgs, str(e)
        msgs.append(msg)
        if msg["method"] == "CONNECT":
            break
    return "ok", msgs, buf[pos:]


def parse_response(buf: bytes, pos: int, request_method: str, eof: bool, lenient=False):
    start = pos
    line, pos = _read_line(buf, pos, lenient)
    parts = line.split(b" ", 2)
    if len(parts) < 2:
        raise Reject(f"malformed status line: {line[:60]!r}")
    version, status = parts[0], parts[1]
    reason = parts[2] if len(parts) > 2 else b""
    m = VERSION.match(version)
    if not m:
        raise Reject("invalid HTTP version in status line")
    if not re.match(rb"^[0-9]{3}$", status):
        raise Reject("invalid status code")
    code = int(status)
    fields, pos = _read_fields(buf, pos, lenient)
    head_end = pos
    msg = {"kind": "response", "version": version.decode(), "status": code, "reason": reason, "headers": fields, "trailers": []}
    if request_method.upper() == "HEAD" or 100 <= code < 200 or code in (204, 304):
        msg.update(body=b"", framing="none")
    elif request_method.upper() == "CONNECT" and 200 <= code < 300:
        msg.update(body=b"", framing="tunnel")
    else:
        te_vals, codings = _te_codings(fields)
        has_cl = bool(_get_all(fields, "content-length"))
        if te_vals:
            if (m.group(1), m.group(2)) == (b"1", b"0"):
                raise Reject("Transfer-Encoding in HTTP/1.0 message")
            if has_cl:
                raise Reject("both Transfer-Encoding and Content-Length")
            if codings and codings[-1] == b"chunked":
                body, trailers, pos = _read_chunked(buf, pos, lenient)
                msg.update(body=body, trailers=trailers, framing="chunked")
            else:
                if not eof:
                    raise Incomplete()
                msg.update(body=buf[pos:], framing="eof")
                pos = len(buf)
        else:
            n = _content_length(fields)
            if n is None:
                if not eof:
                    raise Incomplete()
                msg.update(body=buf[pos:], framing="eof")
                pos = len(buf)
            else:
                if len(buf) < pos + n:
                    raise Incomplete()
                msg.update(body=buf[pos : pos + n], framing="cl")
                pos += n
    msg["raw_head"] = buf[start:head_end]
    return msg, pos


def parse_responses(buf: bytes, request_methods, eof: bool, lenient=False):
    """Parse the response stream for the given request methods (in order). 1xx responses are interim
    (they do not consume a request) except 101."""
    msgs = []
    pos = 0
    qi = 0
    while pos < len(buf):
        method = request_methods[qi] if qi < len(request_methods) else "GET"
        try:
            msg, pos = parse_response(buf, pos, method, eof, lenient)
        except Incomplete:
            return "incomplete", msgs, buf[pos:]
        except Reject as e:
            return "reject", msgs, str(e)
        msg["for_request"] = qi
        msgs.append(msg)
        if msg["framing"] == "tunnel" or msg["status"] == 101:
            msg["after"] = buf[pos:]
            pos = len(buf)
            break
        if not (100 <= msg["status"] < 200):
            qi += 1
    return "ok", msgs, buf[pos:]


# ---------------------------------------------------------------------------------------------
# classification of a *client input* head (is its framing ambiguous per RFC 9112 / the property?)
# ---------------------------------------------------------------------------------------------

def classify_request_input(raw_head_and_body: bytes):
    """Return (verdict, reason) with verdict in {'unambiguous','ambiguous','incomplete'} using the lenient reader.
    'ambiguous' = conflicting or malformed Content-Length / Transfer-Encoding, invalid field names, whitespace
    before colon, TE on HTTP/1.0, TE+CL -- the class the property says must be rejected, never forwarded."""
    try:
        parse_request(raw_head_and_body, 0, lenient=True)
    except Incomplete:
        return "incomplete", ""
    except Reject as e:
        return "ambiguous", str(e)
    return "unambiguous", ""


def norm_headers(fields):
    """(lower-name, value) with OWS trimmed, bare CR / NUL replaced by SP (DESIGN 3.1)."""
    out = []
    for n, v in fields:
        if isinstance(n, bytes):
            n = n.decode("latin-1")
        v = v.replace(b"\r\n ", b" ").replace(b"\r\n\t", b" ")
        v = v.replace(b"\r", b" ").replace(b"\x00", b" ").strip(b" \t")
        out.append((n.lower(), v))
    return out
