"""Reference for C20: HTTP Basic credentials (RFC 7617 / RFC 9110 11.4), reference validators, RFC 1929 SOCKS5 auth.

Written from the RFCs, stdlib only, nothing imported from mitmproxy.

parse_basic(value) -> ("ok", user, password)      strict reading succeeded
                      ("invalid", reason)          no credentials under the strict reading
lenient_basic(value) -> (user, password) | None    the most tolerant reading a lenient recipient could make
                      (any whitespace as separator, junk after the token ignored, non-alphabet octets skipped, missing
                      padding supplied, undecodable UTF-8 replaced).  Used only to decide whether a strict-invalid
                      presentation is *definitely* not a credential the validator accepts (DESIGN 3.7).
"""
from __future__ import annotations

import base64
import hashlib
import re

TOKEN68 = re.compile(r"^[A-Za-z0-9\-._~+/]+=*$")
B64_ALPHABET = set("ABCDEFGHIJKLMNOPQRSTUVWXYZabcdefghijklmnopqrstuvwxyz0123456789+/")


def parse_basic(value: str | None):
    if value is None:
        return ("invalid", "no header")
    # credentials = auth-scheme 1*SP token68   (OWS around the field value is already trimmed by the field parser)
    m = re.match(r"^([!#$%&'*+\-.^_`|~0-9A-Za-z]+) +(\S.*)$", value)
    if not m:
        return ("invalid", "not 'scheme SP token68'")
    scheme, token = m.group(1), m.group(2)
    if scheme.lower() != "basic":
        return ("invalid", "scheme is not Basic")
    if not TOKEN68.match(token):
        return ("invalid", "not a token68")
    if len(token) % 4 != 0:
        return ("invalid", "base64 length not a multiple of 4")
    try:
        raw = base64.b64decode(token, validate=True)
    except Exception:
        return ("invalid", "base64 does not decode")
    try:
        text = raw.decode("utf-8")
    except UnicodeDecodeError:
        return ("invalid", "user-pass is not UTF-8")
    if ":" not in text:
        return ("invalid", "no colon in user-pass")
    user, password = text.split(":", 1)  # RFC 7617: the user-id cannot contain a colon, the password can
    return ("ok", user, password)


def lenient_basic(value: str | None):
    if not value:
        return None
    parts = value.split()
    if len(parts) < 2 or parts[0].lower() != "basic":
        return None
    token = "".join(c for c in parts[1].split("=")[0] if c in B64_ALPHABET)
    token = token[: len(token) - (1 if len(token) % 4 == 1 else 0)]
    token += "=" * (-len(token) % 4)
    try:
        raw = base64.b64decode(token)
    except Exception:
        return None
    text = raw.decode("utf-8", "replace")
    if ":" not in text:
        return None
    u, p = text.split(":", 1)
    return u, p


class RefAny:
    kind = "any"

    def __call__(self, user, password):
        return True


class RefSingle:
    kind = "single"

    def __init__(self, user, password):
        self.user, self.password = user, password

    def __call__(self, user, password):
        return user == self.user and password == self.password


BCRYPT_B64 = "./ABCDEFGHIJKLMNOPQRSTUVWXYZabcdefghijklmnopqrstuvwxyz0123456789"


class RefHtpasswd:
    """Accepts exactly the pairs of the htpasswd file it wrote: {SHA} = base64(sha1(password)) (Apache documentation) or,
    for the users in `bcrypt_users`, a $2b$ hash made with the bcrypt library (cost 4, salt drawn from `rng`).
    The reference decision never hashes anything: it compares with the plaintext pairs."""

    kind = "htpasswd"

    def __init__(self, pairs: dict, bcrypt_users=(), rng=None):
        self.pairs = dict(pairs)
        self.bcrypt_users = set(bcrypt_users)
        self.rng = rng

    def file_content(self) -> str:
        lines = ["# generated for C20"]
        for u, p in self.pairs.items():
            if u in self.bcrypt_users:
                import bcrypt

                salt = "$2b$04$" + "".join(self.rng.choice(BCRYPT_B64) for _ in range(21)) + self.rng.choice(".Oeu")
                lines.append(u + ":" + bcrypt.hashpw(p.encode("utf-8"), salt.encode("ascii")).decode("ascii"))
            else:
                lines.append(u + ":{SHA}" + base64.b64encode(hashlib.sha1(p.encode("utf-8")).digest()).decode("ascii"))
        return "\n".join(lines) + "\n"

    def __call__(self, user, password):
        return user in self.pairs and self.pairs[user] == password


def expectation(value: str | None, validator) -> str:
    """'accept' | 'refuse' | 'either' for one presented header value."""
    st = parse_basic(value)
    if st[0] == "ok":
        return "accept" if validator(st[1], st[2]) else "refuse"
    le = lenient_basic(value)
    if le is not None and validator(*le):
        return "either"
    return "refuse"


# ---- RFC 1928 / 1929 ---------------------------------------------------------------------------

def socks5_greeting(methods) -> bytes:
    return bytes([5, len(methods), *methods])


def socks5_userpass(user: str, password: str) -> bytes:
    u, p = user.encode("utf-8"), password.encode("utf-8")
    assert 0 < len(u) < 256 and len(p) < 256
    return bytes([1, len(u)]) + u + bytes([len(p)]) + p


def socks5_connect(host: str, port: int) -> bytes:
    h = host.encode("ascii")
    return b"\x05\x01\x00\x03" + bytes([len(h)]) + h + port.to_bytes(2, "big")
