"""Helpers for C32: own reading of a Content-Type value and input predicates used ONLY to classify a
failed round trip into a mechanism (never as the oracle -- the oracle is ``m.text == s``)."""
from __future__ import annotations

import codecs
import re

CONTENT_CODINGS = ("identity", "none", "gzip", "deflate", "deflateraw", "br", "zstd")
BOMS = (b"\x00\x00\xfe\xff", b"\xff\xfe\x00\x00", b"\xfe\xff", b"\xff\xfe", b"\xef\xbb\xbf")


def charset_param(ct: str | None) -> str | None:
    """Value of a parameter spelled exactly ``charset`` (after trimming), as mitmproxy's documented parser reads it."""
    if not ct or "/" not in ct.split(";", 1)[0]:
        return None
    val = None
    for part in ct.split(";")[1:]:
        if "=" in part:
            k, v = part.split("=", 1)
            if k.strip() == "charset":
                val = v.strip()
    return val or None


def is_text_codec(name: str) -> bool:
    """True if `name` is a Python codec that maps str -> bytes (a usable charset)."""
    try:
        ci = codecs.lookup(name)
    except Exception:
        return False
    try:
        out = ci.encode("a")[0]
    except TypeError:
        return False
    except Exception:
        return True
    return isinstance(out, bytes)


def names_non_text_codec(name: str | None) -> bool:
    """The charset value resolves to something that is not a str->bytes codec (content codings, hex, rot13, ...)."""
    if not name:
        return False
    n = name.lower()
    if n in CONTENT_CODINGS:
        return True
    try:
        codecs.lookup(n)
    except Exception:
        return False
    return not is_text_codec(n)


def canonical(name: str | None) -> str | None:
    try:
        return codecs.lookup(name).name if name else None
    except Exception:
        return None


def has_surrogates(s: str) -> bool:
    return any(0xD800 <= ord(c) <= 0xDFFF for c in s)


def setter_codec(ct: str | None, s: str) -> str:
    """Codec the setter is documented to use: declared charset, else utf-8 for json/html/xml/js/css, else latin-1;
    gb2312/gbk widened to gb18030; utf-8 when the text is not representable."""
    ct = ct or ""
    enc = charset_param(ct)
    if not enc:
        if any(k in ct for k in ("json", "html", "xml", "javascript", "ecmascript", "text/css")):
            enc = "utf-8"
        else:
            enc = "latin-1"
    if enc.lower() in ("gb2312", "gbk"):
        enc = "gb18030"
    try:
        s.encode(enc)
    except Exception:
        enc = "utf-8"
    return enc


def encoded_starts_with_bom(ct: str | None, s: str) -> bool:
    try:
        b = s.encode(setter_codec(ct, s), "surrogateescape")
    except Exception:
        return False
    return b.startswith(BOMS)


_META = re.compile(r"<meta[^>]+charset=", re.I)
_XML = re.compile(r"<\?xml[^?>]+encoding=", re.I)
_CSS = re.compile(r'@charset "', re.I)


def in_body_declaration(ct: str | None, s: str) -> str | None:
    """Kind of in-body charset declaration that applies: header has no charset parameter and the media type is one
    whose body may declare it."""
    ct = ct or ""
    if charset_param(ct) or "json" in ct:
        return None
    if "html" in ct:
        return "meta" if _META.search(s) else None
    if "xml" in ct:
        return "xmldecl" if _XML.search(s) else None
    if "javascript" in ct or "ecmascript" in ct:
        return None
    if "text/css" in ct and _CSS.match(s):
        return "css"
    return None


def classify(ct: str | None, s: str, failed: str) -> str | None:
    """Mechanism of a failed text round trip, from the input (content type before assignment, string) and which
    monitor failed: 'set' (the setter raised) or 'get' (the getter raised or returned another string)."""
    cs = charset_param(ct)
    if failed == "set":
        # the setter is total on the domain except when the charset is not a str->bytes codec at all
        return "charset-names-non-text-codec" if names_non_text_codec(cs) else None
    if has_surrogates(s):
        return "text-has-surrogate-escapes"
    if encoded_starts_with_bom(ct, s):
        # includes charset=utf-16 / utf-32, whose codecs write a BOM themselves
        if canonical(cs) in ("utf-16", "utf-32") and setter_codec(ct, s) == cs:
            return "charset-utf-16-or-32-writes-bom"
        return "encoded-text-starts-with-bom-bytes"
    if in_body_declaration(ct, s):
        return "in-body-charset-declaration"
    return None
