"""Private DNS wire-format reference for C50 (and the DNS flows of C49).  Written from RFC 1035 / 3597 / 2782;
imports nothing from mitmproxy.

encode(): builds wire bytes from an explicit description (the generator decides where compression pointers go).
decode(): parses wire bytes into a canonical, comparable structure:

    {"id", "qr", "opcode", "aa", "tc", "rd", "ra", "z" (3 reserved/AD/CD bits), "rcode",
     "questions": [(name, qtype, qclass)], "answers"/"authorities"/"additionals": [(name, type, class, ttl, rdata)]}

name  = tuple of labels (bytes, ASCII-lower-cased: DNS names compare case-insensitively)
rdata = ("opaque", bytes) or, for the RFC 1035 / 3597 "well-known" types whose RDATA embeds domain names that may be
        compressed, a structural tuple with the names expanded, e.g. ("names", (name,)) / ("mx", pref, name) /
        ("soa", mname, rname, bytes20) / ("srv", bytes6, name).
"""
from __future__ import annotations

import struct


class DecodeError(Exception):
    pass


A, NS, MD, MF, CNAME, SOA, MB, MG, MR, NULL, WKS, PTR, HINFO, MINFO, MX, TXT = range(1, 17)
RP, AFSDB = 17, 18
RT = 21
AAAA = 28
SRV = 33
KX = 36
DNAME = 39
OPT = 41
HTTPS = 65

ONE_NAME = {NS, MD, MF, CNAME, MB, MG, MR, PTR}
U16_NAME = {MX, AFSDB, RT, KX}
TWO_NAMES = {MINFO, RP}


# ------------------------------------------------------------------------------------------------
# encoding
# ------------------------------------------------------------------------------------------------

def enc_name(labels, pointer=None) -> bytes:
    """labels: iterable of bytes (each 1..63); pointer: None (terminate with root) or an offset to point at."""
    out = bytearray()
    for lab in labels:
        assert 0 < len(lab) < 64
        out.append(len(lab))
        out += lab
    if pointer is None:
        out.append(0)
    else:
        out += struct.pack("!H", 0xC000 | pointer)
    return bytes(out)


def flags_word(qr=0, opcode=0, aa=0, tc=0, rd=0, ra=0, z=0, rcode=0) -> int:
    return (qr << 15) | (opcode << 11) | (aa << 10) | (tc << 9) | (rd << 8) | (ra << 7) | (z << 4) | rcode


def encode(id, flags, questions, answers=(), authorities=(), additionals=(), counts=None) -> bytes:
    """questions: [(name_bytes, qtype, qclass)]; rr: [(name_bytes, type, class, ttl, rdata_bytes)].
    name_bytes are already wire-encoded (use enc_name) so that the caller controls compression."""
    c = counts or (len(questions), len(answers), len(authorities), len(additionals))
    out = bytearray(struct.pack("!HHHHHH", id, flags, *c))
    for n, t, k in questions:
        out += n + struct.pack("!HH", t, k)
    for sec in (answers, authorities, additionals):
        for n, t, k, ttl, rd in sec:
            out += n + struct.pack("!HHIH", t, k, ttl, len(rd)) + rd
    return bytes(out)


# ------------------------------------------------------------------------------------------------
# decoding
# ------------------------------------------------------------------------------------------------

NOTES: set = set()  # filled by decode(): coarse wire features used only to *classify* findings ("pointer-to-root")


def _name(buf: bytes, off: int, allow_ptr=True, limit=True):
    """-> (labels tuple (lower-cased), offset after the name in the original position)."""
    labels = []
    jumps = 0
    end = None
    total = 0
    since_jump = 0
    while True:
        if off >= len(buf):
            raise DecodeError("name runs past buffer")
        ln = buf[off]
        if ln & 0xC0 == 0xC0:
            if not allow_ptr:
                raise DecodeError("pointer not allowed here")
            if off + 2 > len(buf):
                raise DecodeError("truncated pointer")
            ptr = struct.unpack_from("!H", buf, off)[0] & 0x3FFF
            if end is None:
                end = off + 2
            jumps += 1
            if jumps > 64:
                raise DecodeError("pointer loop")
            off = ptr
            since_jump = 0
            continue
        if ln & 0xC0:
            raise DecodeError("reserved label type")
        off += 1
        if ln == 0:
            if jumps and since_jump == 0 and labels:
                NOTES.add("pointer-to-root")  # labels followed by a pointer that lands on the root name
            break
        if off + ln > len(buf):
            raise DecodeError("label runs past buffer")
        since_jump += 1
        labels.append(bytes(buf[off : off + ln]).lower())
        total += ln + 1
        if total > 255:
            if limit:
                raise DecodeError("name too long")
            NOTES.add("rdata-name-over-255-octets")  # embedded names are expanded even when over-long (only compared / classified)
        off += ln
    return tuple(labels), (end if end is not None else off)


def _rdata(buf: bytes, off: int, end: int, typ: int):
    raw = bytes(buf[off:end])
    try:
        if typ in ONE_NAME:
            n, o = _name(buf[:end], off, limit=False)
            if o != end:
                raise DecodeError("trailing rdata")
            return ("names", (n,))
        if typ in U16_NAME:
            if end - off < 3:
                raise DecodeError("short")
            n, o = _name(buf[:end], off + 2, limit=False)
            if o != end:
                raise DecodeError("trailing rdata")
            return ("u16name", raw[:2], n)
        if typ in TWO_NAMES:
            n1, o = _name(buf[:end], off, limit=False)
            n2, o = _name(buf[:end], o, limit=False)
            if o != end:
                raise DecodeError("trailing rdata")
            return ("names", (n1, n2))
        if typ == SOA:
            n1, o = _name(buf[:end], off, limit=False)
            n2, o = _name(buf[:end], o, limit=False)
            if end - o != 20:
                raise DecodeError("soa tail")
            return ("soa", n1, n2, bytes(buf[o:end]))
        if typ == SRV:
            if end - off < 7:
                raise DecodeError("short")
            n, o = _name(buf[:end], off + 6, limit=False)
            if o != end:
                raise DecodeError("trailing rdata")
            return ("srv", raw[:6], n)
    except DecodeError:
        # structurally invalid RDATA of a well-known type: RFC 3597 style opaque treatment
        return ("opaque", raw)
    return ("opaque", raw)


def https_info(raw: bytes):
    """Structure of HTTPS/SVCB RDATA (RFC 9460): (target labels, [param keys]) or None if malformed."""
    try:
        if len(raw) < 3:
            return None
        n, off = _name(raw, 2, allow_ptr=False)
        keys = []
        while off < len(raw):
            if off + 4 > len(raw):
                return None
            k, ln = struct.unpack_from("!HH", raw, off)
            off += 4
            if off + ln > len(raw):
                return None
            off += ln
            keys.append(k)
        return n, keys
    except DecodeError:
        return None


def decode(buf: bytes) -> dict:
    buf = bytes(buf)
    NOTES.clear()
    if len(buf) < 12:
        raise DecodeError("short header")
    id, fl, qd, an, ns, ar = struct.unpack_from("!HHHHHH", buf, 0)
    msg = {
        "id": id,
        "qr": fl >> 15 & 1,
        "opcode": fl >> 11 & 15,
        "aa": fl >> 10 & 1,
        "tc": fl >> 9 & 1,
        "rd": fl >> 8 & 1,
        "ra": fl >> 7 & 1,
        "z": fl >> 4 & 7,
        "rcode": fl & 15,
        "questions": [],
        "answers": [],
        "authorities": [],
        "additionals": [],
    }
    off = 12
    for _ in range(qd):
        n, off = _name(buf, off)
        if off + 4 > len(buf):
            raise DecodeError("truncated question")
        t, k = struct.unpack_from("!HH", buf, off)
        off += 4
        msg["questions"].append((n, t, k))
    for sec, cnt in (("answers", an), ("authorities", ns), ("additionals", ar)):
        for _ in range(cnt):
            n, off = _name(buf, off)
            if off + 10 > len(buf):
                raise DecodeError("truncated rr header")
            t, k, ttl, rdl = struct.unpack_from("!HHIH", buf, off)
            off += 10
            if off + rdl > len(buf):
                raise DecodeError("truncated rdata")
            msg[sec].append((n, t, k, ttl, _rdata(buf, off, off + rdl, t)))
            off += rdl
    if off != len(buf):
        raise DecodeError("trailing bytes")
    return msg


HEADER_FIELDS = ("id", "qr", "opcode", "aa", "tc", "rd", "ra", "z", "rcode")


def diff(a: dict, b: dict):
    """List of (where, a_value, b_value) differences between two decoded messages."""
    out = []
    for k in HEADER_FIELDS:
        if a[k] != b[k]:
            out.append((k, a[k], b[k]))
    for sec in ("questions", "answers", "authorities", "additionals"):
        if len(a[sec]) != len(b[sec]):
            out.append((sec + ".count", len(a[sec]), len(b[sec])))
            continue
        for i, (x, y) in enumerate(zip(a[sec], b[sec])):
            if x != y:
                out.append((f"{sec}[{i}]", x, y))
    return out
