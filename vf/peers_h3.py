"""HTTP/3 client side for engine A (written for C06; reusable).

mitmproxy's Http3Server layer sits on top of the QUIC layer and talks in QUIC *stream* events / commands
(`QuicStreamDataReceived`, `SendQuicStreamData`, `ResetQuicStream`, `StopSendingQuicStream`, `CloseQuicConnection`).  This module
replaces the QUIC transport below the HTTP layer by an in-memory one:

  H3Driver      vf.sansio.Driver that additionally understands the QUIC stream commands (handed to the client peer) and lets a
                peer enqueue ready-made QUIC stream events instead of TCP segments; a closed UDP/QUIC connection is reported as
                `QuicConnectionClosed` like the real QUIC layer does.  The top layer is the HttpLayer itself (no proxy-mode
                layer / QUIC handshake below it): `client.alpn = b"h3"`, `client.transport_protocol = "udp"`.
  RawH3Client   hand-built HTTP/3 frames: control stream with SETTINGS (QPACK table capacity 0, so every header block is
                self-contained), QPACK encoder/decoder streams, one bidirectional stream per request with HEADERS / DATA /
                trailing HEADERS frames.  Header blocks are encoded with pylsqpack WITHOUT any validation or normalisation, so
                adversarial blocks reach mitmproxy verbatim.  Everything mitmproxy sends back is decoded per stream
                (pylsqpack decoder + own frame walker) into the same records as the HTTP/2 peers (vf/peers_h2.py).
"""
from __future__ import annotations

import pylsqpack
from aioquic.h3.connection import FrameType, Setting, StreamType, encode_frame, encode_settings, encode_uint_var
from mitmproxy.proxy import commands, events
from mitmproxy.proxy.layers import quic
from mitmproxy.proxy.layers.quic._commands import QuicStreamCommand

from vf import sansio
from vf.peers_h2 import _new_record, body_of  # noqa: F401  (same per-stream record layout)
from vf.sansio import Peer


class H3Driver(sansio.Driver):
    def __init__(self, *a, **kw):
        super().__init__(*a, **kw)
        # Context() copies the client's transport protocol to the default server connection; the next hops of these legs are
        # TCP servers (HTTP/1 or HTTP/2), as with `--mode reverse:http://backend` and a QUIC client
        self.context.server.transport_protocol = "tcp"

    def feed(self, ev):
        if type(ev) is events.ConnectionClosed and ev.connection.transport_protocol == "udp" and (ev.connection.alpn or b"").startswith(b"h3"):
            ev = quic.QuicConnectionClosed(ev.connection, 0, None, "peer closed connection")
        super().feed(ev)

    def _command(self, cmd):
        if isinstance(cmd, QuicStreamCommand):
            self.log.append(("cmd", self.step_no, f"{type(cmd).__name__}({cmd.stream_id})"))
            p = self.peers.get(cmd.connection)
            if cmd.connection not in self.transports or p is None:
                return
            if isinstance(cmd, quic.SendQuicStreamData):
                self.out_log.append((self.step_no, cmd.connection, (cmd.stream_id, cmd.data, cmd.end_stream)))
                p.on_stream_data(cmd.stream_id, cmd.data, cmd.end_stream)
            elif isinstance(cmd, quic.ResetQuicStream):
                p.on_stream_reset(cmd.stream_id, cmd.error_code)
            elif isinstance(cmd, quic.StopSendingQuicStream):
                p.on_stop_sending(cmd.stream_id, cmd.error_code)
            return
        if isinstance(cmd, quic.CloseQuicConnection):
            p = self.peers.get(cmd.connection)
            if p is not None and hasattr(p, "on_quic_close"):
                p.on_quic_close(cmd.error_code, cmd.reason_phrase)
        super()._command(cmd)

    def _perform(self, act):
        if act[0] == "recv":
            q = self.inbox[act[1]]
            if q and isinstance(q[0][0], events.Event):
                ev, _ = q.popleft()
                self.feed(ev)
                return
        super()._perform(act)


def _varint(buf: bytes, pos: int):
    first = buf[pos]
    n = 1 << (first >> 6)
    if pos + n > len(buf):
        return None, pos
    v = first & 0x3F
    for i in range(1, n):
        v = (v << 8) | buf[pos + i]
    return v, pos + n


class RawH3Client(Peer):
    """script: list of
        ("headers", key, [(name, value), ...], end_stream)     first block of request `key` (stream id 4*key), later ones = trailers
        ("data", key, payload, end_stream)
        ("rst", key, error_code)
        ("eof",)
    Decoded answers: `streams[4*key]` (record as in vf/peers_h2.py), `conn_close` = (error_code, reason) if mitmproxy closed the
    QUIC connection, `decode_errors`."""

    def __init__(self, script, rng):
        super().__init__()
        self.script = list(script)
        self.rng = rng
        self.encoder = pylsqpack.Encoder()  # table capacity 0: no encoder stream instructions are ever needed
        self.decoder = pylsqpack.Decoder(0, 0)
        self.streams: dict[int, dict] = {}
        self.raw: dict[int, bytearray] = {}
        self.conn_close = None
        self.decode_errors: list[str] = []
        self.stop_sending: dict[int, int] = {}
        self.arrivals = 0
        self.sent_blocks: list = []
        self.unencodable: list[str] = []

    # -- sending
    def _stream(self, sid, data, fin=False):
        self.send(quic.QuicStreamDataReceived(self.conn, sid, data, fin))

    def on_open(self):
        self._stream(2, encode_uint_var(StreamType.CONTROL))
        self._stream(2, encode_frame(FrameType.SETTINGS, encode_settings({Setting.QPACK_MAX_TABLE_CAPACITY: 0, Setting.QPACK_BLOCKED_STREAMS: 0})))
        self._stream(6, encode_uint_var(StreamType.QPACK_ENCODER))
        self._stream(10, encode_uint_var(StreamType.QPACK_DECODER))
        eof = False
        for a in self.script:
            if a[0] == "headers":
                sid = 4 * a[1]
                try:
                    enc, frame = self.encoder.encode(sid, [(bytes(n), bytes(v)) for n, v in a[2]])
                except ValueError as e:  # ls-qpack refuses to ENCODE empty names / very long fields: not expressible by this client
                    self.unencodable.append(str(e))
                    continue
                if enc:
                    self._stream(6, enc)
                self.sent_blocks.append((sid, list(a[2])))
                self._stream(sid, encode_frame(FrameType.HEADERS, frame), a[3])
            elif a[0] == "data":
                payload = a[2]
                if payload and self.rng.random() < 0.3 and len(payload) > 1:  # the same DATA frame in two QUIC stream segments
                    fr = encode_frame(FrameType.DATA, payload)
                    k = self.rng.randrange(1, len(fr))
                    self._stream(4 * a[1], fr[:k], False)
                    self._stream(4 * a[1], fr[k:], a[3])
                else:
                    self._stream(4 * a[1], encode_frame(FrameType.DATA, payload), a[3])
            elif a[0] == "rst":
                self.send(quic.QuicStreamReset(self.conn, 4 * a[1], a[2]))
            elif a[0] == "eof":
                eof = True
        if eof:
            self.close()

    # -- receiving (called by H3Driver)
    def rec(self, sid):
        if sid not in self.streams:
            self.streams[sid] = _new_record(sid)
        return self.streams[sid]

    def on_stream_data(self, sid, data, end_stream):
        if sid % 4 != 0:
            return  # mitmproxy's control / QPACK streams
        buf = self.raw.setdefault(sid, bytearray())
        buf += data
        r = self.rec(sid)
        while True:
            ftype, pos = _varint(buf, 0) if buf else (None, 0)
            if ftype is None:
                break
            flen, pos = _varint(buf, pos) if pos < len(buf) else (None, pos)
            if flen is None or pos + flen > len(buf):
                break
            payload = bytes(buf[pos : pos + flen])
            del buf[: pos + flen]
            if ftype == FrameType.HEADERS:
                try:
                    _, hdrs = self.decoder.feed_header(sid, payload)
                    hdrs = [(bytes(n), bytes(v)) for n, v in hdrs]
                except Exception as e:  # noqa
                    self.decode_errors.append(f"qpack:{type(e).__name__}")
                    continue
                status = dict(hdrs).get(b":status", b"")
                if r["headers"] is None and status[:1] == b"1" and status != b"101":
                    r["informational"].append(hdrs)
                elif r["headers"] is None:
                    r["headers"] = hdrs
                    r["order"] = self.arrivals
                    self.arrivals += 1
                    r["events"].append("headers")
                else:
                    r["trailers"] = hdrs
                    r["events"].append("trailers")
            elif ftype == FrameType.DATA:
                r["chunks"].append(payload)
                r["events"].append("data")
        if end_stream:
            r["ended"] = True
            r["events"].append("end")

    def on_stream_reset(self, sid, code):
        r = self.rec(sid)
        r["reset"] = int(code)
        r["events"].append("reset")

    def on_stop_sending(self, sid, code):
        self.stop_sending[sid] = int(code)

    def on_quic_close(self, code, reason):
        self.conn_close = (int(code), reason)


__all__ = ["H3Driver", "RawH3Client", "body_of"]
