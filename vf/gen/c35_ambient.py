"""pytest plugin for C35 (thorough tier, ambient workload): shadow-check every mitmproxy.http.Headers operation
performed while the repository's own http tests run.

Each outermost call of a wrapped Headers method is executed for real; the same operation is applied to a
RefHeaders model built from the fields *before* the call; return value / KeyError and the resulting fields must
agree.  Calls whose arguments are outside the documented domain (the model raises TypeError/AttributeError,
or the real call raises something other than KeyError) are counted as skipped.  Results go to the JSON file
named by $C35_AMBIENT_OUT.  Usage:  pytest -p vf.gen.c35_ambient test/mitmproxy/test_http.py ...
"""
from __future__ import annotations

import json
import os
import threading

from vf.ref import c35_multimap as ref

_tls = threading.local()
STATS = {"checked": 0, "skipped": 0, "by_op": {}, "violations": []}

# real method name -> (model method name, materialise result?)
OPS = {
    "__getitem__": "getitem",
    "__setitem__": "setitem",
    "__delitem__": "delitem",
    "__contains__": "contains",
    "__len__": "length",
    "get_all": "get_all",
    "set_all": "set_all",
    "add": "add",
    "insert": "insert",
    "get": "get",
    "pop": "pop",
    "popitem": "popitem",
    "setdefault": "setdefault",
    "clear": "clear",
}


def _valid_fields(f):
    return isinstance(f, tuple) and all(isinstance(t, tuple) and len(t) == 2 and isinstance(t[0], bytes) and isinstance(t[1], bytes) for t in f)


def _wrap(cls, name, model_name):
    orig = getattr(cls, name)

    def wrapper(self, *args, **kwargs):
        depth = getattr(_tls, "depth", 0)
        if depth or kwargs or type(self) is not cls:
            _tls.depth = depth + 1
            try:
                return orig(self, *args, **kwargs)
            finally:
                _tls.depth = depth
        pre = self.__dict__.get("fields")
        if name == "set_all" and len(args) == 2:
            try:
                args = (args[0], list(args[1]))
            except TypeError:
                pass
        _tls.depth = 1
        exc = None
        res = None
        try:
            try:
                res = orig(self, *[list(a) if isinstance(a, list) else a for a in args])
            except KeyError as e:
                exc = e
            except Exception:
                STATS["skipped"] += 1
                raise
        finally:
            _tls.depth = 0
        if not _valid_fields(pre):
            STATS["skipped"] += 1
        else:
            try:
                model = ref.RefHeaders(pre)
                try:
                    mres = ("ok", getattr(model, model_name)(*[list(a) if isinstance(a, list) else a for a in args]))
                except KeyError:
                    mres = ("KeyError",)
                rres = ("KeyError",) if exc is not None else ("ok", res)
                post = self.__dict__.get("fields")
                STATS["checked"] += 1
                STATS["by_op"][name] = STATS["by_op"].get(name, 0) + 1
                if rres != mres or post != model.fields():
                    if len(STATS["violations"]) < 20:
                        STATS["violations"].append({
                            "op": name, "args": repr(args)[:300], "fields_before": repr(pre)[:600], "real": repr(rres)[:300], "model": repr(mres)[:300],
                            "fields_after_real": repr(post)[:600], "fields_after_model": repr(model.fields())[:600],
                            "test": os.environ.get("PYTEST_CURRENT_TEST", "?"),
                        })
            except (TypeError, AttributeError, UnicodeError):
                STATS["skipped"] += 1  # arguments outside the documented domain (e.g. None / int values in negative tests)
        if exc is not None:
            raise exc
        return res

    wrapper.__name__ = name
    wrapper.__qualname__ = f"{cls.__qualname__}.{name}"
    setattr(cls, name, wrapper)


def pytest_configure(config):
    from mitmproxy.http import Headers

    for name, model_name in OPS.items():
        _wrap(Headers, name, model_name)


def pytest_unconfigure(config):
    out = os.environ.get("C35_AMBIENT_OUT")
    if out:
        with open(out, "w") as f:
            json.dump(STATS, f)
