"""Throw-away PKI for C15 / C16: test roots, intermediates and leaves minted with `cryptography` (EC P-256).

Everything is created in a per-worker temp dir under /tmp that the caller removes (Pki.cleanup()).
Nothing here depends on mitmproxy.
"""
from __future__ import annotations

import datetime
import ipaddress
import shutil
import tempfile
from pathlib import Path

from cryptography import x509
from cryptography.hazmat.primitives import hashes
from cryptography.hazmat.primitives import serialization
from cryptography.hazmat.primitives.asymmetric import ec
from cryptography.x509.oid import ExtendedKeyUsageOID
from cryptography.x509.oid import NameOID

DAY = datetime.timedelta(days=1)


def now():
    return datetime.datetime.now(datetime.timezone.utc)


def key():
    return ec.generate_private_key(ec.SECP256R1())


def pem_cert(c):
    return c.public_bytes(serialization.Encoding.PEM)


def pem_key(k):
    return k.private_bytes(serialization.Encoding.PEM, serialization.PrivateFormat.PKCS8, serialization.NoEncryption())


def name(cn=None, org=None, extra=()):
    attrs = []
    if cn is not None:
        attrs.append(x509.NameAttribute(NameOID.COMMON_NAME, cn))
    if org is not None:
        attrs.append(x509.NameAttribute(NameOID.ORGANIZATION_NAME, org))
    attrs.extend(extra)
    return x509.Name(attrs)


def general_names(sans):
    """sans: list of 'dns:..', 'ip:..', 'email:..', 'uri:..' strings or ready GeneralName objects."""
    out = []
    for s in sans:
        if isinstance(s, x509.GeneralName):
            out.append(s)
            continue
        kind, _, v = s.partition(":")
        if kind == "dns":
            out.append(x509.DNSName(v))
        elif kind == "ip":
            out.append(x509.IPAddress(ipaddress.ip_address(v)))
        elif kind == "email":
            out.append(x509.RFC822Name(v))
        elif kind == "uri":
            out.append(x509.UniformResourceIdentifier(v))
        else:
            raise ValueError(s)
    return out


def make_cert(
    *,
    subject: x509.Name,
    pubkey,
    issuer_cert: x509.Certificate | None,
    issuer_key,
    ca=False,
    sans=None,
    not_before=None,
    not_after=None,
    crl_urls=None,
    eku_server=True,
    serial=None,
):
    """Sign a certificate. issuer_cert=None -> self-signed (issuer = subject)."""
    nb = not_before or now() - 2 * DAY
    na = not_after or now() + 60 * DAY
    b = (
        x509.CertificateBuilder()
        .subject_name(subject)
        .issuer_name(issuer_cert.subject if issuer_cert is not None else subject)
        .public_key(pubkey)
        .serial_number(serial or x509.random_serial_number())
        .not_valid_before(nb)
        .not_valid_after(na)
        .add_extension(x509.BasicConstraints(ca=ca, path_length=None), critical=True)
        .add_extension(x509.SubjectKeyIdentifier.from_public_key(pubkey), critical=False)
    )
    if issuer_cert is not None:
        b = b.add_extension(x509.AuthorityKeyIdentifier.from_issuer_public_key(issuer_cert.public_key()), critical=False)
    if ca:
        b = b.add_extension(
            x509.KeyUsage(False, False, False, False, False, True, True, False, False), critical=True
        )
    elif eku_server:
        b = b.add_extension(x509.ExtendedKeyUsage([ExtendedKeyUsageOID.SERVER_AUTH]), critical=False)
    if sans:
        b = b.add_extension(x509.SubjectAlternativeName(general_names(sans)), critical=len(list(subject)) == 0)
    if crl_urls:
        b = b.add_extension(
            x509.CRLDistributionPoints(
                [x509.DistributionPoint([x509.UniformResourceIdentifier(u)], None, None, None) for u in crl_urls]
            ),
            critical=False,
        )
    return b.sign(issuer_key, hashes.SHA256())


class Pki:
    """root A (the trusted one), root B (never trusted), intermediates under A (valid / expired), one leaf key."""

    def __init__(self, prefix="vf-pki-"):
        self.dir = Path(tempfile.mkdtemp(prefix=prefix, dir="/tmp"))
        self.n = 0
        self.root_a_key = key()
        self.root_a = make_cert(subject=name("vf test root A", "vf"), pubkey=self.root_a_key.public_key(), issuer_cert=None, issuer_key=self.root_a_key, ca=True, not_after=now() + 400 * DAY)
        self.root_b_key = key()
        self.root_b = make_cert(subject=name("vf test root B", "vf"), pubkey=self.root_b_key.public_key(), issuer_cert=None, issuer_key=self.root_b_key, ca=True, not_after=now() + 400 * DAY)
        # root C: stand-in for "a public CA of the certifi bundle" (the check points certifi.where() at cafile_c);
        # root D: a second configured CA that only lives in a hashed directory
        self.root_c_key = key()
        self.root_c = make_cert(subject=name("vf public CA stand-in C", "vf"), pubkey=self.root_c_key.public_key(), issuer_cert=None, issuer_key=self.root_c_key, ca=True, not_after=now() + 400 * DAY)
        self.root_d_key = key()
        self.root_d = make_cert(subject=name("vf test root D", "vf"), pubkey=self.root_d_key.public_key(), issuer_cert=None, issuer_key=self.root_d_key, ca=True, not_after=now() + 400 * DAY)
        self.int_key = key()
        self.int_a = make_cert(subject=name("vf intermediate A1", "vf"), pubkey=self.int_key.public_key(), issuer_cert=self.root_a, issuer_key=self.root_a_key, ca=True)
        self.int_exp_key = key()
        self.int_a_expired = make_cert(subject=name("vf intermediate A2 (expired)", "vf"), pubkey=self.int_exp_key.public_key(), issuer_cert=self.root_a, issuer_key=self.root_a_key, ca=True, not_before=now() - 90 * DAY, not_after=now() - 2 * DAY)
        self.leaf_key = key()
        self.leaf_key_pem = pem_key(self.leaf_key)
        # trust material
        self.cafile_a = self.dir / "root-a.pem"
        self.cafile_a.write_bytes(pem_cert(self.root_a))
        self.cafile_b = self.dir / "root-b.pem"
        self.cafile_b.write_bytes(pem_cert(self.root_b))
        self.cafile_c = self.dir / "certifi-standin.pem"
        self.cafile_c.write_bytes(pem_cert(self.root_c))
        self.cadir_d = self.dir / "cadir-d"
        self.cadir_d.mkdir()
        self._hashed(self.cadir_d, self.root_d)
        self.cadir_a = self.dir / "cadir-a"
        self.cadir_a.mkdir()
        self._hashed(self.cadir_a, self.root_a)
        # a second unrelated cert in the directory, as in a real hashed store
        self._hashed(self.cadir_a, make_cert(subject=name("vf unrelated root", "vf"), pubkey=key().public_key(), issuer_cert=None, issuer_key=self.root_b_key, ca=True))

    @staticmethod
    def _hashed(d: Path, cert: x509.Certificate):
        from OpenSSL import crypto  # only used to compute OpenSSL's subject-name hash for the c_rehash layout

        h = crypto.X509.from_cryptography(cert).subject_name_hash()
        i = 0
        while (d / f"{h:08x}.{i}").exists():
            i += 1
        (d / f"{h:08x}.{i}").write_bytes(pem_cert(cert))

    def leaf(self, *, cn=None, org=None, sans=None, issuer="root_a", not_before=None, not_after=None, crl_urls=None, subject=None):
        """-> leaf certificate signed by 'root_a' | 'root_b' | 'root_c' | 'root_d' | 'int_a' | 'int_a_expired' | 'self'."""
        subj = subject if subject is not None else name(cn, org)
        if issuer == "self":
            return make_cert(subject=subj, pubkey=self.leaf_key.public_key(), issuer_cert=None, issuer_key=self.leaf_key, sans=sans, not_before=not_before, not_after=not_after, crl_urls=crl_urls)
        icert, ikey = {
            "root_a": (self.root_a, self.root_a_key),
            "root_b": (self.root_b, self.root_b_key),
            "root_c": (self.root_c, self.root_c_key),
            "root_d": (self.root_d, self.root_d_key),
            "int_a": (self.int_a, self.int_key),
            "int_a_expired": (self.int_a_expired, self.int_exp_key),
        }[issuer]
        return make_cert(subject=subj, pubkey=self.leaf_key.public_key(), issuer_cert=icert, issuer_key=ikey, sans=sans, not_before=not_before, not_after=not_after, crl_urls=crl_urls)

    def chain_file(self, certs) -> Path:
        """Write key + certs (leaf first) to a fresh pem file usable by ssl.SSLContext.load_cert_chain."""
        self.n += 1
        p = self.dir / f"chain-{self.n % 64}.pem"
        p.write_bytes(self.leaf_key_pem + b"".join(pem_cert(c) for c in certs))
        return p

    def cleanup(self):
        shutil.rmtree(self.dir, ignore_errors=True)
