"""Generators for hostile HTTP/1 client and server byte streams (engine A workloads).

Every request carries a unique tag in its path (/t<k>-<nonce>) and every scripted response echoes the tag it
answers in `x-tag` and in its body, so histories are unambiguous (who answered what is decidable).
"""
from __future__ import annotations

METHODS = ["GET", "POST", "PUT", "HEAD", "OPTIONS", "DELETE", "PATCH"]


def chunked(body: bytes, rng, exts=False, hexcase=False, lead0=False, trailers=None):
    out = bytearray()
    pos = 0
    feats = set()
    while pos < len(body):
        n = rng.randint(1, max(1, min(len(body) - pos, rng.choice([1, 3, 7, 50, 4000]))))
        size = b"%x" % n
        if hexcase and rng.random() < 0.5:
            size = size.upper()
            feats.add("chunk-hex-upper")
        if lead0 and rng.random() < 0.5:
            size = b"00" + size
            feats.add("chunk-leading-zero")
        if exts and rng.random() < 0.5:
            size += rng.choice([b";x=y", b";foo", b' ; a="b;c"', b";\tq"])
            feats.add("chunk-ext")
        out += size + b"\r\n" + body[pos : pos + n] + b"\r\n"
        pos += n
    out += b"0"
    if exts and rng.random() < 0.3:
        out += b";last"
        feats.add("chunk-ext")
    out += b"\r\n"
    if trailers:
        for k, v in trailers:
            out += k + b": " + v + b"\r\n"
        feats.add("trailers")
    out += b"\r\n"
    return bytes(out), feats


def rand_body(rng, tag: bytes, hostile=True):
    kind = rng.choice(["empty", "short", "short", "embedded", "binary", "long"])
    if kind == "empty":
        return b"", {"body-empty"}
    if kind == "short":
        return b"b:" + tag + b":" + bytes(rng.choice(b"abcxyz012") for _ in range(rng.randint(0, 20))), set()
    if kind == "embedded" and hostile:
        # a body that looks like another request / response (smuggling payload)
        return (
            b"GET /smuggled-" + tag + b" HTTP/1.1\r\nHost: evil.example\r\nContent-Length: 0\r\n\r\n",
            {"body-embedded-request"},
        )
    if kind == "binary":
        return bytes(rng.getrandbits(8) for _ in range(rng.randint(1, 60))), {"body-binary"}
    return (b"L:" + tag + b":") + b"x" * rng.randint(100, 9000), {"body-long"}


def gen_request(rng, k, *, mode="regular", host=b"example.com", hostile_p=0.6, allow_expect=True, force_valid=False):
    """Returns dict(raw, tag, method, feats:set, valid_by_construction:bool, ambiguous_by_construction:bool)."""
    nonce = b"%06x" % rng.getrandbits(24)
    tag = b"t%d-%s" % (k, nonce)
    feats = set()
    method = rng.choice(METHODS)
    version = b"HTTP/1.1"
    if rng.random() < 0.12:
        version = b"HTTP/1.0"
        feats.add("http10")
    path = b"/" + tag
    if rng.random() < 0.2:
        path += b"?q=" + rng.choice([b"1", b"a%20b", b"x&y=z"])
    if mode == "regular":
        target = b"http://" + host + path
    else:
        target = path
    sp1, sp2 = b" ", b" "
    hostile = (rng.random() < hostile_p) and not force_valid
    ambiguous = False
    if hostile and rng.random() < 0.08:
        sp1 = rng.choice([b"  ", b"\t", b" \t"])
        feats.add("reqline-extra-ws")
    headers = []
    hostname = b"Host"
    if hostile and rng.random() < 0.15:
        hostname = rng.choice([b"host", b"HOST", b"hOsT"])
        feats.add("host-case")
    headers.append((hostname, host))
    # ---- body framing
    body, bf = rand_body(rng, tag, hostile=not force_valid)
    has_body_method = method in ("POST", "PUT", "PATCH", "DELETE", "OPTIONS")
    framing = rng.choice(["cl", "cl", "chunked", "none"]) if has_body_method else rng.choice(["none", "none", "none", "cl"])
    if framing == "none":
        body = b""
        bf = set()
    feats |= bf
    wire_body = body
    if framing == "cl":
        headers.append((b"Content-Length", b"%d" % len(body)))
        feats.add("cl")
    elif framing == "chunked":
        if version == b"HTTP/1.0":
            version = b"HTTP/1.1"
            feats.discard("http10")
        te = b"chunked"
        if hostile and rng.random() < 0.3:
            te = rng.choice([b"Chunked", b"CHUNKED", b"gzip, chunked", b"gzip,chunked", b"deflate ,\tchunked"])
            feats.add("te-variant")
        headers.append((rng.choice([b"Transfer-Encoding", b"transfer-encoding"]), te))
        tr = None
        # (trailers in requests: mitmproxy's HTTP/1 reader does not implement them; excluded from the domain)
        wire_body, cf = chunked(body, rng, exts=hostile, hexcase=hostile, lead0=hostile, trailers=tr)
        feats |= cf
        feats.add("chunked")
    # ---- hostile header features
    if hostile:
        for _ in range(rng.choice([1, 1, 2, 3])):
            f = rng.choice(
                [
                    "dup-cl-same", "dup-cl-diff", "cl-plus", "cl-space", "cl-list", "cl-hex", "cl-huge", "cl-neg", "cl-empty",
                    "te-and-cl", "te-x", "te-identity", "te-dup", "te-folded", "te-http10", "te-chunked-twice", "te-tab",
                    "name-space", "name-paren", "name-nul", "name-nonascii", "name-empty", "ws-before-colon",
                    "obs-fold", "bare-lf", "value-cr", "value-nul", "value-nonascii", "expect", "many-headers", "long-value",
                    "conn-close", "conn-keepalive", "lead-crlf",
                ]
            )
            if f == "dup-cl-same" and framing == "cl":
                headers.append((b"Content-Length", b"%d" % len(body)))
                ambiguous = True  # mitmproxy is stricter than the RFC here; either outcome accepted by the oracle
                feats.add(f)
            elif f == "dup-cl-diff" and framing == "cl":
                headers.append((b"content-length", b"%d" % (len(body) + rng.choice([1, 3, -1]) if len(body) else 4)))
                ambiguous = True
                feats.add(f)
            elif f in ("cl-plus", "cl-space", "cl-list", "cl-hex", "cl-huge", "cl-neg", "cl-empty") and framing == "cl":
                n = len(body)
                v = {
                    "cl-plus": b"+%d" % n,
                    "cl-space": b"%d %d" % (n, n),
                    "cl-list": b"%d, %d" % (n, n),
                    "cl-hex": b"0x%x" % n,
                    "cl-huge": b"9" * 30,
                    "cl-neg": b"-%d" % max(n, 1),
                    "cl-empty": b"",
                }[f]
                headers = [(a, (v if a.lower() == b"content-length" else b)) for a, b in headers]
                ambiguous = True
                feats.add(f)
            elif f == "te-and-cl" and framing in ("cl", "chunked"):
                if framing == "cl":
                    headers.append((b"Transfer-Encoding", b"chunked"))
                else:
                    headers.append((b"Content-Length", b"%d" % rng.choice([0, 4, len(wire_body)])))
                ambiguous = True
                feats.add(f)
            elif f in ("te-x", "te-identity", "te-chunked-twice") and framing == "chunked":
                v = {"te-x": rng.choice([b"xchunked", b"chunked-x", b"chunked, gzip", b"\x0bchunked", b"chunked\x0b", b"gzip,\x0bchunked", b"gzip\x0c,chunked", b"gzip,\x1fchunked", b"gzip\x0b, chunked", b"gzip ,\x0c chunked"]), "te-identity": b"identity", "te-chunked-twice": b"chunked, chunked"}[f]
                headers = [(a, (v if a.lower() == b"transfer-encoding" else b)) for a, b in headers]
                ambiguous = True
                feats.add(f)
            elif f == "te-dup" and framing == "chunked":
                headers.append((b"Transfer-Encoding", rng.choice([b"chunked", b"identity", b"gzip"])))
                ambiguous = True
                feats.add(f)
            elif f == "te-folded" and framing == "chunked":
                headers = [(a, (b"\r\n chunked" if a.lower() == b"transfer-encoding" else b)) for a, b in headers]
                feats.add(f)
            elif f == "te-http10" and framing == "chunked":
                version = b"HTTP/1.0"
                ambiguous = True
                feats.add(f)
            elif f == "te-tab" and framing == "chunked":
                headers = [(a, (b"\tchunked\t" if a.lower() == b"transfer-encoding" else b)) for a, b in headers]
                feats.add(f)
            elif f in ("name-space", "name-paren", "name-nul", "name-nonascii", "name-empty"):
                nm = {"name-space": b"X Bad", "name-paren": b"X(Bad)", "name-nul": b"X\x00Bad", "name-nonascii": b"X-B\xe4d", "name-empty": b""}[f]
                headers.insert(rng.randint(0, len(headers)), (nm, b"v"))
                ambiguous = True
                feats.add(f)
            elif f == "ws-before-colon":
                i = rng.randrange(len(headers))
                headers[i] = (headers[i][0] + rng.choice([b" ", b"\t"]), headers[i][1])
                ambiguous = True
                feats.add(f)
            elif f == "obs-fold":
                headers.append((b"X-Fold", b"a\r\n b\r\n\tc"))
                feats.add(f)
            elif f == "value-cr":
                headers.append((b"X-Cr", b"a\rTransfer-Encoding: chunked"))
                feats.add(f)
            elif f == "value-nul":
                headers.append((b"X-Nul", b"a\x00b"))
                feats.add(f)
            elif f == "value-nonascii":
                headers.append((b"X-Hi", b"caf\xe9 \xff"))
                feats.add(f)
            elif f == "expect" and allow_expect and framing != "none":
                headers.append((b"Expect", b"100-continue"))
                feats.add(f)
            elif f == "many-headers":
                for j in range(rng.randint(5, 30)):
                    headers.append((b"X-%d" % j, b"v%d" % j))
                feats.add(f)
            elif f == "long-value":
                headers.append((b"X-Long", b"y" * rng.randint(1000, 9000)))
                feats.add(f)
            elif f == "conn-close":
                headers.append((b"Connection", b"close"))
                feats.add(f)
            elif f == "conn-keepalive":
                headers.append((b"Connection", b"keep-alive"))
                feats.add(f)
            elif f == "lead-crlf":
                feats.add(f)
    eol = b"\r\n"
    if "bare-lf" in feats:
        eol = b"\n"
    if hostile and rng.random() < 0.06 and "obs-fold" not in feats and "te-folded" not in feats:
        eol = b"\n"
        feats.add("bare-lf")
    head = method.encode() + sp1 + target + sp2 + version + eol
    for a, b in headers:
        sep = b": " if rng.random() < 0.9 else rng.choice([b":", b":  ", b":\t"])
        head += a + sep + b + eol
    head += eol
    raw = head + wire_body
    if "lead-crlf" in feats:
        raw = rng.choice([b"\r\n", b"\r\n\r\n", b"\n"]) + raw
    return {
        "raw": raw,
        "tag": tag,
        "method": method,
        "feats": feats,
        "ambiguous": ambiguous,
        "body": body,
        "framing": framing,
        "version": version,
        "close": "conn-close" in feats or (version == b"HTTP/1.0" and "conn-keepalive" not in feats),
    }


def gen_response(rng, tag: bytes, req_method: str, hostile_p=0.5, allow_extra_after=True, extra_after_p=0.0):
    """Scripted origin response for the request carrying `tag`. Returns dict(raw, feats, close_after, status, body)."""
    feats = set()
    hostile = rng.random() < hostile_p
    status = rng.choice([200, 200, 200, 201, 204, 304, 404, 500, 301])
    if rng.random() < 0.25:
        # every final status other than 204/304 is framed like a 200 (RFC 9112 6.3): sample the whole range, the
        # "looks bodyless" ones (205 Reset Content, 202, 3xx) more often
        status = rng.choice([205, 205, 202, 203, 206, 207, 226, 299, 300, 302, 303, 305, 307, 308, 400, 401, 403, 405, 409, 410,
                             412, 416, 418, 429, 451, 499, 501, 502, 503, 504, 511, 599])
        feats.add("resp-status-%dxx" % (status // 100) if status != 205 else "resp-status-205")
    reason = {200: b"OK", 201: b"Created", 204: b"No Content", 205: b"Reset Content", 304: b"Not Modified", 404: b"Not Found", 500: b"ISE", 301: b"Moved"}.get(status, b"Status")
    version = b"HTTP/1.1"
    body = b"r:" + tag + b":" + bytes(rng.choice(b"klmnop789") for _ in range(rng.randint(0, 40)))
    if rng.random() < 0.15:
        body = b""
        feats.add("resp-empty")
    if rng.random() < 0.1:
        body += b"HTTP/1.1 200 OK\r\nContent-Length: 3\r\nx-tag: smuggled\r\n\r\nbad"
        feats.add("resp-embedded-response")
    headers = [(b"x-tag", tag)]
    nobody = req_method == "HEAD" or status in (204, 304)
    framing = rng.choice(["cl", "cl", "chunked", "eof"])
    close_after = False
    wire = body
    interim = b""
    if hostile and rng.random() < 0.15:
        interim = b"HTTP/1.1 " + rng.choice([b"100 Continue", b"102 Processing", b"103 Early Hints"]) + b"\r\nx-interim: 1\r\n\r\n"
        feats.add("resp-1xx")
    if nobody:
        wire = b""
        if framing == "cl" or rng.random() < 0.5:
            headers.append((b"Content-Length", b"%d" % (len(body) if req_method == "HEAD" or status == 304 else 0)))
            feats.add("resp-nobody-cl")
        elif framing == "chunked" and status != 204 and rng.random() < 0.5:
            headers.append((b"Transfer-Encoding", b"chunked"))
            feats.add("resp-nobody-te")
        body = b""
        feats.add(f"resp-{'head' if req_method == 'HEAD' else status}")
    elif framing == "cl":
        headers.append((b"Content-Length", b"%d" % len(body)))
    elif framing == "chunked":
        headers.append((b"Transfer-Encoding", rng.choice([b"chunked", b"Chunked", b"gzip, chunked"]) if hostile else b"chunked"))
        wire, cf = chunked(body, rng, exts=hostile, hexcase=hostile, lead0=hostile)
        feats |= cf
        feats.add("resp-chunked")
    else:
        if rng.random() < 0.3:
            version = b"HTTP/1.0"
            feats.add("resp-http10")
        close_after = True
        feats.add("resp-eof")
    if hostile:
        f = rng.choice(["r-dup-cl-diff", "r-te-cl", "r-cl-plus", "r-name-space", "r-obs-fold", "r-conn-close", "r-value-ctl", "r-te-x", "r-short-body", "r-extra-after", "none", "none"])
        if f == "r-dup-cl-diff" and framing == "cl" and not nobody:
            headers.append((b"Content-Length", b"%d" % (len(body) + 2)))
            feats.add(f)
        elif f == "r-te-cl" and not nobody:
            if framing == "cl":
                headers.append((b"Transfer-Encoding", b"chunked"))
            elif framing == "chunked":
                headers.append((b"Content-Length", b"3"))
            feats.add(f)
        elif f == "r-cl-plus" and framing == "cl" and not nobody:
            headers = [(a, (b"+%d" % len(body) if a == b"Content-Length" else b)) for a, b in headers]
            feats.add(f)
        elif f == "r-name-space":
            headers.append((b"X Bad", b"1"))
            feats.add(f)
        elif f == "r-obs-fold":
            headers.append((b"X-Fold", b"a\r\n b"))
            feats.add(f)
        elif f == "r-conn-close":
            headers.append((b"Connection", b"close"))
            close_after = True
            feats.add(f)
        elif f == "r-value-ctl":
            headers.append((b"X-Ctl", b"a\x00b\rc"))
            feats.add(f)
        elif f == "r-te-x" and framing == "chunked" and not nobody:
            headers = [(a, (b"xchunked" if a == b"Transfer-Encoding" else b)) for a, b in headers]
            close_after = True
            feats.add(f)
        elif f == "r-short-body" and framing == "cl" and not nobody and len(body) > 2:
            wire = body[: len(body) // 2]
            close_after = True
            feats.add(f)
        elif f == "r-extra-after" and framing in ("cl", "chunked") and allow_extra_after:
            wire = wire + b"EXTRA-" + tag
            feats.add(f)
    if extra_after_p and allow_extra_after and not close_after and framing in ("cl", "chunked") and "r-extra-after" not in feats and not nobody and rng.random() < extra_after_p:
        # unsolicited bytes right behind a complete response on a keep-alive connection (idle-timeout 408, stale response, garbage)
        wire = wire + rng.choice([b"HTTP/1.1 408 Request Timeout\r\nContent-Length: 0\r\n\r\n", b"HTTP/1.1 200 OK\r\nx-tag: " + tag + b"\r\nContent-Length: 6\r\n\r\nPOISON", b"EXTRA-" + tag])
        feats.add("r-unsolicited-after")
    head = version + b" %d " % status + reason + b"\r\n"
    for a, b in headers:
        head += a + b": " + b + b"\r\n"
    head += b"\r\n"
    return {"raw": interim + head + wire, "feats": feats, "close_after": close_after, "status": status, "body": body, "framing": framing}
