"""Generators for DNS messages and hostile DNS byte strings (C25; reusable by later DNS checks).

Everything takes an explicit ``random.Random`` (the per-case rng of the harness).

    gen_message(r)            -> reference message dict (vf.ref.dns shape) "as real software produces them"
    gen_wellformed(r)         -> (fields dict with *text* names for mitmproxy's DNSMessage, feature set)
    crafted(r)                -> (bytes, feature set): hostile compression / labels / truncation constructions
    mutate(r, packet)         -> (bytes, feature set)
"""
from __future__ import annotations

import functools
import struct

from vf.ref import dns as R

# (text label, wire label) pairs known independently of any codec (IANA IDN test TLDs and classics)
IDN_KNOWN = [
    ("bücher", b"xn--bcher-kva"), ("münchen", b"xn--mnchen-3ya"), ("例え", b"xn--r8jz45g"), ("пример", b"xn--e1afmkfd"),
    ("испытание", b"xn--80akhbyknj4f"), ("测试", b"xn--0zwm56d"), ("테스트", b"xn--9t4b11yi5a"), ("テスト", b"xn--zckzah"),
    ("δοκιμή", b"xn--jxalpdlp"), ("café", b"xn--caf-dma"),
]
ASCII_LABELS = ["www", "example", "com", "org", "net", "a", "b", "ns1", "mail", "_dmarc", "_sip", "_tcp", "*", "EXAMPLE", "eXaMpLe",
                "xn", "x--y", "0", "127", "in-addr", "arpa", "ip6", "a-b-c", "co", "uk", "localhost", "test", "-", "a_b", "cdn-01",
                "l" * 63, "m" * 62, "q" * 32]
ODD_ASCII = ["a b", "a@b", "a\\b", "a$", "(x)", "a,b", "a;b", "a\"b", "~", "a\tb", "a=b", "a/b", "a:b", "%", "!"]

TYPES_COMMON = [1, 2, 5, 6, 12, 15, 16, 28, 33, 35, 41, 43, 46, 47, 48, 50, 64, 65, 99, 255, 256, 257, 10, 13, 17, 39, 24, 30, 14, 18, 21, 26]
# octets that precede the first domain name in the RDATA of the types mitmproxy decompresses by layout (an *input* property:
# RFC 1035 / 1183 / 2163 / 2535 / 2782 wire formats), used to build RDATA whose name field is not terminated inside the record
NAME_PREFIX_LEN = {2: 0, 3: 0, 4: 0, 5: 0, 7: 0, 8: 0, 9: 0, 12: 0, 6: 0, 14: 0, 17: 0, 15: 2, 18: 2, 21: 2, 26: 2, 33: 6, 24: 18, 30: 0}
# mitmproxy.net.dns.domain_names.record_data_can_have_compression (type numbers; an *input* property for classifiers)
MITM_COMPRESSIBLE = frozenset({5, 13, 7, 3, 4, 8, 14, 9, 15, 2, 12, 6, 16, 17, 18, 21, 24, 26, 30, 35, 33})
CLASSES = [1, 1, 1, 3, 4, 254, 255, 0, 4096, 65535]
TTLS = [0, 1, 60, 300, 86400, 2**31 - 1, 2**31, 2**31 + 1, 2**32 - 1]


@functools.lru_cache(maxsize=4096)
def _is_idna_canonical(label: str) -> bool:
    """Fixed point of the stdlib IDNA (2003) codec: the domain of clause (a)."""
    try:
        w = label.encode("idna")
        return 1 <= len(w) <= 63 and w.decode("idna") == label
    except UnicodeError:
        return False


IDN_KNOWN = [(t, w) for t, w in IDN_KNOWN if _is_idna_canonical(t) and t.encode("idna") == w]


def text_label(r):
    """-> (text, expected wire bytes or None if only the codec knows)"""
    k = r.random()
    if k < 0.55:
        t = r.choice(ASCII_LABELS)
        return t, t.encode("ascii")
    if k < 0.7:
        t, w = r.choice(IDN_KNOWN)
        return t, w
    if k < 0.8:
        t = r.choice(ODD_ASCII)
        return t, t.encode("ascii")
    if k < 0.9:
        n = r.choice([1, 2, 3, 8, 20, 63])
        t = "".join(r.choice("abcdefghijklmnopqrstuvwxyz0123456789-_ABCXYZ") for _ in range(n))
        return t, t.encode("ascii")
    # composed unicode label: only the codec knows its wire form
    base = r.choice(IDN_KNOWN)[0]
    t = base + r.choice(["", "-", "1", "x"]) + r.choice(["", r.choice(IDN_KNOWN)[0]])
    return t, None


def text_name(r, max_labels=6):
    """IDNA-canonical text name with wire length <= 255 -> (name, wire labels or None, features)"""
    for _ in range(20):
        n = r.choice([0, 1, 1, 2, 2, 3, 3, 4, max_labels, r.randint(0, 12)])
        labs = [text_label(r) for _ in range(n)]
        if not all(_is_idna_canonical(t) for t, _ in labs):
            continue
        wire_len = 1 + sum(1 + len(t.encode("idna")) for t, _ in labs)
        if wire_len > 255:
            continue
        feats = set()
        if n == 0:
            feats.add("root")
        if any(not t.isascii() for t, _ in labs):
            feats.add("idn")
        if any(len(t.encode("idna")) == 63 for t, _ in labs):
            feats.add("label63")
        if any(t in ODD_ASCII for t, _ in labs):
            feats.add("odd-ascii")
        if any(t != t.lower() for t, _ in labs):
            feats.add("upper")
        if wire_len > 200:
            feats.add("long-name")
        known = tuple(w for _, w in labs) if all(w is not None for _, w in labs) else None
        return ".".join(t for t, _ in labs), known, feats
    return "example.com", (b"example", b"com"), set()


def rand_bytes(r, n):
    return r.randbytes(n)


def gen_rdata(r, rtype):
    """Arbitrary RDATA -> (bytes, features). Biased to realistic content for the type and to pointer-looking octets."""
    k = r.random()
    feats = set()
    if k < 0.35:
        # realistic for the type, names uncompressed
        def nm():
            n = r.randint(0, 4)
            return R.name_wire([r.choice(ASCII_LABELS).encode() for _ in range(n)])
        if rtype == 1:
            d = rand_bytes(r, 4)
        elif rtype == 28:
            d = rand_bytes(r, 16)
        elif rtype in (2, 5, 12, 39):
            d = nm()
        elif rtype == 15:
            d = rand_bytes(r, 2) + nm()
        elif rtype == 6:
            d = nm() + nm() + rand_bytes(r, 20)
        elif rtype == 33:
            d = rand_bytes(r, 6) + nm()
        elif rtype == 16:
            d = b"".join(bytes([len(s)]) + s for s in [r.choice([b"v=spf1 -all", b"hello world", b"", b"k=rsa; p=MIGf"]) for _ in range(r.randint(1, 3))])
        else:
            d = rand_bytes(r, r.choice([0, 1, 4, 8, 30]))
        feats.add("rdata-typed")
    elif k < 0.5:
        d = b""
        feats.add("rdata-empty")
    elif k < 0.8:
        d = rand_bytes(r, r.choice([1, 2, 3, 7, 16, 64, 255, 256, 300]))
        feats.add("rdata-random")
    elif k < 0.992:
        # pointer-looking octets: 0xC0 0x0C is the classic pointer to the first question name
        alphabet = [b"\xc0\x0c", b"\xc0", b"\xff", b"\xc0\x00", b"\x03www", b"\x00", b"\xc1\x00", b"a", b"\xc0\x0d"]
        d = b"".join(r.choice(alphabet) for _ in range(r.randint(1, 12)))
        feats.add("rdata-pointerish")
    else:
        d = rand_bytes(r, r.choice([4096, 65535, 65534, 20000]))
        feats.add("rdata-huge")
    if any(b >= 0xC0 for b in d):
        feats.add("rdata-has-c0")
    return d, feats


def overrun_rdata(r, rtype):
    """RDATA of a name-bearing type whose (first) name is a run of labels WITHOUT terminator, so that a decoder walking the
    name leaves the record; every octet is < 0xC0 (nothing in it looks like a compression pointer)."""
    prefix = bytes(b & 0x7F for b in r.randbytes(NAME_PREFIX_LEN[rtype]))
    labels = [r.choice([b"www", b"ns1", b"a", b"example", b"mail"]) for _ in range(r.choice([1, 1, 2, 3]))]
    return prefix + b"".join(bytes([len(x)]) + x for x in labels)


def gen_overrun_message(r):
    """Well-formed message (mitmproxy model) in which a record of a layout type with an unterminated RDATA name is FOLLOWED by
    further records with plain owner names -- the bytes a decoder would walk into. -> (fields, features)"""
    fields, feats = gen_wellformed(r)
    feats = {f for f in feats if not f.startswith("rdata-")} | {"rdata-name-overrun"}
    plain = lambda: ".".join(r.choice(["www", "example", "com", "ns1", "a", "mail", "org"]) for _ in range(r.randint(1, 4)))  # noqa: E731
    sec = []
    for _ in range(r.choice([1, 1, 2])):
        t = r.choice([24, 30, 24, 30, r.choice(sorted(NAME_PREFIX_LEN))])
        sec.append({"name": plain(), "wire": None, "type": t, "class": 1, "ttl": r.choice(TTLS), "data": overrun_rdata(r, t)})
        feats.add("overrun-sig-nxt" if t in (24, 30) else "overrun-other")
        for _ in range(r.choice([1, 1, 2, 3])):
            t2 = r.choice([1, 28, 16, 5, 2, 24, 30])
            d2 = {1: b"\x0a\x00\x00\x01", 28: bytes(16), 16: b"\x05hello", 5: R.name_wire([b"www", b"example"]), 2: R.name_wire([b"ns1"])}.get(t2) or overrun_rdata(r, t2)
            sec.append({"name": plain(), "wire": None, "type": t2, "class": 1, "ttl": 60, "data": d2})
    where = r.randrange(3)
    fields["sections"][where] = sec
    for i in range(3):
        if i != where:
            # keep the rest free of pointer-looking octets in scanned types so that a difference is attributable
            fields["sections"][i] = [x for x in fields["sections"][i] if not (x["type"] in MITM_COMPRESSIBLE and any(b >= 0xC0 for b in x["data"]))]
    feats.add("type-compressible")
    return fields, feats


def gen_wellformed(r):
    """A well-formed message in terms of mitmproxy's model: text names + raw fields. -> (fields, features)"""
    feats = set()
    small = r.random() < 0.94
    nq = r.choice([0, 1, 1, 1, 2, 3]) if small else r.randint(0, 20)
    counts = [r.choice([0, 0, 1, 2, 3]) if small else r.randint(0, 30) for _ in range(3)]
    hdr = {
        "id": r.choice([0, 1, 65535, r.getrandbits(16)]),
        "query": r.random() < 0.5,
        "op_code": r.choice([0, 0, 1, 2, 4, 5, 15, r.randint(0, 15)]),
        "authoritative_answer": r.random() < 0.5,
        "truncation": r.random() < 0.3,
        "recursion_desired": r.random() < 0.5,
        "recursion_available": r.random() < 0.5,
        "reserved": r.choice([0, 0, 1, 2, 4, 7, r.randint(0, 7)]),
        "response_code": r.choice([0, 0, 2, 3, 5, 15, r.randint(0, 15)]),
    }
    if hdr["reserved"]:
        feats.add("z-bits")
    questions = []
    for _ in range(nq):
        name, known, f = text_name(r)
        feats |= f
        questions.append({"name": name, "wire": known, "type": r.choice(TYPES_COMMON + [r.getrandbits(16)]), "class": r.choice(CLASSES + [r.getrandbits(16)])})
    sections = []
    for c in counts:
        sec = []
        for _ in range(c):
            name, known, f = text_name(r)
            feats |= f
            rtype = r.choice(TYPES_COMMON + [r.getrandbits(16), 0, 65535])
            data, f2 = gen_rdata(r, rtype)
            feats |= f2
            if rtype in MITM_COMPRESSIBLE:
                feats.add("type-compressible")
            ttl = r.choice(TTLS + [r.getrandbits(32)])
            if ttl >= 2**31:
                feats.add("ttl-high-bit")
            sec.append({"name": name, "wire": known, "type": rtype, "class": r.choice(CLASSES + [r.getrandbits(16)]), "ttl": ttl, "data": data})
        sections.append(sec)
    if nq > 3 or max(counts) > 3:
        feats.add("many-records")
    return {"hdr": hdr, "questions": questions, "sections": sections}, feats


# ---- reference-shaped messages (for byte-level workloads) -------------------------------------------------------------------

def wire_label(r):
    k = r.random()
    if k < 0.7:
        return r.choice(ASCII_LABELS).encode()
    if k < 0.85:
        return r.choice(IDN_KNOWN)[1]
    return r.choice([b"a.b", b".", b"a.", b".a", b"xn--", b"xn--a-b-", b"xn--\x80", b"\xc3\xbc", b"xn--" + "a。b".encode("punycode"),
                     b"xn--" + "Bücher".encode("punycode"), b"XN--BCHER-KVA", b"\x00", b"a\x00b", b"\xff" * 3, b"xn--" + b"9" * 30,
                     rand_bytes(r, r.randint(1, 10)), b"x" * 63])


def wire_name(r):
    return tuple(wire_label(r) for _ in range(r.choice([0, 1, 2, 2, 3, 3, 4, 5])))


def gen_message(r, hostile_labels=True):
    """Reference message dict with names inside RDATA as parts (so the encoder can compress them)."""
    base = [wire_name(r) for _ in range(3)]
    if not hostile_labels:
        base = [tuple(r.choice(ASCII_LABELS[:12]).encode() for _ in range(r.randint(1, 4))) for _ in range(3)]

    def nm():
        if r.random() < 0.6:
            b = r.choice(base)
            return tuple(wire_label(r) if hostile_labels else r.choice(ASCII_LABELS[:12]).encode() for _ in range(r.choice([0, 0, 1, 2]))) + b
        return wire_name(r) if hostile_labels else r.choice(base)

    def rr():
        t = r.choice([1, 28, 2, 5, 12, 15, 6, 33, 16, 41, 46, 47, 64, 65, 10, r.getrandbits(16)])
        d = {"name": nm(), "type": t, "class": r.choice([1, 1, 1, 3, 255, r.getrandbits(16)]), "ttl": r.choice(TTLS + [r.getrandbits(32)])}
        lay = R.LAYOUTS.get(t)
        if lay and r.random() < 0.85:
            parts = []
            for tok in lay:
                if tok == "name":
                    parts.append(("name", nm()))
                elif tok == "charstr":
                    s = rand_bytes(r, r.randint(0, 5))
                    parts.append(bytes([len(s)]) + s)
                elif tok == "rest":
                    parts.append(rand_bytes(r, r.randint(0, 12)))
                else:
                    parts.append(rand_bytes(r, tok))
            d["rdata_parts"] = parts
            d["rdata"] = R.expand_parts(parts)
        else:
            d["rdata"] = gen_rdata(r, t)[0][:600]
        return d

    return {
        "id": r.getrandbits(16), "qr": r.random() < 0.6, "opcode": r.choice([0, 0, 0, 4, 5, r.randint(0, 15)]), "aa": r.random() < 0.5,
        "tc": r.random() < 0.2, "rd": r.random() < 0.6, "ra": r.random() < 0.5, "z": r.choice([0, 0, 2, 1, 7]), "rcode": r.choice([0, 0, 3, 2, r.randint(0, 15)]),
        "questions": [{"name": nm(), "type": r.choice([1, 28, 15, 16, 255, 65]), "class": 1} for _ in range(r.choice([0, 1, 1, 1, 2]))],
        "answers": [rr() for _ in range(r.choice([0, 1, 2, 3, 5]))],
        "authorities": [rr() for _ in range(r.choice([0, 0, 1, 2]))],
        "additionals": [rr() for _ in range(r.choice([0, 0, 1, 2]))],
    }


# ---- crafted byte strings ----------------------------------------------------------------------------------------------------

def hdr(qd=0, an=0, ns=0, ar=0, mid=1, flags=0):
    return struct.pack("!HHHHHH", mid, flags, qd, an, ns, ar)


def rr_bytes(owner, rtype, rdata, rclass=1, ttl=0, rdlen=None):
    return owner + struct.pack("!HHIH", rtype, rclass, ttl, len(rdata) if rdlen is None else rdlen) + rdata


def q_bytes(name, qtype=1, qclass=1):
    return name + struct.pack("!HH", qtype, qclass)


def ptr(off):
    return struct.pack("!H", 0xC000 | (off & 0x3FFF))


def crafted(r):
    """-> (bytes, features)"""
    kind = r.choice(["chain", "chain", "self-loop", "mutual-loop", "forward", "into-header", "into-rdata", "labels", "labels", "label-len",
                     "truncate", "counts", "trailing", "rdata-ptr", "rdata-ptr", "rdata-ptr-hostile", "long-name", "random", "rdlen"])
    f = {kind}
    if kind == "chain":
        # RR1 (type NULL, not scanned) holds  name, p0 -> name, p1 -> p0, ... ; RR2's owner points at the last pointer
        n = r.choice([1, 2, 3, 5, 20, 100, 300, 600, 900, 950, 1000, 1100, 2000, 3000, 5000, r.randint(1, 5000)])
        with_labels = r.random() < 0.3 and n <= 60
        base = 12 + 1 + 10
        tail = r.choice([b"\x01a\x00", b"\x00", b"\x03www\x07example\x03com\x00"])
        chunk = bytearray(tail)
        prev = base
        for i in range(n):
            here = base + len(chunk)
            if with_labels:
                chunk += b"\x01" + bytes([97 + i % 26])
            chunk += ptr(prev)
            prev = here
        owner2 = ptr(prev)
        t2 = r.choice([1, 16, 5, 2])
        rd2 = r.choice([b"\x01\x02\x03\x04", ptr(prev), b"\x01x" + ptr(prev)])
        b = hdr(0, 2) + rr_bytes(b"\x00", 10, bytes(chunk)) + rr_bytes(owner2, t2, rd2)
        f.add("chain>=900" if n >= 900 else "chain>=100" if n >= 100 else "chain<100")
        if with_labels:
            f.add("chain-with-labels")
        return b, f
    if kind == "self-loop":
        where = r.choice(["question", "owner", "rdata"])
        f.add(where)
        if where == "question":
            return hdr(1) + q_bytes(r.choice([b"", b"\x01a"]) + ptr(12)), f
        if where == "owner":
            return hdr(0, 1) + rr_bytes(ptr(12), 1, b"\x01\x02\x03\x04"), f
        return hdr(1, 1) + q_bytes(b"\x01a\x00") + rr_bytes(ptr(12), r.choice([5, 16, 15]), ptr(12 + 7 + 2 + 10)), f
    if kind == "mutual-loop":
        # question name -> owner name -> question name
        q = q_bytes(b"\x01a" + ptr(12 + 4 + 4))
        return hdr(1, 1) + q + rr_bytes(b"\x01b" + ptr(12), 1, b"\x00" * 4), f
    if kind == "forward":
        # question name points forward to the owner name of the answer
        q = q_bytes(ptr(12 + 2 + 4))
        return hdr(1, 1) + q + rr_bytes(r.choice([b"\x03fwd\x00", b"\x03fwd" + ptr(12)]), 1, b"\x00" * 4), f
    if kind == "into-header":
        mid = r.choice([0x0161, 0x0000, 0x3F41, r.getrandbits(16)])
        return hdr(1, mid=mid, flags=r.choice([0, 0x0100, r.getrandbits(16)])) + q_bytes(r.choice([b"", b"\x01x"]) + ptr(r.randint(0, 11))), f
    if kind == "into-rdata":
        a = rr_bytes(b"\x00", 1, r.choice([b"\x01a\x00\x00", b"\x03abc", b"\xc0\x0c\x00\x00"]))
        off = 12 + 1 + 10
        return hdr(0, 2) + a + rr_bytes(ptr(off), r.choice([1, 5]), b"\x00" * 4), f
    if kind == "labels":
        n = r.randint(1, 4)
        labs = [wire_label(r) for _ in range(n)]
        if r.random() < 0.5:
            labs[r.randrange(n)] = r.choice([b".", b"a.", b".a", b"a..b", b"xn--", b"xn--a-b-", b"xn--" + "a。b".encode("punycode"),
                                             b"xn--" + "Bücher".encode("punycode"), b"\x80", b"xn--\xff", b"a.b"])
        name = b"".join(bytes([len(x)]) + x for x in labs if 0 < len(x) < 64) + b"\x00"
        for x in labs:
            if b"." in x:
                f.add("dot-in-label")
            if x.lower().startswith(b"xn--"):
                f.add("ace-label")
            if any(c >= 0x80 for c in x):
                f.add("high-byte-label")
        where = r.choice(["question", "owner", "rdata-name", "rdata-via-pointer"])
        f.add(where)
        if where == "question":
            return hdr(1) + q_bytes(name), f
        if where == "owner":
            return hdr(0, 1) + rr_bytes(name, 1, b"\x00" * 4), f
        if where == "rdata-name":
            return hdr(0, 1) + rr_bytes(b"\x00", r.choice([5, 2, 12, 15, 16]), name), f
        # the hostile name sits in an unscanned NULL record; a scanned record's RDATA points at it
        return hdr(0, 2) + rr_bytes(b"\x00", 10, name) + rr_bytes(b"\x00", r.choice([16, 5, 15, 6]), r.choice([b"", b"\x00\x05"]) + ptr(12 + 1 + 10)), f
    if kind == "label-len":
        ln = r.choice([62, 63, 64, 65, 127, 128, 191, 0x40, 0x80, 0xBF])
        f.add(f"len{ln}")
        body = b"a" * min(ln, r.choice([ln, ln - 1, 10]))
        return hdr(1) + q_bytes(bytes([ln]) + body + b"\x00"), f
    if kind == "truncate":
        full = R.encode(gen_message(r, hostile_labels=False), compress=r.random() < 0.5)
        cut = r.randint(0, len(full))
        return full[:cut], f
    if kind == "counts":
        m = gen_message(r, hostile_labels=False)
        real = (len(m["questions"]), len(m["answers"]), len(m["authorities"]), len(m["additionals"]))
        c = list(real)
        c[r.randrange(4)] = r.choice([0, 1, 2, 50, 65535, r.getrandbits(16)])
        m["counts"] = tuple(c)
        return R.encode(m, compress=r.random() < 0.5), f
    if kind == "trailing":
        full = R.encode(gen_message(r, hostile_labels=False), compress=r.random() < 0.5)
        return full + r.choice([b"\x00", b"\xc0\x0c", rand_bytes(r, r.randint(1, 20))]), f
    if kind in ("rdata-ptr", "rdata-ptr-hostile"):
        # RDATA of types mitmproxy scans for pointers: opaque octets that look like pointers
        qn = r.choice([b"\x03www\x07example\x03com\x00", b"\x01a\x00", b"\x00"]) if kind == "rdata-ptr" else \
            r.choice([b"\x01.\x00", b"\x02a.\x00", b"\x04xn--\x00", b"\x08xn--a-b-\x00", b"\x03a.b\x00"])
        t = r.choice(sorted(MITM_COMPRESSIBLE) + [1, 28, 10, 65])
        alphabet = [ptr(12), ptr(12), ptr(13), b"\xc0", b"\xff\xff", b"\x02", b"hi", ptr(12 + len(qn) + 4 + 2 + 10), ptr(r.randint(0, 80)), b"\x00"]
        rd = b"".join(r.choice(alphabet) for _ in range(r.randint(1, 10)))
        f.add("scanned-type" if t in MITM_COMPRESSIBLE else "opaque-type")
        return hdr(1, 1) + q_bytes(qn) + rr_bytes(ptr(12), t, rd, ttl=r.choice(TTLS)), f
    if kind == "long-name":
        # a name longer than 255 octets built from 63-octet labels, directly or through pointers
        n = r.choice([3, 4, 5, 10, 30])
        name = b"".join(b"\x3f" + bytes([97 + i % 26]) * 63 for i in range(n)) + b"\x00"
        return hdr(1) + q_bytes(name), f
    if kind == "rdlen":
        rd = rand_bytes(r, r.randint(0, 10))
        return hdr(0, 1) + rr_bytes(b"\x01a\x00", r.choice([1, 16, 5]), rd, rdlen=r.choice([len(rd) + 1, 65535, max(len(rd) - 1, 0)])), f
    n = r.choice([0, 1, 11, 12, 13, 17, 30, 60])
    return rand_bytes(r, n), f


def mutate(r, packet: bytes):
    b = bytearray(packet)
    f = set()
    for _ in range(r.choice([1, 1, 2, 3, 6])):
        op = r.choice(["flip", "set-c0", "set-ptr", "delete", "insert", "dup", "byte", "count"])
        f.add("mut-" + op)
        if not b:
            b += rand_bytes(r, 3)
        i = r.randrange(len(b))
        if op == "flip":
            b[i] ^= 1 << r.randrange(8)
        elif op == "set-c0":
            b[i] = r.choice([0xC0, 0xC1, 0xFF, 0x40, 0x80])
        elif op == "set-ptr" and i + 1 < len(b):
            b[i : i + 2] = ptr(r.randrange(len(b)))
        elif op == "delete":
            del b[i : i + r.randint(1, 4)]
        elif op == "insert":
            b[i:i] = rand_bytes(r, r.randint(1, 4))
        elif op == "dup":
            j = r.randrange(len(b))
            b[i:i] = b[j : j + r.randint(1, 16)]
        elif op == "byte":
            b[i] = r.getrandbits(8)
        elif op == "count" and len(b) >= 12:
            k = r.choice([4, 6, 8, 10])
            b[k : k + 2] = struct.pack("!H", r.choice([0, 1, 2, 3, 255, 65535]))
    return bytes(b), f
