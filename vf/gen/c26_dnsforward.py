"""Workload and driver pieces for the DNS layer checks C26 / C27 (engine A).

    realistic_message(r, ...)   reference message dict (vf.ref.dns shape) "as real servers produce them" + feature set
    encode(msg, ...)            compressing encoder with a per-type choice of which RDATA names are compressed
    frame / split_frames        independent RFC 1035 4.2.2 TCP framing (2 octet length prefix)
    DnsUpstream                 reactive upstream peer (parses what the proxy wrote, answers via a responder callback)
    make_driver                 sansio.Driver with the real mitmproxy.proxy.layers.dns.DNSLayer as top layer

Everything random comes from the ``random.Random`` passed in.  Nothing here imports mitmproxy's DNS codec.
"""
from __future__ import annotations

import struct

from vf import sansio
from vf.gen import c25_dnsgen as G
from vf.peers import cut
from vf.ref import dns as R

# RFC 3597 section 4: the "well known" types in whose RDATA a receiver must expect compressed names.  Real senders only
# compress names in (a subset of) these; mDNS/older servers also compress SRV targets.
RFC3597_NAME_TYPES = frozenset({R.NS, R.MD, R.MF, R.CNAME, R.SOA, R.MB, R.MG, R.MR, R.PTR, R.MINFO, R.MX, R.RP, R.AFSDB, R.RT, R.SIG,
                                R.PX, R.NXT, R.NAPTR, R.SRV})
HINFO = R.HINFO
TYPE_NAMES = {1: "A", 2: "NS", 3: "MD", 4: "MF", 5: "CNAME", 6: "SOA", 7: "MB", 8: "MG", 9: "MR", 10: "NULL", 12: "PTR", 13: "HINFO",
              14: "MINFO", 15: "MX", 16: "TXT", 17: "RP", 18: "AFSDB", 21: "RT", 24: "SIG", 26: "PX", 28: "AAAA", 30: "NXT", 33: "SRV",
              35: "NAPTR", 36: "KX", 39: "DNAME", 41: "OPT", 43: "DS", 46: "RRSIG", 47: "NSEC", 48: "DNSKEY", 64: "SVCB", 65: "HTTPS",
              257: "CAA"}

SERVER_ADDR = ("192.0.2.53", 53)


# ---- names -------------------------------------------------------------------------------------------------------------------

LDH = [b"www", b"example", b"com", b"org", b"net", b"ns1", b"ns2", b"mail", b"mx", b"a", b"b", b"cdn-01", b"co", b"uk", b"local",
       b"in-addr", b"arpa", b"ip6", b"10", b"0", b"127", b"hostmaster", b"dns-admin", b"_sip", b"_tcp", b"_udp", b"_dmarc", b"_domainkey",
       b"*", b"EXAMPLE", b"eXaMpLe", b"WwW", b"x" * 63, b"q" * 32]
ACE = [w for _, w in G.IDN_KNOWN]  # lower-case A-labels that are fixed points of IDNA 2003
# labels that are legal on the wire and occur in practice, but are not fixed points of the stdlib IDNA codec
ACE_ODD = [b"XN--BCHER-KVA", b"xN--bChEr-KvA", b"xn--strae-oqa", b"xn--fa-hia", b"xn--MNCHEN-3YA"]  # DNS 0x20 case mixing, IDNA 2008 only
DOT_LABELS = [b"first.last", b"john.doe", b"a.b"]  # SOA RNAME / RP mailbox with a dot in the local part (RFC 1035 8)
HIGH_LABELS = ["Büro Printer".encode(), "café".encode(), b"\xff\xfe", "プリンタ".encode()]  # DNS-SD UTF-8 instance names
SPACE_LABELS = [b"Office Printer 2", b"a b", b"My Mac", b"Living Room"]  # DNS-SD instance names, plain ASCII with spaces
# labels for names INSIDE record data (SOA RNAME / RP mailboxes with an escaped dot, DNS-SD PTR/SRV targets, 0x20-mixed or IDNA-2008
# A-labels): any octets are legal in a label (RFC 2181 section 11) and a forwarder has no reason to touch them
EXOTIC_POOLS = [DOT_LABELS + [b"Office.Printer 2", b"john.q.public"], HIGH_LABELS, ACE_ODD, SPACE_LABELS, [b"EXAMPLE", b"MiXeD-Case", b"WwW"]]


def label(r, hostile):
    k = r.random()
    if hostile and k < 0.5:
        return r.choice(r.choice([ACE_ODD, ACE_ODD, DOT_LABELS, HIGH_LABELS]))
    if k < 0.8:
        return r.choice(LDH)
    if k < 0.93:
        return r.choice(ACE)
    n = r.choice([1, 2, 5, 12, 30])
    return bytes(r.choice(b"abcdefghijklmnopqrstuvwxyz0123456789-_ABCXYZ") for _ in range(n))


def label_feature(lab: bytes):
    """None for labels the stdlib IDNA 2003 codec maps to themselves; else the reason (a property of the label octets)."""
    if any(c >= 0x80 for c in lab):
        return "label-with-octet-ge-0x80"
    if b"." in lab:
        return "label-contains-dot"
    if lab[:4].lower() == b"xn--":
        try:
            if lab.decode("idna").encode("idna") == lab:
                return None
        except UnicodeError:
            pass
        return "ace-label-not-idna2003-canonical"
    return None


class Zone:
    """A small pool of names sharing suffixes, so that a compressing encoder finds something to compress."""

    def __init__(self, r, hostile=False, rdata_exotic=False):
        self.r = r
        self.hostile = hostile
        self.rdata_exotic = rdata_exotic
        self.apex = [tuple(label(r, False) for _ in range(r.choice([1, 2, 2, 3]))) for _ in range(r.choice([1, 2]))]
        self.hosts = []
        for _ in range(4):
            self.hosts.append(tuple(label(r, hostile and r.random() < 0.5) for _ in range(r.choice([1, 1, 2]))) + r.choice(self.apex))

    def rdata_name(self, exotic_ok=True):
        """A name for use inside RDATA: in 'rdata_exotic' zones about half of them carry labels with arbitrary octets, drawn
        from a small recurring pool (so that compressed second occurrences exist) or freshly built."""
        r = self.r
        if not (self.rdata_exotic and exotic_ok and r.random() < 0.55):
            return self.name()
        if not hasattr(self, "exotic_names"):
            self.exotic_names = []
            for _ in range(3):
                labs = tuple(r.choice(r.choice(EXOTIC_POOLS)) for _ in range(r.choice([1, 1, 2])))
                mid = r.choice([(), (), (b"_ipp", b"_tcp"), (b"_sip", b"_udp")])
                self.exotic_names.append(labs + mid + r.choice(self.apex))
        if r.random() < 0.7:
            n = r.choice(self.exotic_names)
        else:
            n = tuple(r.choice(r.choice(EXOTIC_POOLS)) for _ in range(r.choice([1, 2]))) + r.choice(self.apex + self.hosts)
        if 1 + sum(1 + len(x) for x in n) > 255:
            n = r.choice(self.apex)
        return n

    def name(self, allow_root=True):
        r = self.r
        k = r.random()
        if k < 0.3:
            n = r.choice(self.apex)
        elif k < 0.75:
            n = r.choice(self.hosts)
        elif k < 0.9:
            n = tuple(label(r, self.hostile and r.random() < 0.3) for _ in range(r.choice([1, 2]))) + r.choice(self.apex)
        elif k < 0.95 and allow_root:
            n = ()
        else:
            n = tuple(label(r, False) for _ in range(r.choice([1, 2, 4, 6])))
        if 1 + sum(1 + len(x) for x in n) > 255:
            n = r.choice(self.apex)
        return n


# ---- RDATA -------------------------------------------------------------------------------------------------------------------

def u16(r, hot):
    return struct.pack("!H", r.choice(hot) if r.random() < 0.6 else r.getrandbits(16))


def u32(r, hot):
    return struct.pack("!I", r.choice(hot) if r.random() < 0.6 else r.getrandbits(32))


def charstr(r, pool):
    s = r.choice(pool)[:255]
    return bytes([len(s)]) + s


TXT_POOL = [b"v=spf1 include:_spf.example.com ~all", b"hello world", b"", b"k=rsa; p=MIGfMA0GCSqGSIb3DQEBAQUAA4GNADCBiQKBgQC",
            "grüße aus münchen".encode(), "日本語".encode(), b"\xc0\x0c", b"path=\xc0\x0c;", b"\xc0", b"\xff" * 4,
            b"google-site-verification=abcDEF123", b"x" * 255, "À bientôt".encode("latin-1")]


def rdata_for(r, t, zone: Zone, exotic_ok=True):
    """-> (record fields {'rdata_parts': [...]} or {'rdata': bytes}, features)"""
    nm = lambda: ("name", zone.rdata_name(exotic_ok))  # noqa: E731
    f = set()
    lay = R.LAYOUTS.get(t)
    if lay is not None:
        parts = []
        for tok in lay:
            if tok == "name":
                parts.append(nm())
            elif tok == "charstr":
                parts.append(charstr(r, [b"U", b"S", b"A", b"", b"E2U+sip", b"SIP+D2U", b"!^.*$!sip:info@example.com!", "!^.*$!sip:büro@example.com!".encode(), b"\xc0\x0c"]))
            elif tok == "rest":
                parts.append(r.randbytes(r.choice([0, 4, 9, 32])))
            elif t == R.SOA:
                # serial refresh retry expire minimum
                parts.append(u32(r, [2024010101, 1, 0xC00C0001, 3221225484, 0xFFFFFFFF]) + u32(r, [3600, 86400, 0xC00C]) + u32(r, [600, 900])
                             + u32(r, [604800, 0x00C00C00]) + u32(r, [60, 300, 0xC0]))
            elif t == R.SRV:
                # priority weight port: ports from the dynamic range 49152..65535 start with an octet >= 0xC0
                parts.append(u16(r, [0, 10, 0xC00C]) + u16(r, [0, 5, 100]) + u16(r, [443, 5060, 5222, 8080, 49152, 49164, 50000, 51820, 65535]))
            elif tok == 2:
                parts.append(u16(r, [0, 5, 10, 20, 50, 0xC00C, 49164, 0x00C0]))  # MX/KX/AFSDB/RT/PX preference
            elif tok == 4:
                parts.append(u16(r, [10, 100, 0xC00C]) + u16(r, [10, 50, 0xC012]))  # NAPTR order, preference
            else:
                parts.append(r.randbytes(tok))  # SIG/RRSIG fixed part
        return {"rdata_parts": parts}, f
    if t == 1:
        d = r.choice([bytes([192, 0, 2, r.getrandbits(8)]), bytes([192, 12, 0, 1]), r.randbytes(4), bytes([10, 0, 0, 1]), bytes([203, 0, 113, 5])])
    elif t == 28:
        d = r.choice([bytes.fromhex("20010db8") + r.randbytes(12), r.randbytes(16), b"\xc0\x0c" * 8])
    elif t == 16:
        d = b"".join(charstr(r, TXT_POOL + [r.randbytes(r.choice([1, 8, 40]))]) for _ in range(r.choice([1, 1, 2, 3])))
        if r.random() < 0.03:
            d = b"".join(charstr(r, [b"y" * 255, r.randbytes(255)]) for _ in range(r.choice([4, 10, 30])))
            f.add("big-txt")
    elif t == HINFO:
        d = charstr(r, [b"INTEL-386", b"RFC8482", "À-CPU".encode("latin-1"), b"\xc0\x0c"]) + charstr(r, [b"UNIX", b"", b"\xc0\x0c"])
    elif t == R.OPT:
        opts = []
        for _ in range(r.choice([0, 0, 1, 2])):
            code, val = r.choice([(10, r.randbytes(8)), (10, r.randbytes(24)), (8, b"\x00\x01\x18\x00\xc0\x00\x02"), (12, b"\x00" * r.choice([3, 40])), (15, b"\x00\x17")])
            opts.append(struct.pack("!HH", code, len(val)) + val)
        d = b"".join(opts)
    elif t in (R.HTTPS, R.SVCB):
        # priority, target name (never compressed), alpn + ipv4hint params
        tgt = R.name_wire(zone.rdata_name(exotic_ok))
        d = struct.pack("!H", r.choice([0, 1, 1, 0xC00C])) + tgt + r.choice([b"", b"\x00\x01\x00\x06\x02h2\x02h3", b"\x00\x04\x00\x04\xc0\x00\x02\x01"])
    elif t == 257:
        d = bytes([r.choice([0, 128])]) + charstr(r, [b"issue", b"iodef"]) + r.choice([b"letsencrypt.org", b"mailto:x@example.com", b";"])
    elif t == 43:
        d = struct.pack("!HBB", r.getrandbits(16), 13, 2) + r.randbytes(32)
    elif t == 48:
        d = struct.pack("!HBB", r.choice([256, 257]), 3, 13) + r.randbytes(64)
    elif t == 10:
        d = r.choice([b"", b"\xc0\x0c", r.randbytes(r.choice([1, 7, 64]))])
    else:
        d = r.choice([b"", b"\xc0\x0c", b"\x03www\xc0\x0c", r.randbytes(r.choice([1, 2, 16, 100]))])
    return {"rdata": d}, f


RR_TYPES = [1, 1, 28, 28, 2, 2, 5, 5, 12, 15, 15, 6, 6, 33, 33, 16, 16, 16, 35, 13, 14, 17, 18, 21, 26, 24, 30, 36, 39, 46, 47, 10, 43, 48, 64, 65, 257,
            3, 4, 7, 8, 9]


def gen_rr(r, zone: Zone, t=None, owner=None, exotic_ok=True):
    if t is None:
        t = r.choice(RR_TYPES) if r.random() < 0.93 else r.choice([99, 256, 65280, 65534, r.randrange(260, 65000)])
    fields, f = rdata_for(r, t, zone, exotic_ok)
    rr = {"name": zone.name() if owner is None else owner, "type": t, "class": r.choice([1, 1, 1, 1, 3, 254, 255]),
          "ttl": r.choice([0, 30, 60, 300, 3600, 86400, 2**31 - 1, 0xC00C0000, r.getrandbits(32)]), **fields}
    if "rdata_parts" in rr:
        rr["rdata"] = R.expand_parts(rr["rdata_parts"])
    return rr, f


def gen_opt(r):
    fields, _ = rdata_for(r, R.OPT, None)
    return {"name": (), "type": R.OPT, "class": r.choice([512, 1232, 4096, 65535]), "ttl": r.choice([0, 0x8000, 0x00008000, 0x01000000]), **fields}


def realistic_message(r, zone: Zone, *, response: bool, mid: int, question=None):
    """A message as real software produces it: a plain/EDNS query, an UPDATE/NOTIFY, or a response with records."""
    f = set()
    if question is None:
        question = {"name": zone.name(allow_root=r.random() < 0.1), "type": r.choice([1, 28, 15, 16, 2, 6, 33, 12, 255, 65, 5]), "class": r.choice([1, 1, 1, 3, 255])}
    msg = {"id": mid, "qr": response, "opcode": 0, "aa": False, "tc": False, "rd": r.random() < 0.8, "ra": False, "z": 0, "rcode": 0,
           "questions": [question], "answers": [], "authorities": [], "additionals": []}
    if r.random() < 0.25:
        msg["z"] = r.choice([1, 2, 3, 4, 7])  # CD, AD, both, the reserved bit
        f.add("z-bits")
    if not response:
        kind = r.choice(["plain", "plain", "edns", "edns", "update", "notify", "multi-q", "no-q"])
        if kind == "update":
            msg.update(opcode=5, rd=False)
            msg["questions"] = [{"name": r.choice(zone.apex), "type": 6, "class": 1}]
            for _ in range(r.choice([1, 2, 3])):
                rr, f2 = gen_rr(r, zone)
                f |= f2
                msg["authorities"].append(rr)
            if r.random() < 0.5:
                rr, _ = gen_rr(r, zone)
                msg["answers"].append(rr)  # prerequisite section
        elif kind == "notify":
            msg.update(opcode=4, aa=True, rd=False)
            msg["questions"] = [{"name": r.choice(zone.apex), "type": 6, "class": 1}]
            if r.random() < 0.6:
                rr, _ = gen_rr(r, zone, t=6, owner=msg["questions"][0]["name"])
                msg["answers"].append(rr)
        elif kind == "multi-q":
            msg["questions"] = [question, {"name": zone.name(), "type": 28, "class": 1}]
        elif kind == "no-q":
            msg["questions"] = []
        if kind == "edns" or r.random() < 0.2:
            msg["additionals"].append(gen_opt(r))
        f.add("q:" + kind)
        return msg, f
    msg.update(aa=r.random() < 0.4, tc=r.random() < 0.08, ra=r.random() < 0.8, rcode=r.choice([0, 0, 0, 0, 3, 2, 5, r.randint(0, 15)]),
               opcode=r.choice([0, 0, 0, 0, 4, 5, r.randint(0, 15)]))
    qname = question["name"]
    n_an = r.choice([0, 1, 1, 2, 3, 5]) if r.random() < 0.97 else r.choice([20, 60])
    owner = qname
    for _ in range(n_an):
        k = r.random()
        if k < 0.25:
            rr, f2 = gen_rr(r, zone, t=5, owner=owner, exotic_ok=False)  # CNAME chain: the target becomes the next owner name
            owner = rr["rdata_parts"][0][1]
        elif k < 0.6 and question["type"] not in (255,):
            rr, f2 = gen_rr(r, zone, t=question["type"] if question["type"] != 41 else 1, owner=owner)
        else:
            rr, f2 = gen_rr(r, zone, owner=owner if r.random() < 0.5 else None)
        f |= f2
        msg["answers"].append(rr)
    for _ in range(r.choice([0, 0, 1, 2])):
        rr, f2 = gen_rr(r, zone, t=r.choice([2, 6, 6, 47, 46, 2]), owner=r.choice(zone.apex))
        f |= f2
        msg["authorities"].append(rr)
    for _ in range(r.choice([0, 0, 1, 3])):
        rr, f2 = gen_rr(r, zone, t=r.choice([1, 28, 1, 28, 16, 33]))
        f |= f2
        msg["additionals"].append(rr)
    if r.random() < 0.4:
        msg["additionals"].append(gen_opt(r))
    if n_an >= 20:
        f.add("many-records")
    return msg, f


# ---- encoder -----------------------------------------------------------------------------------------------------------------

def encode(msg: dict, compress_owner: bool, rdata_types=frozenset()) -> bytes:
    """Reference encoding; owner/question names compressed iff ``compress_owner`` (names inside RDATA still become pointer
    targets); names inside RDATA compressed for the record types in ``rdata_types``."""
    w = R._Writer(True)
    secs = [msg.get("questions", []), msg.get("answers", []), msg.get("authorities", []), msg.get("additionals", [])]
    w.out += struct.pack("!HHHHHH", msg.get("id", 0), R.flags_of(msg), *(len(s) for s in secs))
    for q in secs[0]:
        w.name(q["name"], allow_compress=compress_owner)
        w.out += struct.pack("!HH", q["type"], q["class"])
    for sec in secs[1:]:
        for rr in sec:
            w.name(rr["name"], allow_compress=compress_owner)
            fix_at = len(w.out)
            w.out += struct.pack("!HHIH", rr["type"], rr["class"], rr["ttl"], 0)
            start = len(w.out)
            parts = rr.get("rdata_parts")
            if parts is None:
                w.out += rr["rdata"]
            else:
                for p in parts:
                    if isinstance(p, tuple):
                        w.name(p[1], allow_compress=rr["type"] in rdata_types)
                    else:
                        w.out += p
            rdlen = len(w.out) - start
            if rdlen > 0xFFFF:
                raise ValueError("RDATA longer than 65535 octets")
            struct.pack_into("!H", w.out, fix_at + 8, rdlen)
    return bytes(w.out)


def _has_ptr(buf: bytes, off: int) -> bool:
    """Does the name written at ``off`` end in a compression pointer (rather than the root octet)?"""
    while True:
        b = buf[off]
        if b & 0xC0 == 0xC0:
            return True
        if b == 0:
            return False
        off += 1 + b


def wire_features(buf: bytes, dec: dict) -> set:
    """Features of an encoded message computed from the bytes and their reference decoding (input properties)."""
    f = set()
    pos = 12
    try:
        for q in dec["questions"]:
            if _has_ptr(buf, pos):
                f.add("owner-compressed")
            _, pos = R.read_name(buf, pos)
            pos += 4
        for sec in ("answers", "authorities", "additionals"):
            for rr in dec[sec]:
                if _has_ptr(buf, pos):
                    f.add("owner-compressed")
                pos = rr["rdata_offset"] + len(rr["rdata"])
                if rr["names"] and rr["rdata"] != rr["rdata_expanded"]:
                    f.add("rdata-compressed")
                    o = rr["rdata_offset"]
                    for p in rr["rdata_parts"]:
                        if isinstance(p, tuple):
                            if buf[o] & 0xC0 != 0xC0 and _has_ptr(buf, o):
                                f.add("rdata-label+pointer")
                            _, o = R.read_name(buf, o)
                        else:
                            o += len(p)
                    if len(rr["names"]) >= 2:
                        f.add("rdata-two-names")
                if opaque_has_c0(rr):
                    f.add("opaque-c0:" + TYPE_NAMES.get(rr["type"], "other"))
                if rr["names"]:
                    lit, ptd = rdata_name_labels(buf, rr)
                    for lab in lit:
                        if label_feature(lab) or b" " in lab:
                            f.add("rdata-exotic-literal")
                    for lab in ptd:
                        if label_feature(lab) or b" " in lab:
                            f.add("rdata-exotic-behind-pointer")
    except (R.DecodeError, IndexError):
        f.add("feature-walk-failed")
    for lab in all_labels(dec):
        lf = label_feature(lab)
        if lf:
            f.add(lf)
        elif lab[:4] == b"xn--":
            f.add("idn")
        if lab != lab.lower():
            f.add("upper")
    return f


def opaque_octets(rr: dict) -> bytes:
    """The RDATA octets of a decoded record that are not part of a domain name (whole RDATA for types without names)."""
    parts = rr.get("rdata_parts")
    if parts is None:
        return rr["rdata"]
    return b"".join(p for p in parts if not isinstance(p, tuple))


def opaque_has_c0(rr: dict) -> bool:
    return any(b >= 0xC0 for b in opaque_octets(rr))


def split_name_at(buf: bytes, off: int):
    """The name written at ``off`` -> (labels written literally at this position, labels reached through its compression pointer)."""
    literal = []
    while True:
        b = buf[off]
        if b & 0xC0 == 0xC0:
            return literal, list(R.read_name(buf, off)[0])
        if b == 0:
            return literal, []
        literal.append(bytes(buf[off + 1 : off + 1 + b]))
        off += 1 + b


def rdata_name_labels(buf: bytes, rr: dict):
    """For a decoded record with parsed RDATA -> (all literal labels of its RDATA names, all labels behind pointers)."""
    literal, pointed = [], []
    o = rr["rdata_offset"]
    for p in rr.get("rdata_parts") or ():
        if isinstance(p, tuple):
            lit, ptd = split_name_at(buf, o)
            literal += lit
            pointed += ptd
            _, o = R.read_name(buf, o)
        else:
            o += len(p)
    return literal, pointed


def owner_labels(dec: dict):
    """Labels of question and owner names (the names mitmproxy holds as text)."""
    for q in dec["questions"]:
        yield from q["name"]
    for sec in ("answers", "authorities", "additionals"):
        for rr in dec[sec]:
            yield from rr["name"]


def all_labels(dec: dict):
    for q in dec["questions"]:
        yield from q["name"]
    for sec in ("answers", "authorities", "additionals"):
        for rr in dec[sec]:
            yield from rr["name"]
            for n in rr.get("names", ()):
                yield from n


# ---- TCP framing (independent) -------------------------------------------------------------------------------------------------

def frame(b: bytes, transport: str) -> bytes:
    return struct.pack("!H", len(b)) + b if transport == "tcp" else b


def split_frames(stream: bytes):
    """-> (messages, status, rest): status 'ok' (rest = incomplete tail, possibly empty) or 'zero-length' (rest = from the bad prefix)."""
    msgs = []
    pos = 0
    n = len(stream)
    while n - pos >= 2:
        ln = (stream[pos] << 8) | stream[pos + 1]
        if ln == 0:
            return msgs, "zero-length", stream[pos:]
        if n - pos - 2 < ln:
            break
        msgs.append(bytes(stream[pos + 2 : pos + 2 + ln]))
        pos += 2 + ln
    return msgs, "ok", bytes(stream[pos:])


# ---- peers / driver ------------------------------------------------------------------------------------------------------------

class DnsUpstream(sansio.Peer):
    """Reactive upstream: ``responder(k, message_bytes, peer)`` is called for the k-th complete message the proxy wrote and
    returns a list of actions: bytes (a DNS message to send, framed here), ("raw", bytes) (sent as is), or "close"."""

    def __init__(self, transport, responder, rng=None, seg="whole", coalesce=False):
        """coalesce (TCP only): everything produced while handling one write of the proxy is sent as ONE stream chunk that is
        then cut by ``seg`` ('split' = one random split point), so several replies can share a segment; ("raw", ...) actions
        always travel in segments of their own."""
        super().__init__()
        self.coalesce = coalesce and transport == "tcp"
        self._pending = bytearray()
        self.segments = []  # TCP: the segments written, in order
        self.transport = transport
        self.responder = responder
        self.rng = rng
        self.seg = seg
        self.messages = []  # complete messages received from the proxy
        self.sent = []  # DNS messages sent (unframed)
        self.sent_stream = bytearray()  # everything sent, as on the wire
        self.bad_framing = None
        self._consumed = 0
        self.closed = False

    def on_data(self, data):
        if self.transport == "udp":
            new = [bytes(data)]
        else:
            msgs, status, rest = split_frames(bytes(self.received))
            if status != "ok":
                self.bad_framing = status
            new = msgs[len(self.messages):]
        for m in new:
            k = len(self.messages)
            self.messages.append(m)
            if self.closed:
                continue
            for act in self.responder(k, m, self) or ():
                if self.closed:
                    break
                if act == "close":
                    self.flush()
                    self.close()
                    self.closed = True
                elif isinstance(act, tuple):
                    self.emit(act[1], raw=True)
                else:
                    self.sent.append(act)
                    self.emit(frame(act, self.transport))
        self.flush()

    def emit(self, wire: bytes, raw=False):
        self.sent_stream += wire
        if self.transport == "udp":
            self.send(wire)
        elif self.coalesce and not raw:
            self._pending += wire
        else:
            self.flush()
            self._cut_and_send(wire)

    def _cut_and_send(self, wire: bytes):
        mode = self.seg
        if mode == "split":
            mode = self.rng.randrange(1, max(2, len(wire)))
        elif isinstance(mode, tuple) and mode[0] == "chunk":  # fixed-size segments, e.g. what reader.read(65535) returns under load
            mode = list(range(mode[1], len(wire), mode[1]))
        for s in cut(wire, self.rng, mode):
            self.segments.append(bytes(s))
            self.send(s)

    def flush(self):
        if self._pending:
            wire = bytes(self._pending)
            self._pending.clear()
            self._cut_and_send(wire)


def top_factory(ctx):
    from mitmproxy.proxy.layers.dns import DNSLayer

    ctx.server.address = SERVER_ADDR
    return DNSLayer(ctx)


def make_driver(transport, options, rng, **kw):
    client = sansio.make_client(f"reverse:dns://{SERVER_ADDR[0]}:{SERVER_ADDR[1]}", transport=transport)
    return sansio.Driver(top_factory, client=client, options=options, rng=rng, **kw)


def client_messages(d, transport):
    """What the proxy wrote to the client, as DNS messages -> (messages, framing status, rest)."""
    if transport == "udp":
        return [bytes(data) for _, conn, data in d.out_log if conn is d.client], "ok", b""
    return split_frames(bytes(d.out[d.client]))
