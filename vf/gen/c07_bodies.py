"""Case specs for C07 (body_size_limit enforcement + exact streaming) on engine A, HTTP/1 in both directions.

A case is 1-2 sequential requests on one client connection.  Each request/response pair has a body whose size is
chosen around the two configured thresholds, a framing (Content-Length / chunked / close-delimited) and an optional
addon stream action (set in the requestheaders / responseheaders hook).  Everything is a pure function of the rng.
"""
from __future__ import annotations

import re

from vf.gen import h1 as gen

SIZE_STRINGS = [None, "0", "1", "3", "10", "37", "64b", "100", "1k", "2k"]
BIG_SIZE_STRINGS = ["64k", "1m"]
MODES = ["regular", "regular", "transparent", "reverse:http://example.com:80"]

# Transfer-Encoding spellings with chunked as the final coding that mitmproxy's reader accepts (net/http/validate.py: chunked,
# gzip/deflate/compress + chunked, any case, optional whitespace around the comma; the transfer codings are opaque to a proxy)
TE_SPELLINGS = [
    b"chunked", b"Chunked", b"CHUNKED", b"gzip, chunked", b"gzip,chunked", b"GZip ,\tChunked", b"deflate , chunked", b"deflate,chunked",
    b"compress,chunked", b"compress, chunked",
]


def te_compound(te: bytes) -> bool:
    return te.strip().lower() != b"chunked"


# stream actions; value = (length_preserving, may_return_empty_piece_mid_stream)
ACTIONS = {
    "true": (True, False),
    "identity": (True, False),
    "upper": (True, False),
    "split": (True, False),  # generator of two non-empty halves (one piece for 1-byte chunks)
    "list": (True, True),  # list [first byte, rest] -- rest may be empty
    "tail": (True, True),  # holds everything back (returns b"") and flushes on the final b"" call
    "drop": (False, True),  # every second data chunk is replaced by b""
    "double": (False, False),
}


def ref_size(s):
    """Independent reading of mitmproxy's documented size syntax: integer with optional b/k/m/g/t suffix (powers of 1024)."""
    if s is None:
        return None
    m = re.fullmatch(r"(\d+)([bkmgt]?)", s)
    if not m:
        raise ValueError(s)
    return int(m.group(1)) * 1024 ** "bkmgt".index(m.group(2) or "b")


def make_body(kind: bytes, tag: bytes, n: int) -> bytes:
    """n deterministic bytes: a marker naming direction + tag, then a pattern with lower-case letters (so that upper() is
    visible) and byte sequences that look like chunk framing / message heads (so a confused framer is visible)."""
    if n <= 0:
        return b""
    unit = kind + b":" + tag + b":abcdefghijklmnopqrstuvwxyz0123456789\r\n0\r\n\r\nHTTP/1.1 200 OK\r\n\r\n5\r\nhello\r\n"
    reps = n // len(unit) + 1
    return (unit * reps)[:n]


def pick_sizes(rng, L, T):
    c = {0, 1, 2, rng.randint(0, 200), rng.randint(200, 3000)}
    for x in (L, T):
        if x is not None:
            c.update({x - 1, x, x + 1, x + rng.randint(2, 50), 2 * x + 3})
    if L is not None and T is not None:
        c.add((L + T) // 2)
    c.add(rng.choice([5000, 9000, 20000]))
    return sorted(x for x in c if x >= 0)


def gen_message_plan(rng, direction, L, T, sizes, last):
    """direction 'req' | 'resp' -> dict(framing, n, action)."""
    if direction == "req":
        framing = rng.choice(["cl", "cl", "chunked", "chunked", "none"])
    else:
        framing = rng.choice(["cl", "cl", "chunked", "chunked", "eof"]) if last else rng.choice(["cl", "chunked"])
    n = 0 if framing == "none" else rng.choice(sizes)
    action = None
    if rng.random() < 0.45:
        names = [a for a, (lp, _) in ACTIONS.items() if lp or framing in ("chunked", "eof")]
        action = rng.choice(names)
    plan = {"framing": framing, "n": n, "action": action}
    if framing == "chunked":
        plan["te"] = rng.choice(TE_SPELLINGS) if rng.random() < 0.4 else b"chunked"
    return plan


def build_request(rng, k, mode, plan, expect100):
    nonce = b"%06x" % rng.getrandbits(24)
    tag = b"t%d-%s" % (k, nonce)
    method = rng.choice(["POST", "PUT", "PATCH"]) if plan["framing"] != "none" else rng.choice(["GET", "POST", "DELETE"])
    path = b"/" + tag
    target = (b"http://example.com" + path) if mode == "regular" else path
    body = make_body(b"RQ", tag, plan["n"])
    head = method.encode() + b" " + target + b" HTTP/1.1\r\nHost: example.com\r\n"
    feats = set()
    wire = body
    if plan["framing"] == "cl":
        head += b"Content-Length: %d\r\n" % len(body)
    elif plan["framing"] == "chunked":
        head += b"Transfer-Encoding: " + plan.get("te", b"chunked") + b"\r\n"
        wire, cf = gen.chunked(body, rng, exts=False, hexcase=rng.random() < 0.2)
        feats |= cf
    if expect100 and plan["framing"] != "none":
        head += b"Expect: 100-continue\r\n"
        feats.add("expect")
    head += b"\r\n"
    return {"tag": tag, "method": method, "raw": head + wire, "head_len": len(head), "body": body, "feats": feats}


def build_response(rng, tag, plan):
    body = make_body(b"RS", tag, plan["n"])
    head = b"HTTP/1.1 200 OK\r\nx-tag: " + tag + b"\r\n"
    wire = body
    close_after = False
    if plan["framing"] == "cl":
        head += b"Content-Length: %d\r\n" % len(body)
    elif plan["framing"] == "chunked":
        head += b"Transfer-Encoding: " + plan.get("te", b"chunked") + b"\r\n"
        wire, _ = gen.chunked(body, rng, exts=False, hexcase=rng.random() < 0.2)
    else:
        close_after = True
    head += b"\r\n"
    return {"raw": head + wire, "head_len": len(head), "body": body, "close_after": close_after}


def gen_case(rng, tier="quick"):
    mode = rng.choice(MODES)
    pool = SIZE_STRINGS + (BIG_SIZE_STRINGS if rng.random() < (0.03 if tier == "quick" else 0.06) else [])
    limit = rng.choice(pool) if rng.random() < 0.75 else None
    stream = rng.choice(pool) if rng.random() < 0.6 else None
    # early focus: an origin that answers as soon as it has the request head, while a streamed request body is still uploading
    early_focus = rng.random() < 0.2
    store = rng.random() < (0.8 if early_focus else 0.4)
    L, T = ref_size(limit), ref_size(stream)
    sizes = pick_sizes(rng, L, T)
    nreq = rng.choice([1, 1, 2])
    items = []
    for k in range(nreq):
        last = k == nreq - 1
        rq_plan = gen_message_plan(rng, "req", L, T, sizes, last)
        rs_plan = gen_message_plan(rng, "resp", L, T, sizes, last)
        if early_focus:
            for _ in range(30):
                if classify_plan(rq_plan, L, T) == "stream" and rq_plan["n"] >= 2 and rs_plan["framing"] != "eof":
                    break
                rq_plan = gen_message_plan(rng, "req", L, T, sizes + [rng.randint(20, 400)], last)
                rs_plan = gen_message_plan(rng, "resp", L, T, sizes, last)
        early = classify_plan(rq_plan, L, T) == "stream" and rq_plan["n"] >= 2 and rs_plan["framing"] != "eof" and (early_focus or rng.random() < 0.3)
        rq = build_request(rng, k, mode, rq_plan, expect100=rng.random() < 0.08 and not early)
        rs = build_response(rng, rq["tag"], rs_plan)
        items.append({"req": rq, "resp": rs, "rq_plan": rq_plan, "rs_plan": rs_plan, "early": early})
    big = max(max(len(it["req"]["raw"]), len(it["resp"]["raw"])) for it in items)
    segs = ["whole", "random", "random", "fixed"] + (["bytes"] if big < 1500 else [])
    any_early = any(it["early"] for it in items)
    return {
        "mode": mode,
        "options": {"body_size_limit": limit, "stream_large_bodies": stream, "store_streamed_bodies": store},
        "L": L,
        "T": T,
        "store": store,
        "items": items,
        "client_seg": rng.choice(segs[1:] if any_early else segs),  # an upload in one segment is complete before any answer
        "server_seg": rng.choice(segs),
        "early": any_early,
        "fixed_seg": rng.choice([f for f in (1, 2, 3, 5, 7, 16, 100, 1000, 4096, 16384, 65536) if big / f <= 1200] or [1 << 20]),
        "schedule": rng.choice(["fifo", "random", "random"]),
        "delay_p": rng.choice([0.0, 0.0, 0.3]),
    }


def segments(data: bytes, rng, mode, fixed):
    """Segment list for data under the case's segmentation mode."""
    from vf import peers

    if mode == "fixed":
        return [data[i : i + fixed] for i in range(0, len(data), fixed)]
    if mode == "bytes" and len(data) > 3000:
        mode = "random"
    return peers.cut(data, rng, mode)


def classify_plan(plan, L, T):
    """Reference decision for one message, from its framing, size and the thresholds (independent of the code under test):
    'nobody'          no body is announced / an empty Content-Length body: nothing to limit or stream
    'abort'           must be refused (known to exceed the limit, and streaming cannot have engaged before that is known)
    'abort-or-stream' unknown length, size > limit, stream threshold < limit: whichever is crossed first by the buffered bytes
                      decides (depends on how much arrives at once); both outcomes are checked for consistency
    'stream'          must be streamed (addon action, or threshold known/bound to be crossed first)
    'buffer'          buffered and forwarded whole
    """
    fr, n, action = plan["framing"], plan["n"], plan["action"]
    if fr == "none" or (fr == "cl" and n == 0):
        return "nobody"
    if fr == "cl":
        if L is not None and n > L:
            return "abort"
        if action is not None or (T is not None and n > T):
            return "stream"
        return "buffer"
    # unknown length (chunked / close-delimited)
    if action is not None:
        return "stream"
    if L is not None and n > L:
        if T is not None and T < L:
            return "abort-or-stream"
        return "abort"
    if T is not None and n > T:
        return "stream"
    return "buffer"


def max_chunk(req):
    """Largest chunk-size announced in the chunked wire body of a generated request (0 if none)."""
    wire = req["raw"][req["head_len"] :]
    pos, best = 0, 0
    while pos < len(wire):
        eol = wire.find(b"\r\n", pos)
        if eol < 0:
            break
        try:
            n = int(wire[pos:eol].split(b";")[0].strip(), 16)
        except ValueError:
            break
        if n == 0:
            break
        best = max(best, n)
        pos = eol + 2 + n + 2
    return best


TE_MODES = ["buffered", "early", "late", "late-store", "early-store", "callable"]
TE_MATRIX = [(te, m, d) for te in TE_SPELLINGS for m in TE_MODES for d in ("req", "resp")]


def gen_te_case(rng, k):
    """Fixed matrix: every accepted Transfer-Encoding spelling x streaming mode x direction, one chunked message each.
    buffered: no threshold; early: addon enables streaming at the head; late: stream_large_bodies crossed by the buffered bytes
    (switch in mid-body); *-store: the same with store_streamed_bodies; callable: addon stream callable (upper-casing)."""
    te, tmode, direction = TE_MATRIX[k % len(TE_MATRIX)]
    mode = rng.choice(MODES)
    stream = "10" if tmode.startswith("late") else None
    store = tmode.endswith("store")
    action = {"buffered": None, "early": "true", "early-store": "true", "callable": "upper"}.get(tmode)
    n = rng.choice([1, 11, 12, 60, 300, 2500])
    if tmode.startswith("late"):
        n = max(n, 11)
    body_plan = {"framing": "chunked", "n": n, "action": action, "te": te}
    none_rq = {"framing": "none", "n": 0, "action": None}
    small_rs = {"framing": "cl", "n": 5, "action": None}
    rq_plan, rs_plan = (body_plan, small_rs) if direction == "req" else (none_rq, body_plan)
    rq = build_request(rng, 0, mode, rq_plan, expect100=False)
    rs = build_response(rng, rq["tag"], rs_plan)
    big = max(len(rq["raw"]), len(rs["raw"]))
    return {
        "mode": mode,
        "options": {"body_size_limit": None, "stream_large_bodies": stream, "store_streamed_bodies": store},
        "L": None,
        "T": ref_size(stream),
        "store": store,
        "items": [{"req": rq, "resp": rs, "rq_plan": rq_plan, "rs_plan": rs_plan, "early": False}],
        "client_seg": rng.choice(["whole", "random", "fixed", "bytes"] if big < 1500 else ["whole", "random", "fixed"]),
        "server_seg": rng.choice(["whole", "random", "fixed", "bytes"] if big < 1500 else ["whole", "random", "fixed"]),
        "early": False,
        "fixed_seg": rng.choice([1, 3, 7, 16, 100]) if big < 1500 else rng.choice([16, 100, 1000]),
        "schedule": rng.choice(["fifo", "random"]),
        "delay_p": rng.choice([0.0, 0.0, 0.3]),
        "te_matrix": (te, tmode, direction),
    }
