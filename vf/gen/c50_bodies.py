"""Body generators for C50 (content views): structured hostile inputs for every registered view.

Every generator takes a random.Random and returns (bytes, content_type|None, matching_view_name, kind).
All sizes / nesting depths are capped (protobuf view is super-linear in nesting depth: depth 400 ~ 10 s).
"""
from __future__ import annotations

import io
import json
import struct
import zipfile
import zlib

C0 = ["\x1b]0;PWN\x07", "\x1b[2J", "\x07", "\x08", "\x7f", "\x00", "\x0b", "\x0c", "\x1bc", "\x0e", "\x1f", "\x01"]
C1 = ["\x9b2J", "\x9d0;PWN\x9c", "\x85", "\x90q\x9c", "\x80", "\x9f", "\x8d", "\x96"]
WORDS = ["", "a", "key", "value with space", "true", "null", "~", "0x10", "1e3", "- x", "a: b", "#c", "'", '"', "\\", "\\x1b", "\\u001b", "%1b", "&#27;", "&#x9b;", "é", "日本", " ", "﻿", "{", "}", ";", "/*", "*/", "//", "<", ">", "]]>", "`", "\n", "\r\n", "\t"]


def s(r, ctl=0.6, n=None):
    """hostile text"""
    parts = []
    for _ in range(n or r.randint(1, 4)):
        x = r.random()
        if x < ctl / 2:
            parts.append(r.choice(C0))
        elif x < ctl:
            parts.append(r.choice(C1))
        else:
            parts.append(r.choice(WORDS))
    return "".join(parts)


def rb(r, n):
    return bytes(r.getrandbits(8) for _ in range(n))


def g_random(r):
    n = r.choice([0, 1, 2, 3, 5, 8, 20, 64, 200, 800])
    return rb(r, n), None, "hex dump", "random"


def g_text(r):
    t = s(r, 0.7, r.randint(1, 8))
    enc = r.choice(["utf-8", "utf-8", "latin-1", "utf-16", "utf-16-be", "utf-8-sig"])
    b = t.encode(enc, "replace")
    ct = r.choice([None, "text/plain", "text/plain; charset=" + enc, "text/plain; charset=bogus", "application/octet-stream"])
    return b, ct, "raw", "text"


def jval(r, depth=0):
    x = r.random()
    if depth > 4 or x < 0.35:
        return r.choice([s(r), s(r), r.randint(-5, 10**r.choice([1, 5, 30])), r.random() * 1e10, True, None, "\ud800" if r.random() < 0.1 else "x"])
    if x < 0.65:
        return [jval(r, depth + 1) for _ in range(r.randint(0, 3))]
    return {s(r): jval(r, depth + 1) for _ in range(r.randint(0, 3))}


def g_json(r):
    v = jval(r)
    x = r.random()
    if x < 0.45:
        b = json.dumps(v, ensure_ascii=True).encode()
    elif x < 0.8:
        b = json.dumps(v, ensure_ascii=False).encode("utf-8", "surrogatepass")
    elif x < 0.85:
        b = b"[" * r.choice([50, 2000, 100000]) + b"]" * r.choice([0, 50])
    elif x < 0.9:
        b = b'{"a": ' + b"9" * r.choice([100, 5000]) + b"}"
    elif x < 0.95:
        b = r.choice([b"NaN", b"[Infinity, -Infinity]", b'{"a": 1} trailing', b'"\\ud800"', b'"\x9b"', b"\xef\xbb\xbf{}", b"  \n{}"])
    else:
        b = json.dumps(v).encode("utf-16")
    ct = r.choice(["application/json", "application/json; charset=utf-8", "application/vnd.api+json", "application/json-rpc", "text/json"])
    return b, ct, "json", "json"


def g_graphql(r):
    q = {"query": "query Q {\n  " + s(r) + "\n}", "variables": {s(r): jval(r, 3)}, "operationName": s(r)}
    x = r.random()
    if x < 0.5:
        v = q
    elif x < 0.8:
        v = [q, dict(q), {"query": s(r)}]
    elif x < 0.9:
        v = {"query": r.choice([1, None, ["\n"], {"\n": 1}])}
    else:
        v = [{"query": 1}, 5]
    return json.dumps(v, ensure_ascii=r.random() < 0.5).encode("utf-8", "surrogatepass"), "application/json", "graphql", "graphql"


def g_xml(r):
    def node(d):
        tag = r.choice(["a", "div", "p", "script", "style", "x:y", s(r, 0.3, 1).replace(" ", "") or "t"])
        attrs = "".join(f" {r.choice(['id', 'class', s(r, 0.3, 1) or 'k'])}={r.choice(['\"', chr(39), ''])}{s(r)}{r.choice(['\"', chr(39), ''])}" for _ in range(r.randint(0, 2)))
        if d > 4 or r.random() < 0.3:
            body = s(r)
        else:
            body = "".join(node(d + 1) for _ in range(r.randint(0, 3)))
        x = r.random()
        if x < 0.1:
            return f"<{tag}{attrs}/>"
        if x < 0.2:
            return f"<{tag}{attrs}>{body}"  # unclosed
        if x < 0.3:
            return f"<!-- {s(r)} -->{body}<![CDATA[{s(r)}]]>"
        if x < 0.35:
            return f"<?{tag} {s(r)}?>"
        return f"<{tag}{attrs}>{body}</{tag}>"

    head = r.choice(["", "<?xml version='1.0' encoding='utf-8'?>", "<!DOCTYPE html>", "<!DOCTYPE x [<!ENTITY e '" + s(r) + "'>]>", "\r\n  "])
    t = head + node(0)
    enc = r.choice(["utf-8", "utf-8", "utf-8", "latin-1", "utf-16"])
    ct = r.choice(["text/html", "application/xml", "text/xml", "application/xhtml+xml", "image/svg+xml", "text/html; charset=" + enc, None])
    return t.encode(enc, "replace"), ct, "xml/html", "xml"


def g_css(r):
    rules = []
    for _ in range(r.randint(1, 5)):
        sel = r.choice(["a", ".c", "#i", "a > b", "@media screen", s(r, 0.3, 1)])
        decls = ";".join(f"{r.choice(['color', 'content', s(r, 0.3, 1)])}:{r.choice(['red', chr(39) + s(r) + chr(39), chr(34) + s(r) + chr(34), 'url(' + s(r) + ')', s(r)])}" for _ in range(r.randint(0, 3)))
        rules.append(f"{sel}{{{decls}}}" if r.random() < 0.85 else f"{sel}{{{decls}")
        if r.random() < 0.3:
            rules.append(r.choice(["/* " + s(r) + " */", "// " + s(r), "/* unterminated " + s(r), "'" + s(r)]))
    t = r.choice(["", "\n", " "]).join(rules)
    b = t.encode("utf-8") if r.random() < 0.8 else t.encode("latin-1", "replace")
    return b, "text/css", "viewcss", "css"


def g_js(r):
    stm = []
    for _ in range(r.randint(1, 6)):
        stm.append(
            r.choice(
                [
                    "var a = '" + s(r) + "';",
                    'let b = "' + s(r) + '";',
                    "const c = `" + s(r) + "${x}`;",
                    "function f(){ return /" + s(r, 0.3) + "/g; }",
                    "// " + s(r),
                    "/* " + s(r) + " */",
                    "for(;;){" + s(r) + "}",
                    "if(a){b}else{c};",
                    "x = {a: {b: {c: '" + s(r) + "'}}};",
                    "'unterminated " + s(r),
                    "}}}}",
                ]
            )
        )
    t = r.choice(["", "\n"]).join(stm)
    b = t.encode("utf-8") if r.random() < 0.8 else t.encode("latin-1", "replace")
    return b, r.choice(["application/javascript", "text/javascript", "application/x-javascript"]), "javascript", "js"


def varint(n):
    out = bytearray()
    while True:
        x = n & 0x7F
        n >>= 7
        if n:
            out.append(x | 0x80)
        else:
            out.append(x)
            return bytes(out)


def pb_msg(r, depth=0):
    out = bytearray()
    for _ in range(r.randint(0, 5)):
        fno = r.choice([1, 2, 3, 15, 16, 2047, 2**28, 0, 2**29 - 1])
        wt = r.choice([0, 0, 1, 2, 2, 2, 5, 3, 4, 6, 7])
        out += varint((fno << 3) | wt)
        if wt == 0:
            out += varint(r.choice([0, 1, 127, 128, 2**32, 2**63, 2**64 - 1])) if r.random() < 0.9 else b"\xff" * 11
        elif wt == 1:
            out += rb(r, 8) if r.random() < 0.7 else struct.pack("<d", r.choice([0.0, 1.5, float("nan"), float("inf")]))
        elif wt == 5:
            out += rb(r, 4)
        elif wt == 2:
            x = r.random()
            if x < 0.4:
                payload = s(r).encode()
            elif x < 0.7 and depth < 6:
                payload = pb_msg(r, depth + 1)
            elif x < 0.85:
                payload = rb(r, r.randint(0, 20))
            else:
                payload = b"".join(varint(r.randint(0, 300)) for _ in range(r.randint(1, 6)))  # packed
            ln = len(payload) if r.random() < 0.93 else r.choice([len(payload) + 5, 2**31, 0])
            out += varint(ln) + payload
    return bytes(out)


def g_protobuf(r):
    b = pb_msg(r)
    if r.random() < 0.1:
        b = b[: r.randint(0, len(b))]
    return b, r.choice(["application/x-protobuf", "application/protobuf", "application/x-protobuffer"]), "protobuf", "protobuf"


def g_grpc(r):
    frames = bytearray()
    for _ in range(r.randint(1, 3)):
        m = pb_msg(r)
        flag = r.choice([0, 0, 0, 1, 2, 255])
        if flag == 1 and r.random() < 0.7:
            m = zlib.compress(m) if r.random() < 0.5 else __import__("gzip").compress(m)
        ln = len(m) if r.random() < 0.9 else r.choice([0, len(m) + 1, 2**32 - 1])
        frames += bytes([flag]) + struct.pack("!I", ln) + m
    return bytes(frames), r.choice(["application/grpc", "application/grpc+proto", "application/grpc-web+proto"]), "grpc", "grpc"


def mqtt_str(r):
    b = s(r).encode() if r.random() < 0.85 else rb(r, r.randint(0, 8))
    ln = len(b) if r.random() < 0.9 else r.choice([0, len(b) + 3, 65535])
    return struct.pack("!H", ln) + b


def g_mqtt(r):
    pt = r.choice([1, 1, 2, 3, 3, 4, 8, 8, 9, 10, 12, 13, 14, 0, 15])
    flags = r.randint(0, 15)
    if pt == 1:
        cf = r.choice([0, 0x02, 0xC2, 0xFE, 0x04, 0x24, 0xFF])
        body = mqtt_str(r) if r.random() < 0.3 else b"\x00\x04MQTT"
        body += bytes([r.choice([3, 4, 5]), cf]) + struct.pack("!H", r.randint(0, 65535))
        for _ in range(r.randint(0, 5)):
            body += mqtt_str(r)
    elif pt == 3:
        body = mqtt_str(r) + (struct.pack("!H", r.randint(0, 65535)) if flags & 6 else b"") + s(r).encode()
    elif pt in (8, 10):
        body = struct.pack("!H", r.randint(0, 65535))
        for _ in range(r.randint(0, 3)):
            body += mqtt_str(r) + bytes([r.randint(0, 3)])
    else:
        body = rb(r, r.randint(0, 6))
    rl = len(body) if r.random() < 0.9 else r.choice([0, len(body) + 1, 200, 2**21])
    rlb = varint(rl) if r.random() < 0.95 else b"\xff\xff\xff\xff\x7f"
    return bytes([(pt << 4) | flags]) + rlb + body, None, "mqtt", "mqtt"


def g_multipart(r):
    bnd = r.choice(["BOUNDARY", "----WebKit" + "x" * 8, s(r, 0.3, 1).replace('"', "").replace(";", "") or "b"])
    parts = []
    for _ in range(r.randint(0, 3)):
        name = s(r)
        hdr = f'Content-Disposition: form-data; name="{name}"' + (f'; filename="{s(r)}"' if r.random() < 0.3 else "")
        parts.append(f"--{bnd}\r\n{hdr}\r\n\r\n{s(r)}\r\n")
    body = "".join(parts) + (f"--{bnd}--\r\n" if r.random() < 0.9 else "")
    ct = r.choice([f"multipart/form-data; boundary={bnd}", f'multipart/form-data; boundary="{bnd}"', "multipart/form-data", "multipart/form-data; boundary="])
    return body.encode("utf-8", "replace") if r.random() < 0.8 else body.encode("latin-1", "replace"), ct, "multipart form", "multipart"


def g_urlencoded(r):
    from urllib.parse import quote

    pairs = []
    for _ in range(r.randint(0, 4)):
        k, v = s(r), s(r)
        x = r.random()
        if x < 0.5:
            pairs.append(f"{quote(k)}={quote(v)}")
        elif x < 0.8:
            pairs.append(f"{k}={v}")
        else:
            pairs.append(r.choice([k, "=" + v, "%", "%zz=%9b", "a=%1b%5b2J", "k=%c2%9b"]))
    t = r.choice(["&", "&", ";"]).join(pairs)
    b = t.encode("utf-8") if r.random() < 0.85 else t.encode("latin-1", "replace")
    return b, "application/x-www-form-urlencoded", "url-encoded", "urlencoded"


def png_chunk(t, d, badcrc=False):
    crc = zlib.crc32(t + d) & 0xFFFFFFFF
    if badcrc:
        crc ^= 1
    return struct.pack("!I", len(d)) + t + d + struct.pack("!I", crc)


def g_image(r):
    k = r.choice(["png", "png", "gif", "jpeg", "ico", "bmp", "webp"])
    if k == "png":
        b = b"\x89PNG\r\n\x1a\n" + png_chunk(b"IHDR", struct.pack("!IIBBBBB", r.randint(0, 2**31), r.randint(0, 9999), 8, 2, 0, 0, 0))
        for _ in range(r.randint(0, 4)):
            t = r.choice([b"tEXt", b"iTXt", b"zTXt", b"gAMA", b"pHYs", b"IDAT", b"xxXx"])
            if t == b"tEXt":
                d = s(r).encode("latin-1", "replace") + b"\x00" + s(r).encode("latin-1", "replace")
            elif t == b"iTXt":
                d = s(r).encode() + b"\x00\x00\x00" + b"en\x00" + s(r).encode() + b"\x00" + s(r).encode()
            elif t == b"zTXt":
                d = s(r).encode("latin-1", "replace") + b"\x00\x00" + (zlib.compress(s(r).encode()) if r.random() < 0.8 else rb(r, 6))
            elif t == b"gAMA":
                d = struct.pack("!I", r.randint(0, 2**32 - 1))
            elif t == b"pHYs":
                d = struct.pack("!IIB", r.randint(0, 9999), r.randint(0, 9999), r.randint(0, 2))
            else:
                d = rb(r, r.randint(0, 20))
            b += png_chunk(t, d, r.random() < 0.1)
        if r.random() < 0.7:
            b += png_chunk(b"IEND", b"")
    elif k == "gif":
        b = r.choice([b"GIF89a", b"GIF87a"]) + struct.pack("<HHBBB", r.randint(0, 65535), r.randint(0, 65535), r.choice([0, 0x80, 0xF7]), 0, 0)
        if b[10] & 0x80:
            b += rb(r, 3 * (2 ** ((b[10] & 7) + 1)))
        for _ in range(r.randint(0, 3)):
            x = r.random()
            if x < 0.4:
                c = s(r).encode("latin-1", "replace")[:255]
                b += b"\x21\xfe" + bytes([len(c)]) + c + b"\x00"
            elif x < 0.6:
                b += b"\x21\xf9\x04" + rb(r, 4) + b"\x00"
            elif x < 0.8:
                b += b"\x21\xff\x0bNETSCAPE2.0\x03\x01\x00\x00\x00"
            else:
                b += b"\x2c" + rb(r, 9) + b"\x02\x02\x4c\x01\x00"
        b += b"\x3b" if r.random() < 0.7 else b""
    elif k == "jpeg":
        b = b"\xff\xd8"
        for _ in range(r.randint(0, 4)):
            x = r.random()
            if x < 0.3:
                d = b"JFIF\x00\x01\x02" + rb(r, 7)
                b += b"\xff\xe0" + struct.pack("!H", len(d) + 2) + d
            elif x < 0.6:
                d = s(r).encode("latin-1", "replace")
                b += b"\xff\xfe" + struct.pack("!H", len(d) + 2) + d
            elif x < 0.8:
                d = b"\x08" + struct.pack("!HH", r.randint(0, 65535), r.randint(0, 65535)) + b"\x03" + rb(r, 9)
                b += b"\xff\xc0" + struct.pack("!H", len(d) + 2) + d
            else:
                d = b"Exif\x00\x00" + rb(r, r.randint(0, 30))
                b += b"\xff\xe1" + struct.pack("!H", len(d) + 2) + d
        b += r.choice([b"\xff\xd9", b"\xff\xda\x00\x02" + rb(r, 5), b""])
    elif k == "ico":
        n = r.randint(0, 3)
        b = b"\x00\x00\x01\x00" + struct.pack("<H", n if r.random() < 0.8 else 999)
        for _ in range(n):
            b += struct.pack("<BBBBHHII", r.randint(0, 255), r.randint(0, 255), 0, 0, 1, 32, r.randint(0, 2**32 - 1), r.randint(0, 2**32 - 1))
    elif k == "bmp":
        b = b"BM" + rb(r, 30)
    else:
        b = b"RIFF" + rb(r, 4) + b"WEBP" + rb(r, 10)
    if r.random() < 0.25:
        b = b[: r.randint(0, len(b))] + rb(r, r.randint(0, 6))
    ct = r.choice(["image/png", "image/gif", "image/jpeg", "image/x-icon", "image/webp", "image/svg+xml", "image/"])
    return b, ct, "image", "image:" + k


def g_zip(r):
    bio = io.BytesIO()
    with zipfile.ZipFile(bio, "w", r.choice([zipfile.ZIP_STORED, zipfile.ZIP_DEFLATED])) as z:
        for _ in range(r.randint(0, 4)):
            name = s(r) or "f"
            try:
                z.writestr(name, s(r))
            except Exception:
                z.writestr("plain.txt", "x")
        if r.random() < 0.3:
            z.comment = s(r).encode("utf-8")[:100]
    b = bio.getvalue()
    x = r.random()
    if x < 0.15:
        b = b[: r.randint(0, len(b))]
    elif x < 0.3 and b:
        i = r.randrange(len(b))
        b = b[:i] + bytes([b[i] ^ (1 << r.randrange(8))]) + b[i + 1 :]
    return b, "application/zip", "zip archive", "zip"


def mp_val(r, depth=0):
    x = r.random()
    if depth > 5 or x < 0.4:
        k = r.choice(["str", "str", "bin", "int", "nil", "bool", "float", "ext", "bad"])
        if k == "str":
            b = s(r).encode() if r.random() < 0.9 else rb(r, r.randint(1, 5))
            if len(b) < 32:
                return bytes([0xA0 | len(b)]) + b
            return b"\xd9" + bytes([min(len(b), 255)]) + b[:255]
        if k == "bin":
            b = rb(r, r.randint(0, 10))
            return b"\xc4" + bytes([len(b)]) + b
        if k == "int":
            return r.choice([b"\x00", b"\x7f", b"\xff", b"\xcf" + b"\xff" * 8, b"\xd3" + b"\x80" + b"\x00" * 7, b"\xcd\x01\x00"])
        if k == "nil":
            return b"\xc0"
        if k == "bool":
            return r.choice([b"\xc2", b"\xc3"])
        if k == "float":
            return b"\xcb" + struct.pack("!d", r.choice([0.0, 1.5, float("nan"), float("inf"), -0.0]))
        if k == "ext":
            return b"\xd4" + bytes([r.randint(0, 255)]) + rb(r, 1)
        return r.choice([b"\xc1", b"\xdb\xff\xff\xff\xff", b"\xdd\xff\xff\xff\xff", b"\xdf\x7f\xff\xff\xff"])
    if x < 0.7:
        n = r.randint(0, 4)
        return bytes([0x90 | n]) + b"".join(mp_val(r, depth + 1) for _ in range(n))
    n = r.randint(0, 4)
    return bytes([0x80 | n]) + b"".join(mp_val(r, depth + 1) + mp_val(r, depth + 1) for _ in range(n))


def g_msgpack(r):
    b = mp_val(r)
    if r.random() < 0.15:
        b = b[: r.randint(0, len(b))] if r.random() < 0.5 else b + rb(r, 3)
    return b, r.choice(["application/msgpack", "application/x-msgpack"]), "msgpack", "msgpack"


def g_socketio(r):
    x = r.random()
    if x < 0.6:
        b = bytes([r.choice(b"0123456")]) + bytes([r.choice(b"0123456")]) + json.dumps(["ev", s(r)], ensure_ascii=False).encode()
    elif x < 0.8:
        b = bytes([r.choice(b"0123456789a")]) + s(r).encode()
    else:
        b = r.choice([b"", b"4", b"9", b"47", b"\xff\xff"])
    return b, None, "socket.io", "socketio"


def quic_varint(n):
    if n < 2**6:
        return bytes([n])
    if n < 2**14:
        return struct.pack("!H", n | 0x4000)
    if n < 2**30:
        return struct.pack("!I", n | 0x80000000)
    return struct.pack("!Q", n | 0xC000000000000000)


def g_http3(r):
    out = bytearray()
    for _ in range(r.randint(0, 4)):
        ft = r.choice([0, 1, 4, 3, 7, 13, 0x21, 2**30])
        if ft == 4:
            d = b"".join(quic_varint(r.choice([1, 6, 7, 8, 0x33, 2**20])) + quic_varint(r.randint(0, 2**40)) for _ in range(r.randint(0, 4)))
        elif ft == 1:
            d = r.choice([b"\x00\x00\xd1\xd7", b"\x00\x00" + rb(r, 8), b"\x00\x00\x50\x05" + s(r).encode()[:5], rb(r, r.randint(0, 10))])
        else:
            d = s(r).encode() if r.random() < 0.5 else rb(r, r.randint(0, 30))
        ln = len(d) if r.random() < 0.9 else len(d) + r.randint(1, 5)
        out += quic_varint(ft) + quic_varint(ln) + d
    return bytes(out), None, "http/3 frames", "http3"


def g_wbxml(r):
    if r.random() < 0.6:
        b = bytes([3, 1, 0x6A, 0])  # WBXML 1.3, public id 1, UTF-8, empty string table (ActiveSync)
    else:
        b = bytes([r.choice([1, 2, 3]), r.choice([1, 0x6A]), r.choice([0x6A, 3, 0]), r.choice([0, 0, 4])])
    for _ in range(r.randint(0, 12)):
        x = r.random()
        if x < 0.3:
            b += bytes([r.choice([0x45, 0x46, 0x4B, 0x5C, 0x52, 0x05, 0x85, 0xC5])])
        elif x < 0.5:
            b += b"\x03" + s(r).encode() + (b"\x00" if r.random() < 0.9 else b"")
        elif x < 0.6:
            b += b"\x00" + bytes([r.randint(0, 30)])
        elif x < 0.7:
            b += b"\xc3" + bytes([3]) + rb(r, 3)
        elif x < 0.85:
            b += b"\x01"
        else:
            b += rb(r, 2)
    x = r.random()
    if x < 0.12:
        if r.random() < 0.5:
            b = bytes([3, 1, 0x6A, 0, 0x45])
        b += b"\x03" + s(r, 0.3).encode().replace(b"\x00", b"")  # inline string cut before its terminating NUL (truncated body)
    elif x < 0.25:
        b += b"\xc3\x20" + rb(r, 3)  # opaque data shorter than its declared length
    elif x < 0.35:
        b += b"\x00"  # SWITCH_PAGE without page
    return b, r.choice(["application/vnd.ms-sync.wbxml", "application/vnd.wap.wbxml"]), "wbxml", "wbxml"


GENERATORS = [g_random, g_text, g_text, g_json, g_json, g_graphql, g_xml, g_xml, g_css, g_js, g_protobuf, g_protobuf, g_grpc, g_mqtt, g_multipart, g_urlencoded, g_image, g_image, g_zip, g_msgpack, g_msgpack, g_socketio, g_http3, g_wbxml]


def mutate(r, b: bytes) -> bytes:
    if not b:
        return b
    x = r.random()
    ba = bytearray(b)
    if x < 0.3:
        return bytes(ba[: r.randint(0, len(ba))])
    if x < 0.6:
        for _ in range(r.randint(1, 4)):
            i = r.randrange(len(ba))
            ba[i] = r.choice([0, 0x1B, 0x9B, 0xFF, 0x7F, 0xC2, ba[i] ^ (1 << r.randrange(8))])
        return bytes(ba)
    i = r.randrange(len(ba) + 1)
    ins = (r.choice(C0) + r.choice(C1)).encode(r.choice(["utf-8", "latin-1"]))
    return bytes(ba[:i]) + ins + bytes(ba[i:])
