"""DNS wire-message generator for C50 (DNS view re-encode fidelity).  Uses only the private reference encoder."""
from __future__ import annotations

import struct

from vf.ref import c50_dns as D

LABELS_PLAIN = [b"example", b"com", b"www", b"a", b"b", b"_dmarc", b"mail-1", b"x" * 63, b"0", b"123", b"local"]
LABELS_ODD = [b"EXAMPLE", b"ExAmPlE", b"xn--mnchen-3ya", b"XN--MNCHEN-3YA", b"xn--a", b"xn--", b"a b", b"a.b", b".", b"a\\b", b'a"b', b"a:b", b"#x", b"*", b"\x1b[2J", b"\x00", b"a\x07", b"-", b"a_b", b"caf\xc3\xa9", b"\xff", b"yes", b"null", b"~", b"0x10", b"1e3", b"'", b"@", b"a\tb", b"a\nb", b"\x7f"]
TXT_STRINGS = [b"v=spf1 include:_spf.example.com ~all", b"hello world", b"", b"yes", b"null", b"~", b"0x41", b"1e3", b"- a", b"a: b", b"#c", b" lead", b"trail ", b"a\nb", b"a\r\nb", b"caf\xc3\xa9", b"\xe6\x97\xa5\xe6\x9c\xac", b"\xff\xfe", b"\xc0\x0c", b"\xc2\x85", b"\xe2\x80\xa8", b"\x1b[2J", b"\x00", b"x" * 127, b"k" * 200, b"p=" + b"A" * 250, b"0x6869 (invalid TXT data)", b"'q'", b'"dq"', b"\\", b"{a: 1}", b"[1]", b"!!python/object", b"&a *a", b"%YAML", b"\t", b"|", b">"]
TYPES_UNKNOWN = [99, 13, 10, 24, 46, 48, 43, 257, 9999, 65535, 0, 41]


def name(r, off_of_prev=None, odd=0.25):
    """-> (wire bytes, features set)."""
    feats = set()
    labs = []
    for _ in range(r.choice([0, 1, 2, 2, 3, 3, 4])):
        if r.random() < odd:
            lab = r.choice(LABELS_ODD)
            feats.add("odd-label")
        else:
            lab = r.choice(LABELS_PLAIN)
        labs.append(lab)
    if off_of_prev is not None and r.random() < 0.4:
        feats.add("compressed")
        return D.enc_name(labs, pointer=off_of_prev), feats
    return D.enc_name(labs), feats


def txt_rdata(r):
    x = r.random()
    if x < 0.75:
        out = b""
        for _ in range(r.choice([1, 1, 1, 2, 3])):
            t = r.choice(TXT_STRINGS)[:255]
            out += bytes([len(t)]) + t
        return out
    if x < 0.85:
        return r.choice(TXT_STRINGS)  # not length-prefixed (malformed but carried opaquely)
    if x < 0.92:
        return b""
    return bytes(r.getrandbits(8) for _ in range(r.randint(1, 30)))


def https_rdata(r, qoff):
    pri = r.choice([0, 1, 2, 65535, 0x8000])
    tgt, _ = name(r, None, odd=0.15)
    params = b""
    keys = r.sample([0, 1, 2, 3, 4, 5, 6, 7, 100, 65535], r.randint(0, 4))
    # (duplicate SvcParamKeys are malformed per RFC 9460 2.2 and cannot be held by the view's mapping: not generated)
    for k in keys:
        if k == 1:
            v = b"".join(bytes([len(a)]) + a for a in r.sample([b"h2", b"h3", b"http/1.1", b"\x1b[2J", b"caf\xc3\xa9", b"'", b"\\"], r.randint(1, 3)))
        elif k == 3:
            v = struct.pack("!H", r.randint(0, 65535))
        elif k == 4:
            v = bytes(r.getrandbits(8) for _ in range(4 * r.randint(1, 2)))
        elif k == 6:
            v = bytes(r.getrandbits(8) for _ in range(16))
        elif k == 2:
            v = b""
        else:
            v = bytes(r.getrandbits(8) for _ in range(r.randint(0, 12)))
        params += struct.pack("!HH", k, len(v)) + v
    rd = struct.pack("!H", pri) + tgt + params
    if r.random() < 0.1:
        rd = rd[: r.randint(0, len(rd))]
    return rd


def rr(r, qoff):
    """-> (name_wire, type, class, ttl, rdata, features)"""
    n, feats = name(r, qoff)
    t = r.choice([1, 1, 28, 28, 5, 2, 12, 16, 16, 16, 65, 65, 15, 6, 33, 41] + TYPES_UNKNOWN[: r.randint(0, len(TYPES_UNKNOWN))])
    cls = r.choice([1, 1, 1, 1, 3, 4, 254, 255, 2, 4096, 0, 65535])
    ttl = r.choice([0, 1, 60, 300, 86400, 2**31 - 1, 2**31, 2**32 - 1])
    if t == 1:
        rd = bytes(r.getrandbits(8) for _ in range(r.choice([4, 4, 4, 4, 0, 3, 5, 16])))
    elif t == 28:
        rd = r.choice([bytes(r.getrandbits(8) for _ in range(16)), b"\x00" * 16, b"\x00" * 10 + b"\xff\xff" + b"\x01\x02\x03\x04", b"\x20\x01\x0d\xb8" + b"\x00" * 12, bytes(r.getrandbits(8) for _ in range(r.choice([0, 4, 15, 17])))])
    elif t in (5, 2, 12):
        x = r.random()
        if x < 0.85:
            rd, f2 = name(r, qoff)
            feats |= {"rdata-" + f for f in f2}
        elif x < 0.93:
            rd = b""
        else:
            rd = bytes(r.getrandbits(8) for _ in range(r.randint(1, 12)))
    elif t == 16:
        rd = txt_rdata(r)
    elif t == 65:
        rd = https_rdata(r, qoff)
    elif t == 15:
        tgt, f2 = name(r, qoff)
        feats |= {"rdata-" + f for f in f2}
        rd = struct.pack("!H", r.choice([0, 10, 192 << 8 | 12, 65535])) + tgt
    elif t == 6:
        m, f2 = name(r, qoff)
        rn, f3 = name(r, None)
        feats |= {"rdata-" + f for f in f2 | f3}
        rd = m + rn + struct.pack("!IIIII", r.choice([1, 2024010101, 0xC00C0001]), 3600, 600, 86400, r.choice([60, 0xC0000000]))
    elif t == 33:
        tgt, f2 = name(r, None)
        rd = struct.pack("!HHH", r.randint(0, 65535), r.randint(0, 65535), r.choice([443, 0xC00C])) + tgt
    elif t == 41:
        n = b"\x00"
        cls = r.choice([512, 1232, 4096])
        ttl = r.choice([0, 0x8000, 0x01008000])
        rd = b"" if r.random() < 0.5 else struct.pack("!HH", 10, 8) + bytes(r.getrandbits(8) for _ in range(8))
    else:
        rd = bytes(r.getrandbits(8) for _ in range(r.choice([0, 1, 4, 20, 60])))
    return (n, t, cls, ttl, rd), feats


def _plain_name(r, qoff=None, allow_ptr=False):
    labs = [r.choice(LABELS_PLAIN[:7]) for _ in range(r.choice([1, 2, 2, 3]))]
    if allow_ptr and qoff is not None and r.random() < 0.2:
        return D.enc_name(labs[:1], pointer=qoff)
    return D.enc_name(labs)


def _cs(r, items=(b"", b"a", b"hello", b"E2U+sip", b"!^.*$!sip:x@example.com!", b"issue", b"letsencrypt.org", b"v=spf1 -all")):
    t = r.choice(items)
    return bytes([len(t)]) + t


def _rb(r, n):
    return bytes(r.getrandbits(8) for _ in range(n))


def wellformed_rdata(r, t, qoff):
    """Well-formed, short RDATA for a type mitmproxy knows by name (RFC 1035/2782/3403/4034/6672/6698/7553/8659/9460...)."""
    ptr_ok = t in D.ONE_NAME | D.U16_NAME | D.TWO_NAMES | {D.SOA}  # RFC 3597: only the RFC 1035 types may be compressed
    if t in D.ONE_NAME or t == 39:
        return _plain_name(r, qoff, ptr_ok)
    if t in D.U16_NAME:
        return struct.pack("!H", r.choice([0, 1, 10, 100])) + _plain_name(r, qoff, ptr_ok)
    if t in D.TWO_NAMES:
        return _plain_name(r, qoff, ptr_ok) + _plain_name(r)
    if t == 6:
        return _plain_name(r, qoff, ptr_ok) + _plain_name(r) + struct.pack("!IIIII", r.choice([1, 2024010101]), 3600, 600, 86400, 60)
    if t == 33:
        return struct.pack("!HHH", r.choice([0, 10]), r.choice([0, 5]), r.choice([443, 5060])) + _plain_name(r)
    if t == 35:
        return struct.pack("!HH", 100, 10) + _cs(r, (b"u", b"s", b"")) + _cs(r, (b"E2U+sip", b"")) + _cs(r, (b"!^.*$!sip:x@example.com!", b"")) + _plain_name(r)
    if t == 257:
        tag = r.choice([b"issue", b"issuewild", b"iodef"])
        return bytes([r.choice([0, 128]), len(tag)]) + tag + r.choice([b"letsencrypt.org", b";", b"mailto:a@example.com"])
    if t in (43, 59, 32769, 32768):
        return struct.pack("!HBB", r.getrandbits(16), r.choice([8, 13]), r.choice([1, 2])) + _rb(r, r.choice([4, 20]))
    if t in (48, 60, 25):
        return struct.pack("!HBB", r.choice([256, 257]), 3, r.choice([8, 13])) + _rb(r, r.choice([4, 16]))
    if t in (64, 65):
        rd = https_rdata(r, qoff)
        return rd
    if t == 41:
        return b"" if r.random() < 0.5 else struct.pack("!HH", 10, 8) + _rb(r, 8)
    if t in (16, 99):
        return b"".join(_cs(r, (b"v=spf1 -all", b"hello", b"a", b"k=v")) for _ in range(r.choice([1, 1, 2])))
    if t == 13:
        return _cs(r, (b"x86", b"")) + _cs(r, (b"linux", b""))
    if t == 1:
        return _rb(r, 4)
    if t == 28:
        return _rb(r, 16)
    if t == 29:
        return b"\x00" + _rb(r, 15)
    if t == 44:
        return bytes([r.choice([1, 4]), r.choice([1, 2])]) + _rb(r, 20)
    if t in (52, 53):
        return bytes([r.choice([0, 3]), r.choice([0, 1]), 1]) + _rb(r, r.choice([8, 24]))
    if t == 256:
        return struct.pack("!HH", 10, 1) + r.choice([b"https://example.com/", b"ftp://a"])
    if t == 108:
        return _rb(r, 6)
    if t == 109:
        return _rb(r, 8)
    if t == 105:
        return struct.pack("!H", 10) + _rb(r, 4)
    if t in (104, 106):
        return struct.pack("!H", 10) + _rb(r, 8)
    if t == 107:
        return struct.pack("!H", 10) + _plain_name(r)
    if t == 47:
        return _plain_name(r) + b"\x00\x06\x40\x01\x00\x00\x00\x03"
    if t in (46, 24):
        return struct.pack("!HBBIIIH", 1, 13, 2, 3600, 1700000000, 1690000000, r.getrandbits(16)) + _plain_name(r) + _rb(r, 8)
    return _rb(r, r.choice([0, 1, 2, 4, 8, 12, 24]))


def known_type_rr(r, t, qoff):
    """A record of a type mitmproxy has a name for, with plain owner name and well-formed short RDATA."""
    n = _plain_name(r, qoff, True)
    if t == 41:
        return (b"\x00", t, r.choice([512, 1232, 4096]), r.choice([0, 0x8000]), wellformed_rdata(r, t, qoff))
    return (n, t, 1, r.choice([0, 60, 300, 86400]), wellformed_rdata(r, t, qoff))


def message(r, known_types=()):
    """-> (wire bytes, features).  known_types: type numbers the implementation knows by name; 2-4 records of such types
    (uniformly chosen) with well-formed short RDATA are added to random sections, next to the hostile/unknown ones."""
    feats = set()
    z = r.choice([0, 0, 0, 0, 1, 2, 4, 7, 3])
    fl = D.flags_word(qr=r.getrandbits(1), opcode=r.choice([0, 0, 0, 0, 1, 2, 4, 5, 6, 3, 7, 15]), aa=r.getrandbits(1), tc=r.getrandbits(1), rd=r.getrandbits(1), ra=r.getrandbits(1), z=z, rcode=r.choice([0, 0, 0, 2, 3, 5, 11, 12, 15]))
    qs = []
    qoff = None
    for i in range(r.choice([0, 1, 1, 1, 1, 2, 3])):
        n, f = name(r, qoff if i else None)
        feats |= f
        if i == 0:
            qoff = 12
        qs.append((n, r.choice([1, 28, 16, 5, 12, 65, 255, 0, 9999, 65535]), r.choice([1, 1, 1, 3, 255, 254, 7, 0, 65535])))
    if qoff is not None and qs[0][0] == b"\x00":
        pass
    secs = []
    for sec in range(3):
        lst = []
        for _ in range(r.choice([0, 0, 1, 1, 2, 4]) if sec == 0 else r.choice([0, 0, 0, 1, 2])):
            rec, f = rr(r, qoff)
            feats |= f
            lst.append(rec)
        secs.append(lst)
    if known_types:
        for _ in range(r.choice([3, 4, 4, 5])):
            secs[r.choice([0, 0, 1, 2])].append(known_type_rr(r, r.choice(known_types), qoff))
        for lst in secs:
            r.shuffle(lst)
    wire = D.encode(r.getrandbits(16), fl, qs, *secs)
    return wire, feats


def boundary_matrix():
    """Fixed list of (label, wire, wrapper): one header / record field at a time set to its boundary values, everything else
    a plain query-response (example.com A IN with one A answer)."""
    qn = D.enc_name([b"example", b"com"])

    def msg(id=0x1234, z=0, qr=1, opcode=0, aa=0, tc=0, rd=1, ra=1, rcode=0, questions=None, answers=None, auth=(), add=()):
        qs = [(qn, 1, 1)] if questions is None else questions
        an = [(D.enc_name([], pointer=12) if qs else qn, 1, 1, 60, b"\x5d\xb8\xd8\x22")] if answers is None else answers
        return D.encode(id, D.flags_word(qr=qr, opcode=opcode, aa=aa, tc=tc, rd=rd, ra=ra, z=z, rcode=rcode), qs, an, list(auth), list(add))

    out = []
    for v in (0, 1, 0x7FFF, 0x8000, 0xFFFF):
        for wk in ("udp", "tcp", "http", "dnsmsg"):
            out.append((f"id={v}", msg(id=v), wk))
    for flag in ("qr", "aa", "tc", "rd", "ra"):
        for v in (0, 1):
            out.append((f"{flag}={v}", msg(**{flag: v}), "udp"))
    for v in (1, 2, 4, 7):
        out.append((f"z={v}", msg(z=v), "udp"))
    for v in range(16):
        out.append((f"opcode={v}", msg(opcode=v), "udp"))
        out.append((f"rcode={v}", msg(rcode=v), "udp"))
    out.append(("counts=0", msg(questions=[], answers=[]), "udp"))
    out.append(("counts=0/tcp", msg(questions=[], answers=[]), "tcp"))
    out.append(("no-question", msg(questions=[], answers=[(qn, 1, 1, 60, b"\x01\x02\x03\x04")]), "udp"))
    out.append(("question-only", msg(qr=0, ra=0, answers=[]), "udp"))
    out.append(("root-question", msg(questions=[(b"\x00", 2, 1)], answers=[]), "udp"))
    for v in (0, 1, 2**31 - 1, 2**31, 2**32 - 1):
        out.append((f"ttl={v}", msg(answers=[(qn, 1, 1, v, b"\x01\x02\x03\x04")]), "udp"))
    for v in (0, 65535, 255):
        out.append((f"qtype={v}", msg(questions=[(qn, v, 1)], answers=[]), "udp"))
        out.append((f"qclass={v}", msg(questions=[(qn, 1, v)], answers=[]), "udp"))
        out.append((f"rrtype={v}", msg(answers=[(qn, v, 1, 60, b"\x01\x02")]), "udp"))
        out.append((f"rrclass={v}", msg(answers=[(qn, 1, v, 60, b"\x01\x02\x03\x04")]), "udp"))
    out.append(("all-sections", msg(auth=[(qn, 2, 1, 0, D.enc_name([b"ns"], pointer=12))], add=[(b"\x00", 41, 1232, 0, b"")]), "udp"))
    out.append(("rdlength=0", msg(answers=[(qn, 1, 1, 60, b"")]), "udp"))
    return out
