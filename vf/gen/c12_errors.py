"""Workload for C12: inputs that make mitmproxy answer with one of its own error pages, with markup markers placed in
every client- or server-controlled position that can reach the page text.  HTTP/1 client; HTTP/1 origin / upstream
proxy.  A case is an optional valid keep-alive request followed by one trigger request; everything derives from rng."""
from __future__ import annotations

MARKERS = [
    "<vf-XSS-%d>",
    '"onx=vf%d',
    "&vf%d;",
    "'vf%d'",
    "<script>alert(%d)</script>",
    "</p><img/src=x/onerror=vf%d>",
    "<vf%d&amp;&lt;>",
    "<VF%d\"'&>",
    "<vf%d\xe9\xff>",
]
MODES = ["regular", "regular", "transparent", "reverse:http://example.com:80"]

CLIENT_SOURCES = [
    "reqline-version", "reqline-tokens", "reqline-target", "reqline-authority", "connect-authority", "header-nocolon",
    "header-emptyname", "header-leading-ws", "cl-invalid", "cl-multi", "te-unknown", "te-multi", "name-invalid", "scheme-invalid",
    "no-host", "host-invalid", "te-http10", "req-too-large", "te-and-cl",
]
SERVER_SOURCES = [
    "connect-fail", "connect-fail", "resp-line", "resp-version", "resp-header-nocolon", "resp-cl-invalid", "resp-te-unknown", "resp-name-invalid",
    "resp-partial-eof", "resp-close", "resp-chunk-bad", "resp-too-large", "resp-te-204", "upstream-proxy-refused", "upstream-proxy-garbage",
]
OTHER_SOURCES = ["connect-eager-fail", "valid-with-markers"]


def marker(rng, n, spaces=False):
    m = rng.choice(MARKERS) % n
    if spaces and rng.random() < 0.4:
        m = m + " a b " + rng.choice(["", "\t", "<b>", "\n<i>"])
    return m


def mb(s: str) -> bytes:
    return s.encode("latin-1")


def core(n):
    return "%d" % n


def valid_request(rng, k, mode, method=None, extra_headers=()):
    tag = b"t%d-%06x" % (k, rng.getrandbits(24))
    method = method or rng.choice(["GET", "GET", "POST", "HEAD"])
    path = b"/" + tag
    target = (b"http://example.com" + path) if mode == "regular" else path
    head = method.encode() + b" " + target + b" HTTP/1.1\r\nHost: example.com\r\n"
    for a, b in extra_headers:
        head += a + b": " + b + b"\r\n"
    body = b""
    if method == "POST":
        body = b"hello=" + tag
        head += b"Content-Length: %d\r\n" % len(body)
    return {"tag": tag, "method": method, "raw": head + b"\r\n" + body}


def server_side(rng, source, case, M, ms):
    """Fill case['server'] (raw origin / upstream-proxy answer) for a server-side error source."""
    S = mb(ms)
    S1 = S.replace(b"\n", b" ")
    if source == "resp-line":
        resp = rng.choice([b"HTTP/1.1 " + M + b" OK", M, b"HTTP/1.1 2" + M + b"0 OK", b"HTTP/1.1"]) + b"\r\nContent-Length: 0\r\n\r\n"
    elif source == "resp-version":
        resp = b"HTTP/" + M + b" 200 OK\r\nContent-Length: 0\r\n\r\n"
    elif source == "resp-header-nocolon":
        resp = b"HTTP/1.1 200 OK\r\n" + S1 + b"\r\nContent-Length: 0\r\n\r\n"
    elif source == "resp-cl-invalid":
        resp = b"HTTP/1.1 200 OK\r\nContent-Length: " + S1 + b"\r\n\r\n"
    elif source == "resp-te-unknown":
        resp = b"HTTP/1.1 200 OK\r\nTransfer-Encoding: " + S1 + b"\r\n\r\n"
    elif source == "resp-name-invalid":
        resp = b"HTTP/1.1 200 OK\r\nX" + M.replace(b":", b"") + b": v\r\nContent-Length: 0\r\n\r\n"
    elif source == "resp-partial-eof":
        resp = rng.choice([b"HTTP/1.1 200 OK\r\nX-Y: " + S1, S1, b"HTTP/1.1 200 " + M])
    elif source == "resp-close":
        resp = b""
        case["reflect"] = False
    elif source == "resp-chunk-bad":
        resp = b"HTTP/1.1 200 OK\r\nTransfer-Encoding: chunked\r\n\r\n" + rng.choice([M + b"\r\nabc\r\n0\r\n\r\n", b"3\r\nabc" + M + b"\r\n0\r\n\r\n", b"3;" + M + b"\r\nabc\r\n0\r\n\r\n"])
        case["reflect"] = None  # depends on what h11 says
    elif source == "resp-too-large":
        case["options"]["body_size_limit"] = "3"
        resp = b"HTTP/1.1 200 OK\r\nX-M: " + S1 + b"\r\nContent-Length: 10\r\n\r\n0123456789"
        case["reflect"] = False
    elif source == "resp-te-204":
        resp = b"HTTP/1.1 204 " + M + b"\r\nTransfer-Encoding: chunked\r\n\r\n"
        case["reflect"] = False
    elif source == "upstream-proxy-refused":
        case["via"] = True
        resp = b"HTTP/1.1 " + rng.choice([b"407", b"403", b"502"]) + b" " + S1 + b"\r\nContent-Length: 0\r\n\r\n"
    elif source == "upstream-proxy-garbage":
        case["via"] = True
        resp = rng.choice([S1 + b"\r\n\r\n", b"HTTP/1.1 " + M + b" x\r\n\r\n", b"HTTP/1.1 200 OK\r\n" + S1 + b"\r\n\r\n"])
    else:  # pragma: no cover
        raise AssertionError(source)
    case["server"] = {"kind": "raw", "raw": resp, "close": source in ("resp-partial-eof", "resp-close") or rng.random() < 0.3}


def gen_body_error_case(rng, idx):
    """Malformed chunked request body sent while the request is being streamed and an early-answering origin's response is
    already in flight to (or completely relayed to) the client.  Any own page must still be a correctly framed response in
    the client-bound byte stream: never inside another response, never a second final response for the same request."""
    mode = rng.choice(MODES)
    n = 1000 + rng.randrange(9000)
    m = marker(rng, n)
    M = mb(m).replace(b" ", b"").replace(b"\n", b"")
    case = {"mode": mode, "source": "req-body-bad-during-response", "n": n, "marker": m, "server": None, "open_error": None, "options": {}, "via": False, "reflect": None, "feats": set()}
    reqs = []
    if rng.random() < 0.25:
        reqs.append(valid_request(rng, 0, mode, method=rng.choice(["GET", "POST"])))
    tag = b"t%d-%06x" % (len(reqs), rng.getrandbits(24))
    target = (b"http://example.com/" + tag) if mode == "regular" else b"/" + tag
    head = rng.choice([b"POST", b"PUT"]) + b" " + target + b" HTTP/1.1\r\nHost: example.com\r\nTransfer-Encoding: chunked\r\nX-Marker: " + M + b"\r\n\r\n"
    good = b"".join(b"%x\r\n%s\r\n" % (len(c), c) for c in [b"hello", b"world-" + tag][: rng.choice([1, 2])])
    bad_kind = rng.choice(["size-line", "size-line", "overrun", "trailer", "size-negative"])
    bad = {
        "size-line": M + b"\r\nabc\r\n0\r\n\r\n",
        "overrun": b"3\r\nabcdef\r\n0\r\n\r\n",
        "trailer": b"0\r\n" + M + b"\r\n\r\n",
        "size-negative": b"-5\r\nhello\r\n0\r\n\r\n",
    }[bad_kind]
    answer_kind = rng.choice(["partial-cl", "partial-cl", "partial-chunked", "complete-413", "complete-200"])
    xt = b"x-tag: " + tag + b"\r\n"
    resp = {
        "partial-cl": b"HTTP/1.1 200 OK\r\n" + xt + b"Content-Length: 1000\r\n\r\n" + b"p" * rng.randint(1, 300),
        "partial-chunked": b"HTTP/1.1 200 OK\r\n" + xt + b"Transfer-Encoding: chunked\r\n\r\n" + b"a\r\n0123456789\r\n" * rng.randint(1, 3),
        "complete-413": b"HTTP/1.1 413 Payload Too Large\r\n" + xt + b"Content-Length: 9\r\n\r\ntoo large",
        "complete-200": b"HTTP/1.1 200 OK\r\n" + xt + b"Content-Length: 2\r\n\r\nok",
    }[answer_kind]
    case["server"] = {"kind": "raw", "raw": resp, "close": False, "early": True}
    # request (and response) streaming: by option or by addon
    if rng.random() < 0.5:
        case["options"]["stream_large_bodies"] = "1"
    else:
        case["stream_addon"] = True
    raw = head + good + bad
    reqs.append({"tag": tag, "method": head.split(b" ")[0].decode(), "raw": raw})
    case["reqs"] = reqs
    pre_len = sum(len(q["raw"]) for q in reqs[:-1])
    # the malformed part is held back until the early answer has been relayed (sometimes not: then it may arrive first)
    case["hold_after"] = pre_len + len(head) + len(good) if rng.random() < 0.85 else None
    case["feats"] |= {"bad:" + bad_kind, "answer:" + answer_kind}
    case["client_seg"] = rng.choice(["whole", "random", "bytes"])
    case["server_seg"] = rng.choice(["whole", "random", "bytes"])
    case["schedule"] = rng.choice(["fifo", "random", "random"])
    case["validate"] = rng.random() < 0.85
    return case


def gen_case(rng, idx):
    """Returns dict(mode, reqs[{raw, method, tag}], source, marker, server: dict, open_error, options, via, feats)."""
    if rng.random() < 0.1:
        return gen_body_error_case(rng, idx)
    mode = rng.choice(MODES)
    n = 1000 + rng.randrange(9000)
    r = rng.random()
    source = rng.choice(CLIENT_SOURCES) if r < 0.45 else rng.choice(SERVER_SOURCES) if r < 0.92 else rng.choice(OTHER_SOURCES)
    if source.startswith("upstream-proxy"):
        mode = "regular"  # the addon assigns flow.server_conn.via, which needs a connection that is not open yet
    m = marker(rng, n)
    ms = marker(rng, n, spaces=True)
    case = {"mode": mode, "source": source, "n": n, "marker": m, "server": None, "open_error": None, "options": {}, "via": False, "reflect": True, "feats": set()}
    reqs = []
    if rng.random() < 0.3 and source not in ("connect-eager-fail", "connect-fail", "upstream-proxy-refused", "upstream-proxy-garbage"):
        reqs.append(valid_request(rng, 0, mode, method=rng.choice(["GET", "POST"])))
        case["feats"].add("after-keepalive")
    k = len(reqs)
    tag = b"t%d-%06x" % (k, rng.getrandbits(24))
    method = rng.choice(["GET", "GET", "POST", "HEAD", "PUT"])
    host = b"example.com"
    path = b"/" + tag + (b"?q=" + mb(m).replace(b" ", b"+") if rng.random() < 0.3 else b"")
    target = (b"http://" + host + path) if mode == "regular" else path
    version = b"HTTP/1.1"
    headers = [(b"Host", host), (b"X-Marker", mb(ms).replace(b"\n", b" "))]
    body = b""
    raw = None
    M = mb(m)

    if source == "reqline-version":
        version = rng.choice([b"HTTP/" + M, b"HTTP/1.1" + M, M])
    elif source == "reqline-tokens":
        raw = rng.choice([method.encode() + b" " + target + b" " + M + b" HTTP/1.1", M + b" HTTP/1.1", M, method.encode() + b" " + M]) + b"\r\nHost: example.com\r\n\r\n"
    elif source == "reqline-target":
        target = rng.choice([M, M + b"/x", b"htt" + M + b"p://example.com/"])
    elif source == "reqline-authority":
        target = b"http://exa" + M + b"mple.com/" + tag
    elif source == "connect-authority":
        method = "CONNECT"
        target = rng.choice([M + b":443", b"example.com:" + M, b"example.com"])
    elif source == "header-nocolon":
        headers.insert(rng.randint(0, len(headers)), (None, M))
    elif source == "header-emptyname":
        headers.insert(rng.randint(1, len(headers)), (b"", M))
    elif source == "header-leading-ws":
        headers.insert(0, (b" " + M, b"x"))
        case["reflect"] = False
    elif source == "cl-invalid":
        headers.append((b"Content-Length", rng.choice([M, b"1" + M, b"+1", b"1, " + M])))
    elif source == "cl-multi":
        headers.append((b"Content-Length", b"1"))
        headers.append((b"content-length", M))
    elif source == "te-unknown":
        headers.append((b"Transfer-Encoding", rng.choice([M, b"chunked, " + M, M + b", chunked"])))
    elif source == "te-multi":
        headers.append((b"Transfer-Encoding", b"chunked"))
        headers.append((b"transfer-encoding", M))
    elif source == "te-and-cl":
        headers.append((b"Transfer-Encoding", b"chunked"))
        headers.append((b"Content-Length", b"3"))
        body = b"0\r\n\r\n"
        case["reflect"] = False
    elif source == "name-invalid":
        nm = M.replace(b":", b"").replace(b" ", b"")
        headers.append((b"X" + nm, b"v"))
    elif source == "scheme-invalid":
        if mode == "regular":
            target = rng.choice([b"ftp", b"vf+x.%d" % n, b"ws"]) + b"://example.com/" + tag
        case["reflect"] = False
    elif source == "no-host":
        target = path
        headers = [h for h in headers if h[0] != b"Host"]
        case["reflect"] = False
    elif source == "host-invalid":
        target = path
        headers[0] = (b"Host", M)
        case["reflect"] = False
    elif source == "te-http10":
        version = b"HTTP/1.0"
        headers.append((b"Transfer-Encoding", b"chunked"))
        body = b"0\r\n\r\n"
        case["reflect"] = False
    elif source == "req-too-large":
        method = "POST" if method in ("GET", "HEAD") else method
        case["options"]["body_size_limit"] = "3"
        body = b"0123456789"
        headers.append((b"Content-Length", b"10"))
        case["reflect"] = False
    elif source == "connect-eager-fail":
        method = "CONNECT"
        target = b"example.com:443"
        headers = [(b"Host", b"example.com:443"), (b"X-Marker", mb(ms).replace(b"\n", b" "))]
        case["open_error"] = ms
        case["options"]["connection_strategy"] = "eager"
    elif source == "valid-with-markers":
        case["server"] = {"kind": "echo"}
        case["reflect"] = False
    # ---- server-side sources: the trigger request itself is valid
    elif source == "connect-fail":
        case["open_error"] = ms
    else:
        server_side(rng, source, case, M, ms)
    if raw is None:
        head = method.encode() + b" " + target + b" " + version + b"\r\n"
        for a, b in headers:
            if a is None:
                head += b + b"\r\n"
            else:
                head += a + b": " + b + b"\r\n"
        raw = head + b"\r\n" + body
    reqs.append({"tag": tag, "method": method, "raw": raw})
    case["reqs"] = reqs
    case["client_seg"] = rng.choice(["whole", "whole", "random", "bytes"])
    case["server_seg"] = rng.choice(["whole", "random", "bytes"])
    case["schedule"] = rng.choice(["fifo", "random", "random"])
    case["validate"] = rng.random() < 0.85
    return case


H2_CLIENT_SOURCES = ["h2-scheme", "h2-scheme", "h2-name-invalid", "h2-cl-invalid", "h2-no-authority", "h2-too-large", "h2-te", "h2-valid-with-markers"]
H2_SERVER_SOURCES = [x for x in SERVER_SOURCES if x not in ("resp-te-204",)]


def gen_h2_case(rng, idx):
    """HTTP/2 client in front of HTTP/1 origins. reqs = list of dict(tag, method, headers, body)."""
    mode = rng.choice(MODES)
    n = 1000 + rng.randrange(9000)
    source = rng.choice(H2_CLIENT_SOURCES) if rng.random() < 0.45 else rng.choice(H2_SERVER_SOURCES)
    if source.startswith("upstream-proxy"):
        mode = "regular"
    m = marker(rng, n)
    ms = marker(rng, n, spaces=True)
    M = mb(m)
    case = {"proto": "h2", "mode": mode, "source": source, "n": n, "marker": m, "server": None, "open_error": None, "options": {}, "via": False, "reflect": True, "feats": set()}
    reqs = []
    if rng.random() < 0.3 and source not in ("connect-fail", "upstream-proxy-refused", "upstream-proxy-garbage"):
        tag0 = b"t0-%06x" % rng.getrandbits(24)
        reqs.append({"tag": tag0, "method": "GET", "headers": [(b":method", b"GET"), (b":scheme", b"http"), (b":authority", b"example.com"), (b":path", b"/" + tag0)], "body": b""})
        case["feats"].add("with-other-stream")
    tag = b"t%d-%06x" % (len(reqs), rng.getrandbits(24))
    method = rng.choice(["GET", "GET", "POST", "PUT", "DELETE"]) if rng.random() < 0.95 else "HEAD"
    scheme, authority, path = b"http", b"example.com", b"/" + tag
    extra = [(b"x-marker", mb(ms).replace(b"\n", b" ").strip())]
    body = b""
    if source == "h2-scheme":
        scheme = rng.choice([M, b"ht" + M, M.lower()])
    elif source == "h2-name-invalid":
        extra.append((b"x" + M.lower().replace(b":", b"").replace(b" ", b""), b"v"))
    elif source == "h2-cl-invalid":
        extra.append((b"content-length", rng.choice([M, b"1" + M, b"+0"])))
    elif source == "h2-no-authority":
        authority = None
        case["reflect"] = False
    elif source == "h2-too-large":
        method = "POST"
        case["options"]["body_size_limit"] = "3"
        body = b"0123456789"
        if rng.random() < 0.5:
            extra.append((b"content-length", b"10"))
        case["reflect"] = False
    elif source == "h2-te":
        extra.append((b"transfer-encoding", M))
    elif source == "h2-valid-with-markers":
        case["server"] = {"kind": "echo"}
        case["reflect"] = False
    elif source == "connect-fail":
        case["open_error"] = ms
    else:
        server_side(rng, source, case, M, ms)
    headers = [(b":method", method.encode()), (b":scheme", scheme), (b":path", path)]
    if authority is not None:
        headers.insert(2, (b":authority", authority))
    headers += extra
    reqs.append({"tag": tag, "method": method, "headers": headers, "body": body})
    case["reqs"] = reqs
    case["client_seg"] = rng.choice(["whole", "whole", "random", "bytes"])
    case["server_seg"] = rng.choice(["whole", "random", "bytes"])
    case["schedule"] = rng.choice(["fifo", "random", "random"])
    case["validate"] = rng.random() < 0.8
    return case
