"""Child process for C45 (console prompt leg): a real ConsoleMaster, headless.

For each argument list of a fixed matrix:  console.command probe.args <args...>  (the console quotes them with
command_lexer.quote and opens the prompt)  ->  <enter> on the window  ->  ActionBar.execute_command ->
commands.history.add (history file in a temp confdir, option command_history on = default) -> CommandExecutor.
Reports as JSON on stdout what the probe command received.  Run by checks/c45.py under two locale set-ups
(UTF-8 mode; LC_ALL=C PYTHONUTF8=0) so that the history-file write fails with UnicodeEncodeError for lone
surrogates resp. for any non-ASCII text.  The variant "confdir-missing" / "history-is-dir" makes the write fail
with an OSError instead.

usage: python -m vf.gen.c45_prompt_child   (matrix is built in)
"""
from __future__ import annotations

import asyncio
import json
import locale
import os
import shutil
import sys
import tempfile

MATRIX = [
    ["plain"],
    ["two words", "it's", 'say "hi"'],
    ["\udc80"],
    ["a \udcff b", "x"],
    ["日本 語", "second"],
    ["café"],
    ["\U0001f600 astral", ""],
    ["snö 'x'", "tab\there"],
    ["100\xa0"],
    ["\u3000"],
    ["x", "\u2003"],
    ["\x0bv", "w\x1f"],
]
VARIANTS = ["ok", "confdir-missing", "history-is-dir"]


async def run() -> list[dict]:
    from mitmproxy import command
    from mitmproxy import command_lexer
    from mitmproxy import options
    from mitmproxy.tools.console import signals
    from mitmproxy.tools.console import window
    from mitmproxy.tools.console.master import ConsoleMaster
    from mitmproxy.utils.signals import _SignalMixin

    class Probe:
        def __init__(self):
            self.calls = []

        @command.command("probe.args")
        def probe(self, *args: str) -> None:
            self.calls.append(list(args))

    window.Screen.start = lambda *_: True
    ConsoleMaster.sig_call_in = lambda *_, **__: True
    sys.stdout.isatty = lambda: True
    for sig in signals.__dict__.values():
        if isinstance(sig, _SignalMixin):
            sig.receivers.clear()

    enc = locale.getencoding()
    out = []
    base = tempfile.mkdtemp(prefix="c45-prompt-")
    try:
        opts = options.Options()
        m = ConsoleMaster(opts)
        m.addons.remove(m.addons.get("tlsconfig"))
        opts.server = False
        opts.console_mouse = False
        opts.confdir = os.path.join(base, "ok")
        os.makedirs(opts.confdir)
        probe = Probe()
        m.addons.add(probe)
        await m.running()
        try:
            size = m.ui.get_cols_rows()
            for variant in VARIANTS:
                confdir = os.path.join(base, variant)
                if variant == "ok":
                    pass
                elif variant == "confdir-missing":
                    confdir = os.path.join(base, "does", "not", "exist")
                else:
                    os.makedirs(os.path.join(confdir, "command_history"))
                opts.confdir = confdir
                for args in MATRIX:
                    probe.calls.clear()
                    rec = {"args": args, "variant": variant, "received": None, "raised": None, "locale_encoding": enc}
                    line = " ".join(command_lexer.quote(x) for x in ["probe.args", *args])
                    try:
                        (line + "\n").encode(enc)
                        rec["encodable"] = True
                    except UnicodeEncodeError:
                        rec["encodable"] = False
                    try:
                        m.commands.call("console.command", "probe.args", *args)
                        shown = m.window.statusbar.ab.top._w.get_edit_text()
                        rec["prompt_text_ok"] = shown == line + " "
                        rec["prompt_text"] = shown
                        m.window.keypress(size, "enter")
                    except Exception as e:  # noqa
                        rec["raised"] = f"{type(e).__name__}: {e}"[:300]
                    if len(probe.calls) == 1:
                        rec["received"] = probe.calls[0]
                    elif probe.calls:
                        rec["received"] = {"calls": probe.calls}
                    out.append(rec)
        finally:
            await m.done()
    finally:
        shutil.rmtree(base, ignore_errors=True)
    return out


def main():
    res = asyncio.run(run())
    # ASCII-only JSON with surrogates escaped: safe under any locale / stdout encoding
    sys.stdout.write("C45PROMPT " + json.dumps(res, ensure_ascii=True) + "\n")


if __name__ == "__main__":
    main()
