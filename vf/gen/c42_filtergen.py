"""Generators for property C42: flow facts -> real flows, regex arguments, filter ASTs and their renderings.

Everything is driven by the random.Random passed in (ctx.rng).  The AST format is the one of vf/ref/c42_filter.py.
"""
from __future__ import annotations

import re

from vf.ref import c42_filter as ref

HOSTS = ["example.com", "API.Example.org", "10.0.0.7", "cdn-1.test", "localhost", "xn--bcher-kva.example"]
PATHS = ["/", "/index.html", "/api/v1/users?id=42&x=Y", "/getInfo", "/getRouters.php", "/a.b/c", "/static/app.JS", "/search?q=foo+bar"]
METHODS = ["GET", "POST", "PUT", "DELETE", "OPTIONS", "PATCH", "HEAD"]
CTYPES = ["text/html", "text/html; charset=utf-8", "text/css", "image/png", "application/json", "font/woff2", "application/font-woff",
          "text/javascript", "application/javascript", "text/plain", "application/x-javascript", "image/svg+xml", "application/octet-stream"]
HNAMES = ["User-Agent", "accept", "X-Token", "Cookie", "Set-Cookie", "Server", "cache-control", "X-Forwarded-For", "Referer"]
HVALS = ["curl/8.1", "*/*", "abc123", "sid=42; theme=dark", "nginx", "no-cache", "10.1.2.3", "http://example.com/x", "Mozilla/5.0 (X11)", "bar", "foo bar"]
BODIES = [b"", b"hello world", b'{"id": 42, "name": "Foo"}', b"line1\nline2\nEND", b"<html><body>Hi</body></html>", b"user=admin&pass=secret",
          b"\x00\x01binary\xff", b"tab\there", b"GET /x HTTP/1.1", b"it's me", b"hello binary"]
MARKS = ["", "", "", ":red_circle:", ":default:", "x", ":grapes:"]
COMMENTS = ["", "", "todo: check this", "Reviewed by QA", "line one\nline two", "bug #123"]
META = [{}, {}, {"proxyauth": "user:pw"}, {"replay_of": "abc", "tag": "Slow"}, {"n": 7}]
CODES = [200, 200, 204, 301, 302, 404, 418, 500, 503, 101]
IPS = ["127.0.0.1", "192.168.0.12", "10.0.0.7", "::1", "203.0.113.9"]


def gen_headers(r, ctype_p=0.6):
    hs = []
    for _ in range(r.randint(0, 4)):
        hs.append((r.choice(HNAMES), "" if r.random() < 0.12 else r.choice(HVALS)))
    if r.random() < ctype_p:
        hs.insert(r.randint(0, len(hs)), (r.choice(["Content-Type", "content-type", "CONTENT-TYPE"]), "" if r.random() < 0.08 else r.choice(CTYPES)))
    return hs


def gen_body(r):
    """HTTP message body: missing (None), present but empty (b"" -- every real GET has one) or non-empty."""
    x = r.random()
    if x < 0.10:
        return None
    if x < 0.35:
        return b""
    return r.choice(BODIES[1:])


def gen_msgs(r):
    return [(r.random() < 0.5, b"" if r.random() < 0.12 else r.choice(BODIES[1:])) for _ in range(r.randint(0, 4))]


def gen_facts(r, typ=None):
    typ = typ or r.choice(["http", "http", "http", "http", "tcp", "udp", "dns"])
    f = {
        "type": typ,
        "marked": r.choice(MARKS),
        "comment": r.choice(COMMENTS),
        "metadata": dict(r.choice(META)),
        "is_replay": r.choice([None, None, None, "request", "response"]),
        "error": r.random() < 0.25,
        "src": None if r.random() < 0.1 else (r.choice(IPS), r.choice([22, 51234, 8080, 443])),
        "dst": None if r.random() < 0.1 else (r.choice(HOSTS + IPS), r.choice([80, 443, 8080, 53])),
    }
    if typ == "http":
        scheme = r.choice(["http", "https"])
        f.update(scheme=scheme, host=r.choice(HOSTS), port=r.choice([80, 443, 8080, 8443, ref.default_port(scheme), ref.default_port(scheme)]),
                 path=r.choice(PATHS), method=r.choice(METHODS))
        hs = gen_headers(r, 0.4)
        f["host_header"] = None
        x = r.random()
        if x < 0.5:
            hh = f["host"] if f["port"] == ref.default_port(scheme) else f"{f['host']}:{f['port']}"
        elif x < 0.65:
            hh = r.choice(HOSTS)
        else:
            hh = None
        if hh:
            hs.insert(0, ("Host", hh))
            f["host_header"] = hh
        f["req_headers"] = hs
        f["req_body"] = gen_body(r)
        if r.random() < 0.65:
            f["resp"] = {"code": r.choice(CODES), "headers": gen_headers(r, 0.75), "body": gen_body(r)}
        else:
            f["resp"] = None
        f["ws"] = gen_msgs(r) if (f["resp"] and r.random() < 0.25) else None
    elif typ in ("tcp", "udp"):
        f["messages"] = gen_msgs(r)
    else:
        f["qname"] = r.choice(["example.com", "dns.google", None])
        f["dns_resp"] = r.random() < 0.5
    return f


def build_flow(f):
    """Real mitmproxy flow carrying exactly the facts."""
    from mitmproxy import flow as mflow
    from mitmproxy import http, tcp, udp, websocket
    from mitmproxy.test import tflow, tutils
    from wsproto.frame_protocol import Opcode

    t = f["type"]
    if t == "http":
        req = http.Request(
            f["host"], f["port"], f["method"].encode(), f["scheme"].encode(), b"", f["path"].encode(), b"HTTP/1.1",
            http.Headers([(n.encode(), v.encode()) for n, v in f["req_headers"]]), f["req_body"], None, 946681200, 946681201,
        )
        resp = False
        if f["resp"]:
            resp = http.Response(
                b"HTTP/1.1", f["resp"]["code"], b"X", http.Headers([(n.encode(), v.encode()) for n, v in f["resp"]["headers"]]),
                f["resp"]["body"], None, 946681202, 946681203,
            )
        fl = tflow.tflow(req=req, resp=resp)
        if f["ws"] is not None:
            ws = websocket.WebSocketData()
            ws.messages = [websocket.WebSocketMessage(Opcode.BINARY, fc, c, 946681203) for fc, c in f["ws"]]
            fl.websocket = ws
    elif t == "tcp":
        fl = tflow.ttcpflow(messages=[tcp.TCPMessage(fc, c, 946681204.2) for fc, c in f["messages"]])
    elif t == "udp":
        fl = tflow.tudpflow(messages=[udp.UDPMessage(fc, c, 946681204.2) for fc, c in f["messages"]])
    else:
        req = tutils.tdnsreq() if f["qname"] is None else tutils.tdnsreq()
        if f["qname"] is None:
            req.questions = []
        else:
            req.questions[0].name = f["qname"]
        fl = tflow.tdnsflow(req=req, resp=bool(f["dns_resp"]))
    fl.marked = f["marked"]
    fl.comment = f["comment"]
    fl.metadata = dict(f["metadata"])
    fl.is_replay = f["is_replay"]
    fl.error = mflow.Error("boom", 946681207) if f["error"] else None
    fl.client_conn.peername = f["src"]
    fl.server_conn.address = f["dst"]
    return fl


# ---------------------------------------------------------------------------------------------
# regex arguments
# ---------------------------------------------------------------------------------------------

def target_strings(op, pool):
    """Strings the operator documentedly looks at, over the whole flow pool (to make hits likely)."""
    out = []
    for f in pool:
        http_ = f["type"] == "http"
        if op in ("u", "") and http_:
            out += list(ref.url_candidates(f))
        elif op == "d" and http_:
            out.append(f["host"])
        elif op == "m" and http_:
            out.append(f["method"])
        elif op in ("h", "hq", "hs") and http_:
            hs = list(f["req_headers"]) + (f["resp"]["headers"] if f["resp"] else [])
            out += [f"{n}: {v}" for n, v in hs]
        elif op in ("t", "tq", "ts") and http_:
            hs = list(f["req_headers"]) + (f["resp"]["headers"] if f["resp"] else [])
            out += [v for n, v in hs if n.lower() == "content-type"]
        elif op in ("b", "bq", "bs"):
            bs = []
            if http_:
                bs += [f["req_body"]] + ([f["resp"]["body"]] if f["resp"] else []) + [c for _, c in (f["ws"] or [])]
            elif f["type"] in ("tcp", "udp"):
                bs += [c for _, c in f["messages"]]
            out += [b.decode("ascii", "replace").replace("�", "?") for b in bs if b]
        elif op == "src" and f["src"]:
            out.append(f"{f['src'][0]}:{f['src'][1]}")
        elif op == "dst" and f["dst"]:
            out.append(f"{f['dst'][0]}:{f['dst'][1]}")
        elif op == "meta":
            out += [f"{k}: {v}" for k, v in f["metadata"].items()]
        elif op == "marker" and f["marked"]:
            out.append(f["marked"])
        elif op == "comment" and f["comment"]:
            out.append(f["comment"])
    return [s for s in out if s]


# regexes that match the empty string: they tell "present but empty" (b"", "", empty header value) from "absent"
EMPTY_OK = ["^$", ".*", "x?", "a*", "\\A\\Z", "(?:)", "^", "$", "^.*$", "\\Z", "(nomatch)?", "^(zzz|)$", "[0-9]*"]
MISS = ["zzz", "nomatch", "qqq\\d", "^xyz", "0000$", "foo.bar.baz", "[0-9]{9}"]


def gen_regex(r, op, pool):
    """A valid Python regex (str), usually derived from a substring of what the operator looks at."""
    targets = target_strings(op, pool)
    if r.random() < 0.12:
        return r.choice(EMPTY_OK)
    if not targets or r.random() < 0.15:
        return r.choice(MISS)
    t = r.choice(targets)
    i = r.randrange(len(t))
    j = min(len(t), i + r.randint(1, 7))
    if r.random() < 0.15:
        i = 0
    if r.random() < 0.15:
        j = len(t)
        i = max(i, j - 8)
    sub = t[i:j]
    out = []
    for ch in sub:
        x = r.random()
        if ch in "\n\r":
            out.append("\\n" if ch == "\n" else "\\r")
        elif x < 0.08:
            out.append(".")
        elif x < 0.13 and ch.isdigit():
            out.append("\\d")
        elif x < 0.15 and not ch.isdigit():
            out.append("\\D")
        elif x < 0.16 and not ch.isspace():
            out.append("\\S")
        elif x < 0.17 and (ch.isalnum() or ch == "_"):
            out.append("\\w")
        elif x < 0.21 and ch.isalpha() and ch.isascii():
            out.append("[a-z]")
        elif x < 0.30 and ch.isalpha():
            out.append(ch.swapcase())
        elif x < 0.33:
            out.append(re.escape(ch) + r.choice(["+", "?", "*", "{1}"]))
        else:
            out.append(re.escape(ch) if ch != " " else r.choice([" ", "\\ ", "\\s"]))
    p = "".join(out)
    x = r.random()
    if x < 0.10:
        p = "^" + p  # hit only if i == 0
    elif x < 0.20:
        p = p + "$"
    elif x < 0.28:
        p = f"({p}|{r.choice(MISS)})"
    elif x < 0.34:
        p = f"{r.choice(MISS)}|{p}"
    elif x < 0.40:
        p = p + ".*" + re.escape(t[-1])
    elif x < 0.44:
        p = f"(?:{p})"
    elif x < 0.47:
        p = "\\b" + p
    elif x < 0.51:
        p = f"^({p})?$"  # also matches the empty string
    try:
        re.compile(p)
        re.compile(p.encode("utf8"))
    except re.error:
        p = re.escape(sub)
    return p or "x"


SYNTAX_ESCAPES = "dDwWsSbB"  # letters whose case is regex syntax even under IGNORECASE
SIBLINGS = [["u", "d", "src", "dst", "marker", ""], ["meta", "comment"], ["b", "bq", "bs"], ["h", "hq", "hs"], ["t", "tq", "ts", "m"]]


def case_variant(r, p):
    """A regex that differs from p only in letter case: escape letters \\d \\w \\s \\b are swapped with their
    upper-case (complement) forms and literal letters change case.  Returns None if no valid different variant results."""
    out = []
    i = 0
    swapped = False
    while i < len(p):
        ch = p[i]
        if ch == "\\" and i + 1 < len(p):
            nx = p[i + 1]
            if nx in SYNTAX_ESCAPES and r.random() < 0.75:
                nx = nx.swapcase()
                swapped = True
            out.append(ch + nx)
            i += 2
            continue
        if ch.isalpha() and ch.isascii() and r.random() < 0.3:
            ch = ch.swapcase()
        out.append(ch)
        i += 1
    q = "".join(out)
    if q == p or q.lower() != p.lower():
        return None
    try:
        re.compile(q)
        re.compile(q.encode("utf8"))
    except re.error:
        return None
    return q


def variant_ast(r, ast):
    """Same tree; every regex argument replaced by a case variant where one exists, operators sometimes replaced by a
    sibling that looks at the same kind of data.  -> (ast, number of changed leaves)"""
    k = ast[0]
    if k == "leaf":
        op, arg = ast[1], ast[2]
        if not isinstance(arg, str):
            return ast, 0
        q = case_variant(r, arg)
        if q is None:
            return ast, 0
        if r.random() < 0.3:
            op = r.choice(next(g for g in SIBLINGS if op in g))
        return ("leaf", op, q), 1
    if k == "not":
        sub, n = variant_ast(r, ast[1])
        return ("not", sub), n
    kids, n = [], 0
    for c in ast[1]:
        sub, m = variant_ast(r, c)
        kids.append(sub)
        n += m
    return (k, kids), n


# ---------------------------------------------------------------------------------------------
# ASTs
# ---------------------------------------------------------------------------------------------

def gen_leaf(r, pool):
    x = r.random()
    if x < 0.30:
        return ("leaf", r.choice(ref.UNARY), None)
    if x < 0.40:
        codes = [f["resp"]["code"] for f in pool if f["type"] == "http" and f["resp"]] or [200]
        return ("leaf", "c", r.choice(codes) if r.random() < 0.7 else r.choice([200, 404, 999, 7]))
    if x < 0.50:
        return ("leaf", "", gen_regex(r, "", pool))
    op = r.choice(ref.REX)
    return ("leaf", op, gen_regex(r, op, pool))


def gen_ast(r, pool, depth):
    if depth <= 1 or r.random() < 0.12:
        return gen_leaf(r, pool)
    x = r.random()
    if x < 0.22:
        return ("not", gen_ast(r, pool, depth - 1))
    n = r.choice([2, 2, 2, 3, 3, 4])
    kids = [gen_ast(r, pool, depth - 1 if k == 0 else r.randint(1, depth - 1)) for k in range(n)]
    r.shuffle(kids)
    return ("and" if x < 0.61 else "or", kids)


# ---------------------------------------------------------------------------------------------
# rendering
# ---------------------------------------------------------------------------------------------
# tokens: (kind, text); kinds: unary opa word quoted num ( ) ! & | jux

NAKED_OK = re.compile(r"^[A-Za-z0-9._\\/:^$*+?\[\]{}=,;@%-]+$")
MUST_QUOTE = re.compile(r"""[()~'"\s]""")
PREC = {"or": 1, "and": 2, "not": 3, "leaf": 4}


def quote(r, s, q=None):
    """Quoted-string form: the backslash is the escape character (\\q -> q, \\\\ -> \\); any other character is literal."""
    q = q or r.choice("'\"")
    out = []
    for ch in s:
        if ch == "\\":
            out.append("\\\\")
        elif ch == q:
            out.append("\\" + q)
        else:
            out.append(ch)
    return q + "".join(out) + q


def render_arg(r, s, naked, st):
    unq_ok = bool(s) and not MUST_QUOTE.search(s)
    if naked:
        unq_ok = unq_ok and bool(NAKED_OK.match(s))
    if unq_ok and r.random() < 0.55:
        st["quoting"].add("bare")
        return ("word", s)
    q = r.choice("'\"")
    st["quoting"].add("sq" if q == "'" else "dq")
    if "\\" in s:
        st["quoting"].add("escaped-backslash")
    if q in s:
        st["quoting"].add("escaped-quote")
    return ("quoted", quote(r, s, q))


def tokens(r, ast, st, parent_prec=0):
    """-> (tokens, bare_jux).  bare_jux: the sequence contains a juxtaposition outside any parentheses.  The docs say
    juxtaposition means & but not where it ranks relative to |, so such a sequence is never placed directly under a |
    (it gets parentheses there); everywhere else both readings coincide."""
    k = ast[0]
    toks = []
    bare_jux = False
    if k == "leaf":
        op, arg = ast[1], ast[2]
        if op == "":
            st["leafkinds"].add("naked")
            toks = [render_arg(r, arg, True, st)]
        elif arg is None:
            st["leafkinds"].add("unary")
            toks = [("unary", "~" + op)]
        elif isinstance(arg, int):
            st["leafkinds"].add("int")
            toks = [("opa", "~" + op), ("num", str(arg))]
        else:
            st["leafkinds"].add("rex")
            toks = [("opa", "~" + op), render_arg(r, arg, False, st)]
        need = False
    elif k == "not":
        sub, bare_jux = tokens(r, ast[1], st, PREC["not"])
        toks = [("!", "!")] + sub
        need = parent_prec > PREC["not"]
    else:
        jux = k == "and" and r.random() < (0.7 if st.get("tight") else 0.4)
        if jux:
            st["jux"] = True
            bare_jux = True
        sep = ("jux", "") if jux else (("&", "&") if k == "and" else ("|", "|"))
        for n, c in enumerate(ast[1]):
            if n:
                toks.append(sep)
            # children of equal precedence (nested and-in-and / or-in-or) are sometimes left bare: the connectives are
            # associative, so both groupings have the documented meaning; lower-precedence children get parentheses
            cp = PREC[k] if r.random() < 0.5 else PREC[k] + 0.5
            sub, bj = tokens(r, c, st, cp)
            if bj and k == "or":
                sub = [("(", "(")] + sub + [(")", ")")]
                bj = False
            bare_jux = bare_jux or bj
            toks += sub
        need = parent_prec > PREC[k]
    if need or r.random() < st["redundant_p"]:
        if not need:
            st["redundant"] += 1
        toks = [("(", "(")] + toks + [(")", ")")]
        bare_jux = False
    return toks, bare_jux


WS = [" ", " ", " ", "  ", "\t", " \t ", "\n"]


def nesting(toks):
    d = m = 0
    for k, _ in toks:
        if k == "(":
            d += 1
            m = max(m, d)
        elif k == ")":
            d -= 1
    return m


def nested_jux(toks):
    """True if a juxtaposition occurs inside parentheses."""
    d = 0
    for k, _ in toks:
        if k == "(":
            d += 1
        elif k == ")":
            d -= 1
        elif k == "jux" and d > 0:
            return True
    return False


def tight_jux_ok(left, right):
    """May the whitespace between two juxtaposed terms be dropped?  (left = kind of the token that ends the left term,
    right = kind of the token that starts the right term.)  Yes wherever the reserved characters ~ ( ) ' " already end the
    left token: an operator name, a numeric code, an unquoted regex, a closing quote or parenthesis, directly followed by
    ~operator, an opening parenthesis or a quote.  Not where the two would fuse into one token: an unquoted regex followed
    by ! or by another unquoted regex, an operator name or a code followed by an unquoted regex."""
    if right in ("unary", "opa", "(", "quoted"):
        return left in ("unary", "num", "word", "quoted", ")")
    if right == "!":
        return left in ("unary", "num", "quoted", ")")
    if right == "word":
        return left in ("quoted", ")")
    return False


def layout(r, toks, st):
    """Whitespace after each token (list parallel to toks).  A juxtaposition is a token with empty text; the whitespace
    that separates its operands is placed *before* it, so that spelling it as an explicit & later changes nothing else.
    st["tight"]: drop every whitespace that is not needed to keep the tokens apart."""
    gaps = []
    tight = st.get("tight", False)
    for n, (kind, _) in enumerate(toks):
        if n + 1 >= len(toks):
            gaps.append("")
            break
        nk = toks[n + 1][0]
        nxt = toks[n + 2][0] if nk == "jux" else nk
        if kind == "jux":
            gaps.append("")
            continue
        required = False
        if kind == "opa":
            required = True
        elif nk == "jux":
            required = not (tight_jux_ok(kind, nxt) and (tight or r.random() < 0.3))
            if not required:
                st["tight_jux"] = True
                st.setdefault("tight_pairs", []).append((kind, nxt))
        elif kind == "word" and nxt != ")":
            required = True  # an unquoted regex runs up to the next whitespace or parenthesis: it would swallow & | !
        if required or (not tight and r.random() < 0.5):
            gaps.append(r.choice(WS))
        else:
            gaps.append("")
            if kind == "unary":
                st["tight_unary"] = True
    return gaps


def assemble(toks, gaps, tight_unary=True, nested_jux_as_amp=False):
    """tight_unary=False puts a blank after every unary operator that had none; nested_jux_as_amp spells every
    juxtaposition inside parentheses as an explicit & (same documented meaning); nothing else changes."""
    out = []
    d = 0
    prev = (None, " ")
    for (kind, text), gap in zip(toks, gaps):
        if kind == "(":
            d += 1
        elif kind == ")":
            d -= 1
        if kind == "jux":
            text = "&" if (nested_jux_as_amp and d > 0) else ""
            if text and prev == ("word", ""):
                text = " &"  # an unquoted regex would swallow the &
        prev = (kind, gap)
        out.append(text)
        if kind == "unary" and not tight_unary and not gap:
            gap = " "
        out.append(gap)
    return "".join(out)


def new_state(r, redundant_p=None):
    return {"quoting": set(), "leafkinds": set(), "jux": False, "redundant": 0, "tight_unary": False, "tight_jux": False,
            "redundant_p": r.choice([0.0, 0.05, 0.15]) if redundant_p is None else redundant_p, "tight": r.random() < 0.3, "tight_pairs": []}


def render(r, ast, max_nesting=3):
    """-> (text, state, tokens) or None if the AST cannot be rendered within max_nesting levels of parentheses
    (the real parser's time grows ~7x per level of parentheses, so nesting is budgeted by the caller)."""
    for attempt in range(3):
        st = new_state(r, None if attempt == 0 else 0.0)
        toks, _ = tokens(r, ast, st)
        if nesting(toks) <= max_nesting:
            break
    else:
        return None
    gaps = layout(r, toks, st)
    if r.random() < 0.2:
        toks, gaps = [("ws", "")] + toks, [r.choice(WS)] + gaps
    if r.random() < 0.2:
        gaps[-1] = r.choice(WS)
    st["gaps"] = gaps
    return assemble(toks, gaps), st, toks


def gen_rendered(r, pool, depth, max_nesting):
    """AST of the requested depth (reduced if it cannot be rendered within max_nesting) and one rendering of it."""
    for attempt in range(12):
        ast = gen_ast(r, pool, max(1, depth - attempt // 3))
        out = render(r, ast, max_nesting)
        if out is not None:
            return ast, out
    ast = gen_leaf(r, pool)
    return ast, render(r, ast, 99)
