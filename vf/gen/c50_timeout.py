"""Wall-clock guard for calls into real code that may block forever (used by C49/C50).

``with guard():`` raises ``Hang`` (a BaseException, so that ``except Exception`` in the code under test cannot swallow it) when
the guarded call has made no progress: it used (almost) no CPU time during five consecutive timer ticks (0.3+4*0.5 s of
wall time: it is *blocked*, e.g. waiting on a queue/lock), or it has burnt 10 s of CPU time and is still computing ("busy").
Both verdicts are load-independent: wall-clock time alone never decides (a descheduled process on a loaded machine neither
accumulates CPU seconds nor stays below 10% CPU for 2.3 s while runnable). A busy but progressing call is left alone (the timer re-arms).
Main thread only (signal based).
"""
from __future__ import annotations

import signal
import time
from contextlib import contextmanager


class Hang(BaseException):
    def __init__(self, kind, frames):
        super().__init__(kind)
        self.kind = kind
        self.frames = frames  # file names of the interrupted stack, innermost first


@contextmanager
def guard(first=0.3, limit=10.0):
    t0 = time.monotonic()
    c0 = time.process_time()
    state = {"t": t0, "c": c0, "idle": 0}

    def handler(signum, frame):
        now, cpu_now = time.monotonic(), time.process_time()
        wall = now - t0
        idle = (cpu_now - state["c"]) < 0.1 * (now - state["t"])  # (almost) no CPU used during the last tick
        state["t"], state["c"] = now, cpu_now
        state["idle"] = state["idle"] + 1 if idle else 0
        # blocked = five consecutive idle ticks (2.3 s) -- a merely descheduled process does not stay idle that long; busy = 10 CPU seconds
        if state["idle"] >= 5 or (cpu_now - c0) > limit:
            frames = []
            f = frame
            while f is not None and len(frames) < 40:
                frames.append(f.f_code.co_filename + ":" + f.f_code.co_name)
                f = f.f_back
            raise Hang("blocked" if state["idle"] >= 5 else "busy", frames)
        signal.setitimer(signal.ITIMER_REAL, 0.5)

    old = signal.signal(signal.SIGALRM, handler)
    signal.setitimer(signal.ITIMER_REAL, first)
    try:
        yield
    finally:
        signal.setitimer(signal.ITIMER_REAL, 0)
        signal.signal(signal.SIGALRM, old)
