"""In-memory peers for the connection-routing / credential checks (C08, C24, C20) on engine A.

* ProxyPeer      -- an HTTP/1 forward proxy: the first request decides; CONNECT is answered per plan and the bytes after the
                    CONNECT head are handled as a tunnel by an inner origin responder; otherwise every (absolute-form)
                    request is answered like an origin would.
* TlsServerPeer  -- a real TLS server (stdlib ssl over MemoryBIO, throw-away self-signed EC certificate) wrapped around
                    any other peer; records the SNI it was offered and the plaintext it decrypted.
Nothing here imports mitmproxy (only the Peer base class of the driver).
"""
from __future__ import annotations

import atexit
import datetime
import os
import shutil
import ssl
import tempfile

from vf.ref import http1 as ref
from vf.sansio import Peer


class OriginPeer(Peer):
    """Reactive HTTP/1 origin: answers request k with responder(k, msg, self) -> (bytes, close_after) | None.
    Parses received bytes from `offset` on (ProxyPeer uses it for the tunnel payload)."""

    def __init__(self, responder):
        super().__init__()
        self.responder = responder
        self.answered = 0
        self.requests = []
        self.status = "ok"
        self.rest = b""
        self.closed = False
        self.offset = 0

    def _reparse(self):
        buf = bytes(self.received[self.offset:])
        msgs = []
        pos = 0
        status = "ok"
        while pos < len(buf):
            if buf[pos:].strip(b"\r\n") == b"":
                pos = len(buf)
                break
            try:
                m, npos = ref.parse_request(buf, pos)
            except ref.Incomplete:
                status = "incomplete"
                break
            except ref.Reject as e:
                status = "reject:" + str(e)
                break
            m["raw"] = buf[pos:npos]
            msgs.append(m)
            pos = npos
        self.status = status
        self.rest = buf[pos:]
        self.requests = msgs
        while self.answered < len(msgs) and not self.closed:
            k = self.answered
            self.answered += 1
            ans = self.responder(k, msgs[k], self)
            if ans is None:
                continue
            data, close_after = ans
            self.send(data)
            if close_after:
                self.close()
                self.closed = True

    def on_data(self, data):
        self._reparse()

    def on_eof(self):
        self._reparse()


class ProxyPeer(OriginPeer):
    """HTTP forward proxy. connect_plan(msg, self) -> (response_head_bytes, ok: bool). After a 2xx the following bytes are
    the tunnel payload: handed to tunnel_factory(msg) -> Peer (e.g. TlsServerPeer(OriginPeer(..))) when given, otherwise
    parsed as HTTP/1 requests and answered by `responder` (non-HTTP payload just accumulates)."""

    def __init__(self, responder, connect_plan=None, tunnel_factory=None):
        super().__init__(responder)
        self.connect_plan = connect_plan or (lambda msg, peer: (b"HTTP/1.1 200 Connection established\r\n\r\n", True))
        self.tunnel_factory = tunnel_factory
        self.tunnel = None
        self.connect = None  # parsed CONNECT request
        self.connect_ok = None
        self.decided = False

    def tunnel_payload(self) -> bytes:
        return bytes(self.received[self.offset:]) if self.connect is not None else b""

    def _reparse(self):
        if not self.decided:
            buf = bytes(self.received)
            try:
                m, npos = ref.parse_request(buf, 0)
            except ref.Incomplete:
                return
            except ref.Reject as e:
                self.status = "reject:" + str(e)
                self.decided = True
                return
            self.decided = True
            if m["method"] == "CONNECT":
                m["raw"] = buf[:npos]
                self.connect = m
                self.offset = npos
                head, ok = self.connect_plan(m, self)
                self.connect_ok = ok
                self.send(head)
                if not ok:
                    self.close()
                    self.closed = True
                    return
                if self.tunnel_factory is not None:
                    t = self.tunnel = self.tunnel_factory(m)
                    if t is not None:
                        t.driver, t.conn = self.driver, self.conn
                        t.send, t.close = self.send, self.close
                        t.on_open()
                        self._fed = self.offset
        if self.status.startswith("reject") and self.connect is None:
            return
        if self.tunnel is not None:
            data = bytes(self.received[self._fed:])
            self._fed = len(self.received)
            if data:
                self.tunnel.received += data
                self.tunnel.on_data(data)
            if self.got_eof and not self.tunnel.got_eof:
                self.tunnel.got_eof = True
                self.tunnel.on_eof()
            return
        if self.connect is not None and not self.connect_ok:
            return
        super()._reparse()


# ---------------------------------------------------------------------------------------------
# TLS
# ---------------------------------------------------------------------------------------------
_CERT = {}


def cert_file() -> str:
    """One throw-away self-signed EC certificate (+key) per process, in a temp dir removed at exit."""
    if "path" not in _CERT:
        from cryptography import x509
        from cryptography.hazmat.primitives import hashes, serialization
        from cryptography.hazmat.primitives.asymmetric import ec
        from cryptography.x509.oid import NameOID

        d = tempfile.mkdtemp(prefix=f"vf-c08-{os.getpid()}-")
        atexit.register(shutil.rmtree, d, True)
        key = ec.generate_private_key(ec.SECP256R1())
        name = x509.Name([x509.NameAttribute(NameOID.COMMON_NAME, "vf-c08-peer")])
        now = datetime.datetime.now(datetime.timezone.utc)
        cert = (
            x509.CertificateBuilder()
            .subject_name(name)
            .issuer_name(name)
            .public_key(key.public_key())
            .serial_number(x509.random_serial_number())
            .not_valid_before(now - datetime.timedelta(days=1))
            .not_valid_after(now + datetime.timedelta(days=30))
            .sign(key, hashes.SHA256())
        )
        p = os.path.join(d, "peer.pem")
        with open(p, "wb") as f:
            f.write(key.private_bytes(serialization.Encoding.PEM, serialization.PrivateFormat.PKCS8, serialization.NoEncryption()))
            f.write(cert.public_bytes(serialization.Encoding.PEM))
        _CERT["path"] = p
    return _CERT["path"]


class TlsServerPeer(Peer):
    """Real TLS server around an inner Peer. fail=True: closes as soon as the ClientHello arrives.
    `inner` is a Peer, or a callable(selected_alpn: str|None) -> Peer invoked once the handshake is complete
    (so that an h2 / http/1.1 origin can be chosen by ALPN); alpn = list of protocols the server supports."""

    def __init__(self, inner, fail=False, alpn=None):
        super().__init__()
        self.inner = None if callable(inner) and not isinstance(inner, Peer) else inner
        self.inner_factory = inner if self.inner is None else None
        self.fail = fail
        self.inc = ssl.MemoryBIO()
        self.outb = ssl.MemoryBIO()
        c = ssl.SSLContext(ssl.PROTOCOL_TLS_SERVER)
        c.load_cert_chain(cert_file())
        if alpn:
            c.set_alpn_protocols(list(alpn))
        self.sni = []
        c.sni_callback = lambda obj, name, ctx_: self.sni.append(name)
        self.obj = c.wrap_bio(self.inc, self.outb, server_side=True)
        self.handshaken = False
        self.selected_alpn = None
        self.error = None
        self.tls_closed = False
        self.first_record = b""

    def _wire_inner(self):
        self.inner.driver = self.driver
        self.inner.conn = self.conn
        self.inner.send = self._send_plain
        self.inner.close = self._close_plain
        self.inner.on_open()

    def on_open(self):
        if self.inner is not None:
            self._wire_inner()

    def plaintext(self) -> bytes:
        return bytes(self.inner.received) if self.inner is not None else b""

    def _flush(self):
        out = self.outb.read()
        if out and not self.tls_closed:
            self.send(out)

    def _send_plain(self, data, gate=None):
        if data and self.handshaken and self.error is None and not self.tls_closed:
            self.obj.write(data)
            self._flush()

    def _close_plain(self, gate=None):
        if not self.tls_closed:
            if self.handshaken and self.error is None:
                try:
                    self.obj.unwrap()
                except (ssl.SSLError, OSError):
                    pass
                self._flush()
            self.tls_closed = True
            self.close()

    def on_data(self, data):
        if not self.first_record:
            self.first_record = bytes(self.received[:16])
        if self.fail:
            if not self.tls_closed:
                self.tls_closed = True
                self.close()
            return
        if self.error is not None or self.tls_closed:
            return
        self.inc.write(data)
        if not self.handshaken:
            try:
                self.obj.do_handshake()
                self.handshaken = True
                self.selected_alpn = self.obj.selected_alpn_protocol()
                if self.inner is None:
                    self.inner = self.inner_factory(self.selected_alpn)
                    self._wire_inner()
            except ssl.SSLWantReadError:
                pass
            except (ssl.SSLError, OSError) as e:
                self.error = e
                self._flush()
                self.tls_closed = True
                self.close()
                return
        self._flush()
        if self.handshaken:
            while True:
                try:
                    d = self.obj.read(65536)
                except ssl.SSLWantReadError:
                    break
                except ssl.SSLZeroReturnError:
                    d = b""
                except (ssl.SSLError, OSError) as e:
                    self.error = e
                    break
                if not d:
                    if not self.inner.got_eof:
                        self.inner.got_eof = True
                        self.inner.on_eof()
                    break
                self.inner.received += d
                self.inner.on_data(d)
            self._flush()

    def on_eof(self):
        if self.inner is not None and not self.inner.got_eof:
            self.inner.got_eof = True
            self.inner.closed_by_proxy = self.closed_by_proxy
            self.inner.on_eof()


class AutoTlsPeer(Peer):
    """An endpoint that speaks TLS iff the first octet it receives is a TLS handshake record (0x16), plaintext otherwise.
    app = Peer or callable(selected_alpn|None) -> Peer (called with None for plaintext)."""

    def __init__(self, app, fail_tls=False, alpn=None):
        super().__init__()
        self.app = app
        self.fail_tls = fail_tls
        self.alpn = alpn
        self.delegate = None
        self.tls = None  # True / False once decided

    def app_peer(self):
        if self.tls:
            return self.delegate.inner
        return self.delegate

    def on_data(self, data):
        if self.delegate is None:
            self.tls = data[:1] == b"\x16"
            if self.tls:
                dlg = TlsServerPeer(self.app, fail=self.fail_tls, alpn=self.alpn)
            else:
                dlg = self.app if isinstance(self.app, Peer) else self.app(None)
            dlg.driver, dlg.conn = self.driver, self.conn
            dlg.send, dlg.close = self.send, self.close
            self.delegate = dlg
            dlg.on_open()
        self.delegate.received += data
        self.delegate.on_data(data)

    def on_eof(self):
        if self.delegate is not None and not self.delegate.got_eof:
            self.delegate.got_eof = True
            self.delegate.closed_by_proxy = self.closed_by_proxy
            self.delegate.on_eof()


class H2OriginPeer(Peer):
    """HTTP/2 origin (python-h2, server side). responder(k, req, self) -> (status:int, headers:list[(bytes,bytes)], body:bytes) | None
    where req = dict(stream_id, method, scheme, authority, path, headers, body). Every request is recorded in .requests."""

    def __init__(self, responder):
        super().__init__()
        import h2.config
        import h2.connection

        self.responder = responder
        self.h2 = h2.connection.H2Connection(h2.config.H2Configuration(client_side=False, header_encoding=None, validate_inbound_headers=False))
        self.requests = []
        self.open_streams = {}
        self.error = None

    def on_open(self):
        self.h2.initiate_connection()
        self.send(self.h2.data_to_send())

    def on_data(self, data):
        import h2.events
        import h2.exceptions

        if self.error is not None:
            return
        try:
            evs = self.h2.receive_data(data)
        except h2.exceptions.ProtocolError as e:
            self.error = e
            out = self.h2.data_to_send()
            if out:
                self.send(out)
            self.close()
            return
        for ev in evs:
            if isinstance(ev, h2.events.RequestReceived):
                hd = dict(ev.headers)
                self.open_streams[ev.stream_id] = {
                    "stream_id": ev.stream_id, "method": hd.get(b":method", b"").decode("latin-1"), "scheme": hd.get(b":scheme"),
                    "authority": hd.get(b":authority"), "path": hd.get(b":path", b""), "target": hd.get(b":path", b""), "headers": list(ev.headers), "body": b"",
                }
                if ev.stream_ended:
                    self._finish(ev.stream_id)
            elif isinstance(ev, h2.events.DataReceived):
                if ev.stream_id in self.open_streams:
                    self.open_streams[ev.stream_id]["body"] += ev.data
                self.h2.acknowledge_received_data(ev.flow_controlled_length, ev.stream_id)
            elif isinstance(ev, h2.events.StreamEnded):
                self._finish(ev.stream_id)
            elif isinstance(ev, h2.events.StreamReset):
                self.open_streams.pop(ev.stream_id, None)
        out = self.h2.data_to_send()
        if out:
            self.send(out)

    def _finish(self, sid):
        req = self.open_streams.pop(sid, None)
        if req is None:
            return
        k = len(self.requests)
        self.requests.append(req)
        ans = self.responder(k, req, self)
        if ans is None:
            return
        status, headers, body = ans
        self.h2.send_headers(sid, [(b":status", b"%d" % status)] + list(headers), end_stream=not body)
        if body:
            self.h2.send_data(sid, body, end_stream=True)


class H2ClientPeer(Peer):
    """HTTP/2 client (python-h2). batches: list of lists of request dicts {headers: [(bytes, bytes)], body: bytes, key: any};
    batch i+1 is sent once every stream of batch i has ended or was reset. Responses are recorded per key in .responses."""

    def __init__(self, batches):
        super().__init__()
        import h2.config
        import h2.connection

        self.h2 = h2.connection.H2Connection(h2.config.H2Configuration(client_side=True, header_encoding=None, validate_inbound_headers=False))
        self.batches = [list(b) for b in batches]
        self.next_batch = 0
        self.pending = set()
        self.by_stream = {}
        self.responses = {}
        self.error = None
        self.terminated = False

    def on_open(self):
        self.h2.initiate_connection()
        self._send_batch()

    def _send_batch(self):
        while self.next_batch < len(self.batches) and not self.pending and not self.terminated:
            for rq in self.batches[self.next_batch]:
                sid = self.h2.get_next_available_stream_id()
                self.by_stream[sid] = rq["key"]
                self.responses[rq["key"]] = {"status": None, "headers": [], "body": b"", "ended": False, "reset": None, "stream_id": sid}
                self.pending.add(sid)
                self.h2.send_headers(sid, rq["headers"], end_stream=not rq.get("body"))
                if rq.get("body"):
                    self.h2.send_data(sid, rq["body"], end_stream=True)
            self.next_batch += 1
        out = self.h2.data_to_send()
        if out:
            self.send(out)

    def on_data(self, data):
        import h2.events
        import h2.exceptions

        if self.error is not None:
            return
        try:
            evs = self.h2.receive_data(data)
        except h2.exceptions.ProtocolError as e:
            self.error = e
            return
        for ev in evs:
            sid = getattr(ev, "stream_id", None)
            rec = self.responses.get(self.by_stream.get(sid)) if sid else None
            if isinstance(ev, h2.events.ResponseReceived) and rec is not None:
                hd = dict(ev.headers)
                rec["status"] = int(hd.get(b":status", b"0"))
                rec["headers"] = list(ev.headers)
            elif isinstance(ev, h2.events.DataReceived):
                if rec is not None:
                    rec["body"] += ev.data
                self.h2.acknowledge_received_data(ev.flow_controlled_length, ev.stream_id)
            elif isinstance(ev, h2.events.StreamEnded) and rec is not None:
                rec["ended"] = True
                self.pending.discard(sid)
            elif isinstance(ev, h2.events.StreamReset) and rec is not None:
                rec["reset"] = ev.error_code
                self.pending.discard(sid)
            elif isinstance(ev, h2.events.ConnectionTerminated):
                self.terminated = True
                self.pending.clear()
        out = self.h2.data_to_send()
        if out:
            self.send(out)
        self._send_batch()
