"""Engine 'web' (used by C46 and C47): the real mitmweb tornado Application with a real WebMaster, served by
tornado's HTTPServer on a loopback ephemeral port inside the worker process, driven by a tiny raw asyncio
HTTP/1.1 client (own code: arbitrary methods/headers, no cookie jar, no redirects, no retries).

Nothing of mitmproxy is patched.  The three tornado loggers are disabled exactly like the repository's own
test-suite does (tornado's access log would otherwise append "403 GET /flows" lines to the event store, which is
logging of the refusal and not a state change in the sense of C46).
"""
from __future__ import annotations

import asyncio
import copy
import hashlib
import io as _io
import json
import logging
import re

import tornado.httpserver
import tornado.testing
import tornado.web

TAG = "Zq7SeCrEtTaG"  # planted in every piece of flow/event/option data; must never reach an unauthenticated peer
FLOW_HTTP = "11111111-aaaa-4bbb-8ccc-000000000001"
FLOW_WS = "11111111-aaaa-4bbb-8ccc-000000000002"
FLOW_ERR = "11111111-aaaa-4bbb-8ccc-000000000003"
FLOW_TCP = "11111111-aaaa-4bbb-8ccc-000000000004"
FLOW_MISSING = "99999999-dead-4bee-8fff-000000000009"


class Resp:
    __slots__ = ("status", "headers", "body", "raw")

    def __init__(self, status, headers, body, raw):
        self.status = status
        self.headers = headers  # list[(lower-name, value)]
        self.body = body
        self.raw = raw

    def header_all(self, name):
        return [v for k, v in self.headers if k == name]


def parse_response(raw: bytes) -> Resp:
    head, sep, rest = raw.partition(b"\r\n\r\n")
    lines = head.split(b"\r\n")
    m = re.match(rb"HTTP/1\.[01] (\d{3})", lines[0])
    if not m:
        raise ValueError(f"bad status line {lines[0][:80]!r}")
    status = int(m.group(1))
    headers = []
    for ln in lines[1:]:
        k, _, v = ln.partition(b":")
        headers.append((k.strip().lower().decode("latin-1"), v.strip().decode("latin-1")))
    body = rest
    if any(k == "transfer-encoding" and "chunked" in v.lower() for k, v in headers):
        out = b""
        pos = 0
        while pos < len(rest):
            eol = rest.find(b"\r\n", pos)
            if eol < 0:
                break
            try:
                n = int(rest[pos:eol].split(b";")[0], 16)
            except ValueError:
                break
            if n == 0:
                break
            out += rest[eol + 2 : eol + 2 + n]
            pos = eol + 2 + n + 2
        body = out
    return Resp(status, headers, body, raw)


class WebRig:
    """One real WebMaster + Application + listening HTTPServer per worker process."""

    def __init__(self):
        self.master = None
        self.app = None
        self.port = None
        self.server = None
        self._saved_options = None
        self.canonical = None

    # ---- lifecycle -------------------------------------------------------------------------
    async def start(self, token: str):
        from mitmproxy import options
        from mitmproxy.tools.web import master as webmaster

        for n in ("tornado.access", "tornado.application", "tornado.general"):
            logging.getLogger(n).disabled = True
        o = options.Options(http2=False)
        self.master = webmaster.WebMaster(o, with_termlog=False)
        self.app = self.master.app  # the Application the real mitmweb serves (xsrf_cookies on)
        self.auth = self.master.addons.get("webauth")
        self.auth._password = token  # deterministic token (normally secrets.token_hex(16))
        self._token = token
        sock, self.port = tornado.testing.bind_unused_port()
        self.server = tornado.httpserver.HTTPServer(self.app, max_buffer_size=2**24)
        self.server.add_sockets([sock])
        self.master.options.web_open_browser = False
        self.master.options.upstream_auth = f"user:{TAG}opt"
        self._saved_options = {k: copy.deepcopy(getattr(self.master.options, k)) for k in self.master.options.keys()}
        self.populate()
        self.canonical = self.digest()

    async def stop(self):
        from mitmproxy.tools.web import app as webapp

        for c in list(webapp.ClientConnection.connections):
            try:
                c.close()
            except Exception:
                pass
        self.server.stop()
        await self.server.close_all_connections()
        self.master.events.done()

    @property
    def token(self) -> str:
        return self.auth._password

    @property
    def cookie_secret(self) -> bytes:
        return self.app.settings["cookie_secret"]

    @property
    def auth_cookie_name(self) -> str:
        return self.app.settings["auth_cookie_name"]()

    @property
    def xsrf_cookie_name(self) -> str:
        return self.app.settings.get("xsrf_cookie_name", "_xsrf")

    # ---- state -----------------------------------------------------------------------------
    def populate(self):
        from mitmproxy import log
        from mitmproxy.test import tflow

        m = self.master
        f = tflow.tflow(resp=True)
        f.id = FLOW_HTTP
        f.request.path = f"/{TAG}path"
        f.request.headers["X-Secret"] = f"{TAG}hdr"
        f.request.content = f"{TAG}body\nline2".encode()
        f.response.headers["X-Secret"] = f"{TAG}rhdr"
        f.response.content = f"{TAG}respbody".encode()
        f.comment = f"{TAG}comment"
        f2 = tflow.tflow(ws=True, resp=True)
        f2.id = FLOW_WS
        f2.request.path = f"/{TAG}ws"
        for msg in f2.websocket.messages:
            msg.content = msg.content + TAG.encode()
        f3 = tflow.tflow(err=True)
        f3.id = FLOW_ERR
        f3.request.path = f"/{TAG}err"
        f4 = tflow.ttcpflow()
        f4.id = FLOW_TCP
        for msg in f4.messages:
            msg.content = msg.content + TAG.encode()
        for i, x in enumerate((f, f2, f3, f4)):
            x.timestamp_created = 946681200.0 + i
            x.client_conn.id = f"00000000-0000-4000-8000-00000000c{i:03d}"
            x.server_conn.id = f"00000000-0000-4000-8000-00000000d{i:03d}"
        m.view.add([f, f2, f3, f4])
        f.intercept()
        m.events.data.clear()
        m.events.data.append(log.LogEntry(f"{TAG}event", "info"))

    def flows(self):
        return list(self.master.view._store.values())

    def state(self) -> dict:
        from mitmproxy.tools.web import app as webapp

        m = self.master
        cp = m.addons.get("clientplayback")
        return {
            "flows": [[f.id, f.get_state(), bool(f.live), bool(f.intercepted)] for f in self.flows()],
            "order": [f.id for f in m.view],
            "options": {k: repr(getattr(m.options, k)) for k in sorted(m.options.keys())},
            "events": [[e.msg, e.level] for e in m.events.data],
            "replay": [cp.queue.qsize() if cp else None, repr(getattr(cp, "inflight", None))],
            "ws_connections": len(webapp.ClientConnection.connections),
            "token": self.auth._password,
        }

    def digest(self) -> str:
        return hashlib.sha1(json.dumps(self.state(), sort_keys=True, default=repr).encode()).hexdigest()

    def reset(self):
        """Bring the master back to the canonical state (after a positive control changed it)."""
        from mitmproxy.tools.web import app as webapp

        m = self.master
        for c in list(webapp.ClientConnection.connections):
            try:
                c.close()
            except Exception:
                pass
        webapp.ClientConnection.connections.clear()
        cp = m.addons.get("clientplayback")
        if cp is not None:
            while not cp.queue.empty():
                cp.queue.get_nowait()
                try:
                    cp.queue.task_done()
                except ValueError:
                    pass
        diff = {k: copy.deepcopy(v) for k, v in self._saved_options.items() if getattr(m.options, k) != v}
        if diff:
            m.options.update(**diff)
        self.auth._password = self._token
        m.view.clear()
        m.events.data.clear()
        self.populate()

    # ---- routes ----------------------------------------------------------------------------
    def routes(self):
        """[(pattern, handler_class)] of every application route (tornado's static file routes excluded, DESIGN 3.6)."""
        out = []
        skipped = 0
        for rule in self.app.wildcard_router.rules:
            target = rule.target
            pat = rule.matcher.regex.pattern
            if isinstance(target, type) and issubclass(target, tornado.web.StaticFileHandler):
                skipped += 1
                continue
            out.append((pat, target))
        return out, skipped

    # ---- client ----------------------------------------------------------------------------
    async def request(self, method: str, target: str, headers=(), body: bytes | None = None, timeout=8.0) -> Resp:
        reader, writer = await asyncio.open_connection("127.0.0.1", self.port)
        try:
            buf = _io.BytesIO()
            buf.write(f"{method} {target} HTTP/1.1\r\nHost: 127.0.0.1:{self.port}\r\nConnection: close\r\n".encode("latin-1"))
            for k, v in headers:
                buf.write(f"{k}: {v}\r\n".encode("latin-1"))
            if body is not None:
                buf.write(f"Content-Length: {len(body)}\r\n".encode())
            buf.write(b"\r\n")
            if body:
                buf.write(body)
            writer.write(buf.getvalue())
            await writer.drain()
            raw = await asyncio.wait_for(reader.read(-1), timeout)
        finally:
            writer.close()
        return parse_response(raw)

    async def ws_handshake(self, target: str, headers=(), probe=None, timeout=8.0):
        """Send a WebSocket upgrade request.  Returns (Resp-of-head, bytes received afterwards).
        ``probe`` is called (synchronously, server side) after the handshake answer was read; everything the
        server then sends on this socket within a short grace period is returned."""
        reader, writer = await asyncio.open_connection("127.0.0.1", self.port)
        try:
            buf = f"GET {target} HTTP/1.1\r\nHost: 127.0.0.1:{self.port}\r\n"
            for k, v in headers:
                buf += f"{k}: {v}\r\n"
            writer.write((buf + "\r\n").encode("latin-1"))
            await writer.drain()
            head = await asyncio.wait_for(reader.readuntil(b"\r\n\r\n"), timeout)
            resp = parse_response(head)
            cl = resp.header_all("content-length")
            body = b""
            if cl and resp.status != 101:
                body = await asyncio.wait_for(reader.readexactly(int(cl[0])), timeout)
            resp.body = body
            resp.raw = head + body
            after = b""
            if probe is not None:
                for _ in range(3):
                    await asyncio.sleep(0)
                probe()
                try:
                    while True:
                        chunk = await asyncio.wait_for(reader.read(65536), 0.25 if resp.status == 101 else 0.03)
                        if not chunk:
                            break
                        after += chunk
                        if resp.status == 101 and TAG.encode() in after:
                            break
                except asyncio.TimeoutError:
                    pass
            return resp, after
        finally:
            writer.close()
            for _ in range(3):
                await asyncio.sleep(0)


class KeepAlive:
    """One persistent HTTP/1.1 connection to the rig (own client code): sequential or pipelined requests on the SAME socket."""

    def __init__(self, rig: WebRig):
        self.rig = rig
        self.reader = None
        self.writer = None

    async def open(self):
        self.reader, self.writer = await asyncio.open_connection("127.0.0.1", self.rig.port)

    def close(self):
        if self.writer is not None:
            self.writer.close()
            self.writer = None

    def encode(self, method, target, headers=(), body=None, extra=()) -> bytes:
        buf = _io.BytesIO()
        buf.write(f"{method} {target} HTTP/1.1\r\nHost: 127.0.0.1:{self.rig.port}\r\n".encode("latin-1"))
        for k, v in list(headers) + list(extra):
            buf.write(f"{k}: {v}\r\n".encode("latin-1"))
        if body is not None:
            buf.write(f"Content-Length: {len(body)}\r\n".encode())
        buf.write(b"\r\n")
        if body:
            buf.write(body)
        return buf.getvalue()

    async def send(self, raw: bytes):
        self.writer.write(raw)
        await self.writer.drain()

    async def read_response(self, method: str, timeout=8.0) -> Resp:
        """Read exactly one response (framing by status / Content-Length / chunked).  Raises EOFError if the server closed."""
        try:
            head = await asyncio.wait_for(self.reader.readuntil(b"\r\n\r\n"), timeout)
        except asyncio.IncompleteReadError as e:
            raise EOFError("connection closed by the server") from e
        resp = parse_response(head)
        raw = head
        body = b""
        cl = resp.header_all("content-length")
        chunked = any("chunked" in v.lower() for v in resp.header_all("transfer-encoding"))
        if method == "HEAD" or resp.status in (204, 304) or resp.status < 200:
            pass
        elif chunked:
            while True:
                line = await asyncio.wait_for(self.reader.readuntil(b"\r\n"), timeout)
                raw += line
                n = int(line.split(b";")[0].strip() or b"0", 16)
                chunk = await asyncio.wait_for(self.reader.readexactly(n + 2), timeout)
                raw += chunk
                if n == 0:
                    break
                body += chunk[:-2]
        elif cl:
            body = await asyncio.wait_for(self.reader.readexactly(int(cl[0])), timeout)
            raw += body
        else:
            body = await asyncio.wait_for(self.reader.read(-1), timeout)
            raw += body
        resp.body = body
        resp.raw = raw
        return resp

    async def request(self, method, target, headers=(), body=None) -> Resp:
        await self.send(self.encode(method, target, headers, body))
        return await self.read_response(method)


async def ui_connect(rig: WebRig, headers, timeout=8.0):
    """Open an /updates websocket like the web UI does and keep it open. -> (reader, writer) or raises ConnectionError."""
    reader, writer = await asyncio.open_connection("127.0.0.1", rig.port)
    buf = f"GET /updates HTTP/1.1\r\nHost: 127.0.0.1:{rig.port}\r\nUpgrade: websocket\r\nConnection: Upgrade\r\nSec-WebSocket-Key: dGhlIHNhbXBsZSBub25jZQ==\r\nSec-WebSocket-Version: 13\r\n"
    for k, v in headers:
        buf += f"{k}: {v}\r\n"
    writer.write((buf + "\r\n").encode("latin-1"))
    await writer.drain()
    head = await asyncio.wait_for(reader.readuntil(b"\r\n\r\n"), timeout)
    if not head.startswith(b"HTTP/1.1 101"):
        writer.close()
        raise ConnectionError(f"websocket upgrade refused: {head[:40]!r}")
    return reader, writer


async def ui_disconnect(conn):
    """Close the UI websocket and make sure the server forgot it."""
    from mitmproxy.tools.web import app as webapp

    if conn is not None:
        conn[1].close()
    for _ in range(20):
        if not webapp.ClientConnection.connections:
            return
        await asyncio.sleep(0)
    for c in list(webapp.ClientConnection.connections):
        try:
            c.on_close()
        except Exception:
            pass
    webapp.ClientConnection.connections.clear()
