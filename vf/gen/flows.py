"""Shared random flow generator (C36, C37, C38; usable by C39-C41).

    gen_flow(rng, kind=None, size="normal", exotic_floats=True, zero_msg_ts=False) -> Flow
                                                        kind in KINDS (None = random), every serialised field randomised
    gen_flows(rng, n=None, kinds=None, size="normal", ...) -> list[Flow]
    features(flow) -> tuple[str, ...]                   coarse optional-field presence (for case signatures)

All randomness comes from the `rng` argument (a random.Random).  Every field that takes part in `get_state()` is drawn
from a value pool of its declared type: bytes include non-UTF-8 and file-format look-alikes, str includes multi-byte (ü, €), astral (😀), combining and
control characters in every text field of every flow type (never lone surrogates: they are not encodable), floats include negative/huge/tiny/inf/nan (nan and
inf only with `exotic_floats=True`, the default), optional fields are None about a third of the time, certificates come
from the PEM files shipped in the repository's test data, proxy modes from a list of valid mode specs.
`size`: "small" keeps bodies/lists short (files of 1-3 kB per flow), "normal" allows bodies up to ~20 kB.
"""
from __future__ import annotations

import glob
import os

from mitmproxy import certs
from mitmproxy import connection
from mitmproxy import dns
from mitmproxy import flow
from mitmproxy import http
from mitmproxy import tcp
from mitmproxy import udp
from mitmproxy import websocket
from mitmproxy.proxy.mode_specs import ProxyMode
from mitmproxy.test import tflow

KINDS = ("http", "websocket", "tcp", "udp", "dns")

_REPO = os.environ.get("VERIF_REPO", "/repo")

# ------------------------------------------------------------------------------------------- static pools

_PEMS: list[bytes] | None = None


def _pems() -> list[bytes]:
    global _PEMS
    if _PEMS is None:
        out = []
        pats = ["test/mitmproxy/data/*.pem", "test/mitmproxy/data/servercert/*.pem", "test/mitmproxy/data/clientcert/*.pem",
                "test/mitmproxy/data/confdir/mitmproxy-ca-cert.pem", "test/mitmproxy/net/data/*cert*", "test/mitmproxy/net/data/server.crt",
                "test/mitmproxy/net/data/verificationcerts/*.pem"]
        for pat in pats:
            for p in sorted(glob.glob(os.path.join(_REPO, pat))):
                if not os.path.isfile(p):
                    continue
                try:
                    raw = open(p, "rb").read()
                    certs.Cert.from_pem(raw)
                    out.append(raw)
                except Exception:
                    pass
        if not out:
            raise RuntimeError("no test certificates found under " + _REPO)
        _PEMS = out
    return _PEMS


_MODE_SPECS = [
    "regular", "transparent", "socks5", "dns", "wireguard", "local", "local:curl", "local:!curl,wget", "tun", "tun:tun7",
    "upstream:http://example.com:8080", "upstream:https://[::1]:3128", "upstream:proxy.example", "reverse:https://example.com",
    "reverse:http://127.0.0.1:8000/", "reverse:dns://1.1.1.1", "reverse:tcp://example.com:22", "reverse:tls://example.com:853",
    "reverse:udp://example.com:53", "reverse:dtls://example.com:5684", "reverse:quic://example.com:443", "reverse:http3://example.com",
    "regular@8081", "regular@127.0.0.1:9999", "socks5@[::1]:1080", "reverse:https://example.com@0.0.0.0:443", "wireguard:/tmp/wg.conf@51821",
    "REGULAR", "dns@5353", "transparent@[::]:8080",
]
_MODES: list[ProxyMode] | None = None


def _modes():
    global _MODES
    if _MODES is None:
        ms = []
        for s in _MODE_SPECS:
            try:
                ms.append(ProxyMode.parse(s))
            except Exception:
                pass
        _MODES = ms
    return _MODES


_TLS_VERSIONS = ["SSLv3", "TLSv1", "TLSv1.1", "TLSv1.2", "TLSv1.3", "DTLSv0.9", "DTLSv1", "DTLSv1.2", "QUICv1"]
_VIA_SCHEMES = ["http", "https", "http3", "tls", "dtls", "tcp", "udp", "dns", "quic"]
_OPCODES = [0, 1, 2, 8, 9, 10]

_STR_ATOMS = ["", "a", "example.com", "address", " ", "\n", "\r\n", "\x00", "\x7f", "\x85", "é", "ß", "日本語", "🍇", "\U0001f600", "\U0010ffff", "﻿",
              ":", ";", ",", "}", "]", "5:hello,", "~", "\\", "'", '"', "%s", "{", ":default:", ":grapes:", "request", "http", "0", "-1", "true", "None",
              "xn--bcher-kva.example", "A" * 40, "‮", "퟿", "",
              "ü", "€", "😀", "e\u0301", "bücher.example", "Ошибка: соединение сброшено", "naïve café", "\u200d"]
_BYTES_ATOMS = [b"", b"a", b"GET", b"HTTP/1.1", b"http/1.1", b"h2", b"/", b"/path?q=1", b"example.com:443", b"\x00", b"\xff", b"\xfe\xff", b"\xc3\x28", b"\xed\xa0\x80",
                b"\r\n", b"\n", b" ", b"5:hello,", b"0:~", b"4:true!", b"}", b"]", b":", b",", b";", b"12:", b"\xf0\x9f\x8d\x87", b"content-length", b"Host",
                b"{\"log\":{}}", b"\xef\xbb\xbf{", b"999999999999:", b"x" * 64]


# ------------------------------------------------------------------------------------------- leaf generators

def g_str(r, maxatoms=4) -> str:
    k = r.choice([0, 1, 1, 1, 2, 3, maxatoms])
    if r.random() < 0.15:
        return "".join(chr(r.choice([r.randrange(0x20, 0x7f), r.randrange(0, 0x20), r.randrange(0x80, 0xd800), r.randrange(0xe000, 0x110000)])) for _ in range(r.randint(0, 12)))
    return "".join(r.choice(_STR_ATOMS) for _ in range(k))


def g_bytes(r, big=0) -> bytes:
    x = r.random()
    if x < 0.55:
        return b"".join(r.choice(_BYTES_ATOMS) for _ in range(r.choice([0, 1, 1, 2, 3, 5])))
    if x < 0.9 or not big:
        return r.randbytes(r.choice([0, 1, 2, 3, 9, 10, 11, 99, 100, 101, 255, 256]) if big else r.choice([0, 1, 2, 3, 9, 10, 11, 30]))
    return r.randbytes(r.choice([999, 1000, 1001, 4095, 4096, 8191, 8192, 8193, 9999, 10000, big]))


class _F:
    exotic = True
    zero_ts = False


def g_float(r) -> float:
    x = r.random()
    if x < 0.6:
        return 946681200 + r.randrange(0, 10**9) / 1000.0
    if x < 0.7:
        return float(r.randrange(0, 2 * 10**9))
    pool = [0.1, 1e-9, 5e-324, 1.7976931348623157e308, -1.5, 1e22, 1e16, 123456789.123456789, 2.2250738585072014e-308, 1 / 3, -946681200.25, 1e-7, 4.35e17]
    if _F.exotic:
        pool += [float("inf"), float("-inf"), float("nan"), -0.0]
    return r.choice(pool)


def g_ofloat(r):
    return None if r.random() < 0.3 else g_float(r)


def g_int(r) -> int:
    x = r.random()
    if x < 0.7:
        return r.choice([0, 1, 22, 53, 80, 443, 8080, 65535, r.randrange(0, 65536)])
    return r.choice([-1, -(2**31), 2**31, 2**32, 2**63, 2**64 + 1, 10**30, -(10**18), 65536, 999999999999])


def g_port(r) -> int:
    return r.choice([0, 22, 53, 80, 443, 8080, 65535, r.randrange(0, 65536)])


def g_bool(r) -> bool:
    return r.random() < 0.5


def g_host(r) -> str:
    return r.choice(["127.0.0.1", "192.168.0.1", "::1", "fe80::1%eth0", "example.com", "address", "", "xn--bcher-kva.example", "bücher.example", "日本語.example", "a" * 63 + ".example", g_str(r, 2)])


def g_addr(r, four=True):
    if four and r.random() < 0.2:
        return (g_host(r), g_port(r), r.choice([0, 1, 2**20]), r.choice([0, 3]))
    return (g_host(r), g_port(r))


def g_opt(r, fn, p_none=0.3):
    return None if r.random() < p_none else fn(r)


def g_uuid(r) -> str:
    if r.random() < 0.1:
        return g_str(r)
    h = "%032x" % r.getrandbits(128)
    return f"{h[:8]}-{h[8:12]}-{h[12:16]}-{h[16:20]}-{h[20:]}"


def g_cert(r) -> certs.Cert:
    return certs.Cert.from_pem(r.choice(_pems()))


def g_certlist(r, small=False):
    n = r.choice([0, 0, 0, 1, 1, 2, 3]) if not small else r.choice([0, 0, 0, 0, 1])
    return [g_cert(r) for _ in range(n)]


def g_meta(r, depth=0):
    """Serialisable metadata value."""
    x = r.random()
    if depth >= 3 or x < 0.6:
        return r.choice([lambda: None, lambda: g_bool(r), lambda: g_int(r), lambda: g_float(r), lambda: g_bytes(r), lambda: g_str(r)])()
    if x < 0.8:
        return [g_meta(r, depth + 1) for _ in range(r.randint(0, 3))]
    if x < 0.85:
        return tuple(g_meta(r, depth + 1) for _ in range(r.randint(0, 3)))
    return g_metadict(r, depth + 1)


def g_metadict(r, depth=0) -> dict:
    d = {}
    for _ in range(r.choice([0, 0, 1, 2, 4])):
        k = r.choice(["k", "key2", "websocket", "duplicated", "", "é", g_str(r, 2)])
        if depth > 0 and r.random() < 0.1:
            k = r.choice([b"bytes-key", 7])
        d[k] = g_meta(r, depth)
    return d


# ------------------------------------------------------------------------------------------- composite generators

def _conn_common(r, c, small):
    c.id = g_uuid(r)
    c.transport_protocol = r.choice(["tcp", "udp"])
    c.error = g_opt(r, g_str, 0.6)
    c.tls = g_bool(r)
    c.certificate_list = g_certlist(r, small)
    c.alpn = g_opt(r, lambda r: r.choice([b"http/1.1", b"h2", b"h3", b"", g_bytes(r)]), 0.4)
    c.alpn_offers = [g_bytes(r) for _ in range(r.choice([0, 0, 1, 2, 3]))]
    c.cipher = g_opt(r, lambda r: r.choice(["TLS_AES_256_GCM_SHA384", "cipher", g_str(r)]), 0.4)
    c.cipher_list = [r.choice(["TLS_AES_128_GCM_SHA256", "ECDHE-RSA-AES128-SHA", g_str(r)]) for _ in range(r.choice([0, 0, 1, 2, 5]))]
    c.tls_version = g_opt(r, lambda r: r.choice(_TLS_VERSIONS), 0.3)
    c.sni = g_opt(r, lambda r: r.choice(["example.com", "address", "bücher.example", g_str(r)]), 0.3)
    c.timestamp_end = g_ofloat(r)
    c.timestamp_tls_setup = g_ofloat(r)


def gen_client(r, small=False) -> connection.Client:
    c = tflow.tclient_conn()
    _conn_common(r, c, small)
    c.peername = g_addr(r)
    c.sockname = g_addr(r)
    c.mitmcert = g_opt(r, g_cert, 0.6 if not small else 0.9)
    c.proxy_mode = r.choice(_modes())
    c.timestamp_start = g_float(r)
    return c


def gen_server(r, small=False) -> connection.Server:
    c = tflow.tserver_conn()
    _conn_common(r, c, small)
    c.address = g_opt(r, lambda r: g_addr(r, four=False), 0.2)
    c.peername = g_opt(r, g_addr, 0.3)
    c.sockname = g_opt(r, g_addr, 0.3)
    c.timestamp_start = g_ofloat(r)
    c.timestamp_tcp_setup = g_ofloat(r)
    c.via = g_opt(r, lambda r: (r.choice(_VIA_SCHEMES), (g_host(r), g_port(r))), 0.7)
    return c


def gen_error(r) -> flow.Error:
    return flow.Error(r.choice(["error", flow.Error.KILLED_MESSAGE, "Verbindung zurückgesetzt ✗", g_str(r)]), g_float(r))


def g_headers(r, small=False):
    n = r.choice([0, 1, 2, 3, 5, 12]) if not small else r.choice([0, 1, 2])
    return tuple((r.choice([b"content-type", b"Host", b"set-cookie", b"", g_bytes(r)]), g_bytes(r)) for _ in range(n))


def g_ts(r):
    """HTTP message timestamps are stored as given (int or float)."""
    return r.choice([946681200, 0, 1]) if r.random() < 0.15 else g_float(r)


def gen_request(r, small=False) -> http.Request:
    big = 0 if small else 20000
    return http.Request(
        host=g_host(r),
        port=g_int(r),
        method=r.choice([b"GET", b"POST", b"CONNECT", b"", g_bytes(r)]),
        scheme=r.choice([b"http", b"https", b"", g_bytes(r)]),
        authority=r.choice([b"", b"example.com:443", g_bytes(r)]),
        path=r.choice([b"/", b"*", b"/path?a=%ff", g_bytes(r)]),
        http_version=r.choice([b"HTTP/1.1", b"HTTP/2.0", b"HTTP/3", b"HTTP/1.0", g_bytes(r)]),
        headers=http.Headers(g_headers(r, small)),
        content=g_opt(r, lambda r: g_bytes(r, big), 0.2),
        trailers=g_opt(r, lambda r: http.Headers(g_headers(r, small)), 0.7),
        timestamp_start=g_ts(r),
        timestamp_end=g_opt(r, g_ts, 0.2),
    )


def gen_response(r, small=False) -> http.Response:
    big = 0 if small else 20000
    return http.Response(
        http_version=r.choice([b"HTTP/1.1", b"HTTP/2.0", g_bytes(r)]),
        status_code=r.choice([200, 101, 304, 404, 500, 0, 999, g_int(r)]),
        reason=r.choice([b"OK", b"", b"Switching Protocols", g_bytes(r)]),
        headers=http.Headers(g_headers(r, small)),
        content=g_opt(r, lambda r: g_bytes(r, big), 0.2),
        trailers=g_opt(r, lambda r: http.Headers(g_headers(r, small)), 0.7),
        timestamp_start=g_ts(r),
        timestamp_end=g_opt(r, g_ts, 0.2),
    )


def g_msg_ts(r) -> float:
    """Message timestamps.  The TCP/UDP/WebSocket message constructors replace a falsy timestamp by the current time, so
    0 / -0.0 can only be reached by attribute assignment; generated only when `_F.zero_ts` is set (gen_flow(zero_msg_ts=True))."""
    if _F.zero_ts and r.random() < 0.25:
        return r.choice([0.0, 0, -0.0])
    while True:
        t = g_float(r)
        if t:
            return t


def gen_websocket(r, small=False) -> websocket.WebSocketData:
    ws = websocket.WebSocketData()
    n = r.choice([0, 1, 2, 3, 8]) if not small else r.choice([0, 1, 2])
    ws.messages = [
        websocket.WebSocketMessage(r.choice(_OPCODES if r.random() < 0.2 else [1, 2]), g_bool(r), g_bytes(r, 0 if small else 5000), 1.0, g_bool(r), g_bool(r))
        for _ in range(n)
    ]
    for m in ws.messages:
        m.timestamp = g_msg_ts(r)  # assigned, not passed: the constructor replaces a falsy timestamp by time.time()
    ws.closed_by_client = r.choice([None, True, False])
    ws.close_code = g_opt(r, lambda r: r.choice([1000, 1001, 1006, 1011, 4999, g_int(r)]), 0.3)
    ws.close_reason = g_opt(r, g_str, 0.3)
    ws.timestamp_end = g_ofloat(r)
    return ws


def gen_dns_message(r, small=False) -> dns.DNSMessage:
    def q(r):
        return dns.Question(r.choice(["example.com", "", "dns.google", "bücher.example", g_str(r)]), r.choice([1, 28, 5, 16, 65, g_int(r)]), r.choice([1, 3, 255, g_int(r)]))

    def rr(r):
        return dns.ResourceRecord(
            r.choice(["example.com", "", g_str(r)]), r.choice([1, 28, 5, 16, 65, 12, g_int(r)]), r.choice([1, g_int(r)]), r.choice([0, 60, 2**31, g_int(r)]),
            r.choice([b"\x08\x08\x08\x08", b"\x00" * 16, b"\x07example\x03com\x00", b"\x03foo", g_bytes(r)]),
        )

    k = [0, 0, 1, 1, 2] if small else [0, 1, 1, 2, 4]
    return dns.DNSMessage(
        id=g_int(r), query=g_bool(r), op_code=r.choice([0, 1, 2, 5, g_int(r)]), authoritative_answer=g_bool(r), truncation=g_bool(r),
        recursion_desired=g_bool(r), recursion_available=g_bool(r), reserved=r.choice([0, 0, 7, g_int(r)]), response_code=r.choice([0, 2, 3, 5, g_int(r)]),
        questions=[q(r) for _ in range(r.choice(k))], answers=[rr(r) for _ in range(r.choice(k))], authorities=[rr(r) for _ in range(r.choice(k[:3]))],
        additionals=[rr(r) for _ in range(r.choice(k[:3]))], timestamp=g_ofloat(r),
    )


def _flow_common(r, f: flow.Flow):
    f.id = g_uuid(r)
    f.error = g_opt(r, gen_error, 0.6)
    f.intercepted = g_bool(r)
    f.is_replay = r.choice([None, None, "request", "response"])
    f.marked = r.choice(["", "", ":default:", ":grapes:", "🍇", g_str(r)])
    f.metadata = g_metadict(r) if r.random() < 0.6 else {}
    f.comment = r.choice(["", "", "a comment", "prüfen 😀", g_str(r, 8)])
    f.timestamp_created = g_float(r)
    f.live = g_bool(r)


def gen_flow(rng, kind: str | None = None, size: str = "normal", exotic_floats: bool = True, zero_msg_ts: bool = False) -> flow.Flow:
    """Return a random flow of the given kind ("http", "websocket", "tcp", "udp", "dns"; None = random)."""
    r = rng
    _F.exotic = exotic_floats
    _F.zero_ts = zero_msg_ts
    small = size == "small"
    if kind is None:
        kind = r.choice(KINDS)
    cc, sc = gen_client(r, small), gen_server(r, small)
    f: flow.Flow
    if kind in ("http", "websocket"):
        f = http.HTTPFlow(cc, sc)
        f.request = gen_request(r, small)
        f.response = gen_response(r, small) if (kind == "websocket" or r.random() < 0.7) else None
        f.websocket = gen_websocket(r, small) if kind == "websocket" else None
    elif kind in ("tcp", "udp"):
        mcls, fcls = (tcp.TCPMessage, tcp.TCPFlow) if kind == "tcp" else (udp.UDPMessage, udp.UDPFlow)
        f = fcls(cc, sc)
        n = r.choice([0, 1, 2, 3, 10]) if not small else r.choice([0, 1, 2])
        f.messages = [mcls(g_bool(r), g_bytes(r, 0 if small else 8000), 1.0) for _ in range(n)]
        for m in f.messages:
            m.timestamp = g_msg_ts(r)  # assigned, not passed: the constructor replaces a falsy timestamp by time.time()
    elif kind == "dns":
        f = dns.DNSFlow(cc, sc)
        f.request = gen_dns_message(r, small)
        f.response = gen_dns_message(r, small) if r.random() < 0.6 else None
    else:
        raise ValueError(kind)
    _flow_common(r, f)
    if r.random() < 0.2:
        # a user edit: backup() through the public API, then change something so that the backup differs
        f.backup()
        f.comment = f.comment + "edited"
        f.marked = r.choice(["", ":default:"])
        if r.random() < 0.5:
            f.error = g_opt(r, gen_error, 0.5)
        if kind in ("http", "websocket") and r.random() < 0.7:
            f.request.content = g_bytes(r)  # type: ignore
        if kind in ("tcp", "udp") and f.messages and r.random() < 0.7:  # type: ignore
            f.messages[0].content = g_bytes(r)  # type: ignore
    return f


def gen_flows(rng, n: int | None = None, kinds=None, size: str = "normal", exotic_floats: bool = True, zero_msg_ts: bool = False) -> list[flow.Flow]:
    if n is None:
        n = rng.choice([1, 1, 2, 3, 5, 8, 20])
    return [gen_flow(rng, rng.choice(kinds) if kinds else None, size, exotic_floats, zero_msg_ts) for _ in range(n)]


def kind_of(f: flow.Flow) -> str:
    if isinstance(f, http.HTTPFlow):
        return "websocket" if f.websocket is not None else "http"
    return f.type


def features(f: flow.Flow) -> tuple:
    """Coarse optional-field presence of a flow (not its values)."""
    ft = [kind_of(f)]
    if f.error:
        ft.append("err")
    if f._backup:
        ft.append("backup")
    if f.metadata:
        ft.append("meta")
    if f.marked:
        ft.append("marked")
    if f.is_replay:
        ft.append("replay")
    if f.client_conn.certificate_list or f.server_conn.certificate_list or f.client_conn.mitmcert:
        ft.append("certs")
    if f.server_conn.via:
        ft.append("via")
    if f.server_conn.address is None:
        ft.append("noaddr")
    if len(f.client_conn.peername) == 4:
        ft.append("addr4")
    if isinstance(f, http.HTTPFlow):
        if f.response is None:
            ft.append("noresp")
        if f.request.content is None or (f.response and f.response.content is None):
            ft.append("nocontent")
        if f.request.trailers is not None or (f.response and f.response.trailers is not None):
            ft.append("trailers")
    elif isinstance(f, dns.DNSFlow):
        if f.response is None:
            ft.append("noresp")
    else:
        if not f.messages:  # type: ignore
            ft.append("nomsg")
    return tuple(ft)


# ------------------------------------------------------------------------------------------- attribute snapshot

_SNAP_EXCLUDE = {"live", "_resume_event", "state"}  # not serialised by design: liveness, resume event, socket state


def attr_snapshot(o, _depth=0):
    """Deep snapshot of an object's *attributes* (vars / dataclass fields), independent of get_state()/set_state().

    Used as a second oracle for persistence round trips: snapshot(original) == snapshot(loaded).  Tuples become lists,
    certificates their PEM, proxy modes their spec, enums their value, Headers their field list; `live`, the resume event
    and the connection `state` are excluded (mitmproxy documents them as not persisted)."""
    import enum

    if o is None or isinstance(o, (bool, int, float, str, bytes)):
        return o
    if _depth > 12:
        return repr(o)
    if isinstance(o, enum.Enum):
        return o.value
    if isinstance(o, (list, tuple)):
        return [attr_snapshot(x, _depth + 1) for x in o]
    if isinstance(o, dict):
        return {k: attr_snapshot(v, _depth + 1) for k, v in o.items()}
    if isinstance(o, certs.Cert):
        return {"__cert__": o.to_pem()}
    if isinstance(o, ProxyMode):
        return {"__mode__": o.full_spec}
    if isinstance(o, http.Headers):
        return {"__headers__": [list(x) for x in o.fields]}
    if hasattr(o, "__dict__"):
        return {"__class__": type(o).__name__, **{k: attr_snapshot(v, _depth + 1) for k, v in vars(o).items() if k not in _SNAP_EXCLUDE}}
    return repr(o)
