import sys
from vf.core import run_worker

if __name__ == "__main__":
    a = sys.argv[1:]
    run_worker(a[0], a[1], int(a[2]), int(a[3]), int(a[4]), a[5], int(a[6]) if len(a) > 6 else None)
