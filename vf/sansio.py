"""Engine A: drive real mitmproxy proxy layers sans-io under a schedule explorer.

The Driver interprets the commands a real top layer yields the way
mitmproxy.proxy.server.ConnectionHandler.server_event / handle_connection / open_connection do
(connection state transitions, one ConnectionClosed per connection, hook completion, teardown after
the client is gone), but every source of nondeterminism is a *pending action* picked by a seeded
scheduler:  next segment of a peer's byte stream, peer EOF, completion of a hook / OpenConnection /
wakeup, delivery of ConnectionClosed after a close command, and check-specific injected actions.

Observation points (monitors attach here, nothing is patched inside mitmproxy):
  * driver.out[conn]           bytes sent to each connection (the wire boundary), with step stamps
  * driver.hooks               ordered log of (step, hook name, hook object, snapshot)
  * driver.log                 every command/event in order
  * m3 callbacks               run after every step on the live layer graph
"""
from __future__ import annotations

import collections
import time as _time
import traceback

from mitmproxy import connection as mconn
from mitmproxy.connection import ConnectionState
from mitmproxy.proxy import commands, events, layer as mlayer
from mitmproxy.proxy.context import Context
from mitmproxy.proxy import mode_specs

from vf.core import exc_site

EOF = object()


class Peer:
    """A scripted or reactive remote endpoint attached to one connection."""

    def __init__(self):
        self.driver = None
        self.conn = None
        self.received = bytearray()
        self.got_eof = False
        self.closed_by_proxy = False

    def attach(self, driver, conn):
        self.driver = driver
        self.conn = conn
        self.on_open()

    # -- to override
    def on_open(self):
        pass

    def on_data(self, data: bytes):
        pass

    def on_eof(self):
        """proxy half-closed or closed its side"""

    # -- helpers
    def send(self, data: bytes, gate=None):
        if data:
            self.driver.inbox[self.conn].append((data, gate))

    def close(self, gate=None):
        self.driver.inbox[self.conn].append((EOF, gate))


class ScriptPeer(Peer):
    """Sends a fixed list of segments (bytes or EOF); optional gates (callables(driver)->bool)."""

    def __init__(self, segments):
        super().__init__()
        self.segments = list(segments)

    def on_open(self):
        for s in self.segments:
            gate = None
            if isinstance(s, tuple):
                s, gate = s
            if s is EOF:
                self.close(gate)
            else:
                self.send(s, gate)


class Pending:
    __slots__ = ("kind", "cmd", "reply", "held", "ran_addons", "born", "conn")

    def __init__(self, kind, cmd=None, reply=None, conn=None, born=0):
        self.kind = kind  # hook | open | wakeup | closed
        self.cmd = cmd
        self.reply = reply
        self.held = False  # intercepted: not enabled until released
        self.ran_addons = False
        self.born = born
        self.conn = conn

    def __repr__(self):
        return f"Pending({self.kind}, {getattr(self.cmd, 'name', type(self.cmd).__name__)})"


def make_client(mode="regular", peername=("192.0.2.10", 51234), sockname=("192.0.2.1", 8080), transport="tcp", **kw):
    return mconn.Client(
        peername=peername,
        sockname=sockname,
        timestamp_start=1.0,
        state=ConnectionState.OPEN,
        proxy_mode=mode_specs.ProxyMode.parse(mode),
        transport_protocol=transport,
        **kw,
    )


_TCTX = {}


def addon_context(*addon_factories, key=None):
    """One taddons.context (Master + options + real addons) per process and key."""
    from mitmproxy.test import taddons
    from mitmproxy.addons.proxyserver import Proxyserver
    from mitmproxy.addons.next_layer import NextLayer

    key = key or tuple(f.__name__ for f in addon_factories)
    if key not in _TCTX:
        addons = [Proxyserver(), NextLayer()] + [f() for f in addon_factories]
        tctx = taddons.context(*addons)
        _TCTX[key] = (tctx, addons)
    return _TCTX[key]


class Driver:
    def __init__(
        self,
        top_factory,
        *,
        client,
        options,
        rng,
        addons=(),
        policy=None,
        server_factory=None,
        open_plan=None,
        schedule="random",
        max_steps=3000,
        m3=(),
        snapshot=None,
        complete_bias=0.5,
    ):
        self.rng = rng
        self.client = client
        self.options = options
        self.context = Context(client, options)
        self.top = top_factory(self.context)
        self.addons = list(addons)
        self.policy = policy  # callable(driver, hook) -> None | "hold" | "delay"
        self.server_factory = server_factory  # callable(driver, server_conn) -> Peer | None
        self.open_plan = open_plan  # callable(driver, server_conn, n) -> None (ok) | str (error)
        self.schedule = schedule
        self.max_steps = max_steps
        self.m3 = list(m3)
        self.snapshot = snapshot
        self.complete_bias = complete_bias

        self.transports: dict = {client: "client"}
        self.inbox = collections.defaultdict(collections.deque)
        self.peers: dict = {}
        self.out = collections.defaultdict(bytearray)
        self.out_log: list = []  # (step, conn, data)
        self.pending: list[Pending] = []
        self.injected: list = []  # (name, callable(driver) -> event or None, gate)
        self.hooks: list = []
        self.log: list = []
        self.exceptions: list = []
        self.anomalies: list = []
        self.states: set = set()
        self.step_no = 0
        self.opens = 0
        self.closed_delivered: set = set()
        self.client_gone = False
        self.torn_down = False
        self.budget_exceeded = False
        self.servers: list = []

    # ------------------------------------------------------------------ feeding
    def feed(self, ev):
        self.log.append(("ev", self.step_no, _evname(ev)))
        try:
            for cmd in self.top.handle_event(ev):
                self._command(cmd)
        except Exception as e:  # the real server logs "mitmproxy has crashed!" and carries on
            self.exceptions.append((type(e).__name__, exc_site(e), self.step_no, traceback.format_exc()[-1200:]))
        for f in self.m3:
            f(self)

    def _command(self, cmd):
        self.log.append(("cmd", self.step_no, _cmdname(cmd)))
        if isinstance(cmd, commands.OpenConnection):
            if cmd.connection in self.transports:
                self.anomalies.append(("open-on-existing-transport", repr(cmd.connection)))
            self.transports[cmd.connection] = "opening"
            self.pending.append(Pending("open", cmd, conn=cmd.connection, born=self.step_no))
        elif isinstance(cmd, commands.RequestWakeup):
            self.pending.append(Pending("wakeup", cmd, born=self.step_no))
        elif isinstance(cmd, commands.ConnectionCommand) and cmd.connection not in self.transports:
            pass  # already closed
        elif isinstance(cmd, commands.SendData):
            conn = cmd.connection
            if self.transports.get(conn) == "opening":
                self.anomalies.append(("send-before-open", repr(conn)))
                return
            if not (conn.state & ConnectionState.CAN_WRITE):
                self.anomalies.append(("write-after-eof", repr(conn)))
                return
            self.out[conn] += cmd.data
            self.out_log.append((self.step_no, conn, cmd.data))
            p = self.peers.get(conn)
            if p is not None:
                p.received += cmd.data
                p.on_data(cmd.data)
        elif isinstance(cmd, commands.CloseTcpConnection):
            self._close(cmd.connection, cmd.half_close)
        elif isinstance(cmd, commands.CloseConnection):
            self._close(cmd.connection, False)
        elif isinstance(cmd, commands.StartHook):
            self.pending.append(Pending("hook", cmd, born=self.step_no))
        elif isinstance(cmd, commands.Log):
            pass
        else:
            self.anomalies.append(("unexpected-command", repr(cmd)[:200]))

    def _close(self, conn, half):
        if self.transports.get(conn) == "opening":
            # open_connection task is cancelled -> completes with an error
            conn.state = ConnectionState.CLOSED
            for p in self.pending:
                if p.kind == "open" and p.conn is conn:
                    p.reply = "connection cancelled"
            return
        if half:
            if not conn.state & ConnectionState.CAN_WRITE:
                return
            conn.state &= ~ConnectionState.CAN_WRITE
        else:
            conn.state = ConnectionState.CLOSED
        p = self.peers.get(conn)
        if p is not None and not p.got_eof:
            p.got_eof = True
            p.closed_by_proxy = not half
            p.on_eof()
        if conn.state is ConnectionState.CLOSED:
            self.inbox[conn].clear()
            if conn in self.closed_delivered:
                self.transports.pop(conn, None)
            else:
                self.pending.append(Pending("closed", None, conn=conn, born=self.step_no))

    # ------------------------------------------------------------------ scheduling
    def enabled(self):
        acts = []
        for conn, q in self.inbox.items():
            if not q or conn not in self.transports or self.transports[conn] == "opening":
                continue
            if conn in self.closed_delivered:
                continue
            seg, gate = q[0]
            if gate is not None and not gate(self):
                continue
            acts.append(("recv", conn))
        for p in self.pending:
            if not p.held:
                acts.append(("complete", p))
        for item in self.injected:
            name, fn, gate = item
            if gate is None or gate(self):
                acts.append(("inject", item))
        return acts

    def step(self):
        acts = self.enabled()
        if not acts:
            return False
        if self.step_no >= self.max_steps:
            self.budget_exceeded = True
            return False
        self.step_no += 1
        if self.schedule == "fifo":
            comp = [a for a in acts if a[0] == "complete"]
            act = comp[0] if comp else acts[0]
        else:
            comp = [a for a in acts if a[0] == "complete"]
            rest = [a for a in acts if a[0] != "complete"]
            if comp and rest:
                act = self.rng.choice(comp) if self.rng.random() < self.complete_bias else self.rng.choice(rest)
            else:
                act = self.rng.choice(acts)
        self._perform(act)
        self.states.add(self.signature())
        return True

    def _perform(self, act):
        kind = act[0]
        if kind == "recv":
            conn = act[1]
            seg, _ = self.inbox[conn].popleft()
            if seg is EOF:
                self._peer_eof(conn)
            else:
                self.feed(events.DataReceived(conn, seg))
        elif kind == "complete":
            self._complete(act[1])
        elif kind == "inject":
            item = act[1]
            self.injected.remove(item)
            ev = item[1](self)
            if ev is not None:
                self.feed(ev)

    def _peer_eof(self, conn):
        if conn.transport_protocol == "tcp":
            conn.state &= ~ConnectionState.CAN_READ
        else:
            conn.state = ConnectionState.CLOSED
        self.closed_delivered.add(conn)
        self.feed(events.ConnectionClosed(conn))
        if conn.state is ConnectionState.CLOSED:
            self.transports.pop(conn, None)
            if conn is self.client:
                self.client_gone = True
        elif conn is self.client and self.client not in self.transports:
            self.client_gone = True

    def run_addons(self, hook):
        for a in self.addons:
            fn = getattr(a, hook.name, None)
            if fn is not None:
                fn(*hook.args())

    def _complete(self, p: Pending):
        if p.kind == "hook":
            if not p.ran_addons:
                p.ran_addons = True
                snap_before = None
                try:
                    self.run_addons(p.cmd)
                    verdict = self.policy(self, p.cmd) if self.policy else None
                except Exception as e:
                    self.exceptions.append(("addon:" + type(e).__name__, exc_site(e), self.step_no, traceback.format_exc()[-1200:]))
                    verdict = None
                snap = self.snapshot(p.cmd) if self.snapshot else None
                self.hooks.append((self.step_no, p.cmd.name, p.cmd, snap))
                if verdict == "hold":
                    p.held = True
                    return
                if verdict == "delay":
                    return  # completion is a separate, later action
            self.pending.remove(p)
            self.feed(events.HookCompleted(p.cmd))
        elif p.kind == "open":
            self.pending.remove(p)
            conn = p.conn
            err = p.reply
            if err is None and not conn.address:
                err = "Cannot open connection, no hostname given."
            if err is None and self.open_plan:
                err = self.open_plan(self, conn, self.opens)
            self.opens += 1
            if err is None:
                conn.timestamp_start = 2.0
                conn.timestamp_tcp_setup = 2.1
                conn.state = ConnectionState.OPEN
                conn.peername = (conn.address[0], conn.address[1])
                conn.sockname = ("192.0.2.1", 40000 + self.opens)
                self.transports[conn] = "server"
                self.servers.append(conn)
                peer = self.server_factory(self, conn) if self.server_factory else None
                if peer is not None:
                    self.peers[conn] = peer
                    peer.attach(self, conn)
                self.feed(events.OpenConnectionCompleted(p.cmd, None))
            else:
                conn.error = err
                self.transports.pop(conn, None)
                self.feed(events.OpenConnectionCompleted(p.cmd, err))
        elif p.kind == "wakeup":
            self.pending.remove(p)
            self.feed(events.Wakeup(p.cmd))
        elif p.kind == "closed":
            self.pending.remove(p)
            conn = p.conn
            if conn not in self.closed_delivered:
                self.closed_delivered.add(conn)
                self.feed(events.ConnectionClosed(conn))
            self.transports.pop(conn, None)
            if conn is self.client:
                self.client_gone = True

    def release(self, p: Pending):
        p.held = False

    def held(self):
        return [p for p in self.pending if p.held]

    # ------------------------------------------------------------------ running
    def attach_client_peer(self, peer):
        self.peers[self.client] = peer
        peer.attach(self, self.client)

    def start(self):
        self.feed(events.Start())

    def run(self):
        while self.step():
            pass

    def teardown(self):
        """What handle_client does once the client handler has finished: cancel every other transport."""
        if self.torn_down:
            return
        self.torn_down = True
        if self.client in self.transports:
            # ensure the client is closed (peer EOF) first
            self.inbox[self.client].clear()
            if self.client not in self.closed_delivered:
                self._peer_eof(self.client)
            self.run()
            if self.client in self.transports:
                self.client.state = ConnectionState.CLOSED
                self.transports.pop(self.client, None)
        for conn in list(self.transports):
            state = self.transports[conn]
            if state == "opening":
                for p in self.pending:
                    if p.kind == "open" and p.conn is conn:
                        p.reply = "connection cancelled"
            else:
                conn.state = ConnectionState.CLOSED
                self.inbox[conn].clear()
                if conn not in self.closed_delivered and not any(p.kind == "closed" and p.conn is conn for p in self.pending):
                    self.pending.append(Pending("closed", None, conn=conn, born=self.step_no))
                elif conn in self.closed_delivered:
                    self.transports.pop(conn, None)
        for p in self.pending:
            p.held = p.held  # held hooks stay held: an intercepted flow outlives the connection
        self.run()

    # ------------------------------------------------------------------ observation
    def signature(self):
        parts = []
        for l in self.context.layers[:6]:
            parts.append(repr(l)[:60])
        parts.append(f"p={sorted(p.kind for p in self.pending)}")
        parts.append("t=" + ",".join(sorted(str(int(c.state.value)) for c in self.transports if hasattr(c, "state"))))
        return "|".join(parts)

    def hook_names(self):
        return [h[1] for h in self.hooks]


def _evname(ev):
    n = type(ev).__name__
    if isinstance(ev, events.DataReceived):
        return f"{n}({type(ev.connection).__name__},{len(ev.data)})"
    if isinstance(ev, events.ConnectionEvent):
        return f"{n}({type(ev.connection).__name__})"
    if isinstance(ev, events.CommandCompleted):
        return f"{n}({getattr(ev.command, 'name', type(ev.command).__name__)})"
    return n


def _cmdname(cmd):
    n = type(cmd).__name__
    if isinstance(cmd, commands.SendData):
        return f"{n}({type(cmd.connection).__name__},{len(cmd.data)})"
    if isinstance(cmd, commands.StartHook):
        return f"Hook({cmd.name})"
    if isinstance(cmd, commands.ConnectionCommand):
        return f"{n}({type(cmd.connection).__name__})"
    return n


def http_snapshot(hook):
    """Snapshot of an HTTPFlow at hook time (what 'mitmproxy recorded')."""
    f = getattr(hook, "flow", None)
    if f is None or not hasattr(f, "request"):
        return None
    return snap_flow(f)


def snap_msg(m):
    if m is None:
        return None
    d = {
        "http_version": m.http_version,
        "headers": tuple(m.headers.fields),
        "content": m.raw_content,
        "trailers": tuple(m.trailers.fields) if m.trailers else None,
    }
    d["stream"] = bool(m.stream)
    if hasattr(m, "method"):
        d.update(method=m.method, scheme=m.scheme, authority=m.authority, path=m.path, host=m.host, port=m.port)
    else:
        d.update(status_code=m.status_code, reason=m.reason)
    return d


def snap_flow(f):
    return {
        "id": f.id,
        "request": snap_msg(f.request),
        "response": snap_msg(f.response),
        "error": f.error.msg if f.error else None,
        "live": f.live,
        "websocket": f.websocket is not None,
    }
