"""Small in-memory HTTP/2 client peer for engine A (used by C12, usable by C07): the h2 library (mature, independent of
mitmproxy's layer code) builds the client's frames and re-reads everything the proxy writes to the client connection.

Usage:
    client = sansio.make_client(mode); client.alpn = b"h2"
    peer = H2ClientPeer([H2Request(headers=[(b":method", b"GET"), ...], body=b"", chunk=16384), ...])
    driver.attach_client_peer(peer)
After the run: peer.streams[stream_id] = {"headers": [(name, value)], "data": bytes, "ended": bool, "reset": code|None},
peer.protocol_errors (h2 refused what the proxy sent), peer.terminated (GOAWAY: (error_code, additional_data)).
"""
from __future__ import annotations

import h2.config
import h2.connection
import h2.events
import h2.exceptions
import h2.settings

from vf.sansio import Peer


class H2Request:
    def __init__(self, headers, body=b"", chunk=16384, end_stream=True):
        self.headers = list(headers)
        self.body = body
        self.chunk = chunk
        self.end_stream = end_stream


class H2ClientPeer(Peer):
    def __init__(self, requests, cut=None, initial_window=None, grant=None, validate_inbound=True):
        """initial_window: SETTINGS_INITIAL_WINDOW_SIZE announced to the proxy (tiny values create send back-pressure in the proxy).
        grant: callable(owed:int) -> list of positive increments summing to <= owed; every increment becomes its own WINDOW_UPDATE
        frame in its own segment (a slow reader that opens its stream window a few bytes at a time). None = acknowledge at once."""
        super().__init__()
        self.requests = list(requests)
        self.cut = cut  # callable(bytes) -> list of segments, or None (one segment per flush)
        self.initial_window = initial_window
        self.grant = grant
        self.owed = {}
        self.window_updates = 0
        self.h2 = h2.connection.H2Connection(
            config=h2.config.H2Configuration(
                client_side=True,
                header_encoding=False,
                validate_outbound_headers=False,
                normalize_outbound_headers=False,
                validate_inbound_headers=validate_inbound,
            )
        )
        self.streams = {}
        self.stream_ids = []
        self.protocol_errors = []
        self.terminated = None
        self.pending_body = {}  # stream id -> remaining bytes blocked by flow control

    # -- Peer API
    def on_open(self):
        self.h2.initiate_connection()
        if self.initial_window is not None:
            self.h2.update_settings({h2.settings.SettingCodes.INITIAL_WINDOW_SIZE: self.initial_window})
        for rq in self.requests:
            sid = self.h2.get_next_available_stream_id()
            self.stream_ids.append(sid)
            self.streams[sid] = {"headers": None, "data": b"", "ended": False, "reset": None, "informational": []}
            has_body = bool(rq.body)
            self.h2.send_headers(sid, rq.headers, end_stream=rq.end_stream and not has_body)
            if has_body:
                self.pending_body[sid] = (rq.body, rq.chunk, rq.end_stream)
        self._pump_bodies()
        self._flush()

    def on_data(self, data: bytes):
        try:
            events = self.h2.receive_data(data)
        except h2.exceptions.ProtocolError as e:
            self.protocol_errors.append(repr(e))
            self._flush()
            return
        for ev in events:
            if isinstance(ev, h2.events.ResponseReceived):
                self.streams[ev.stream_id]["headers"] = [(bytes(n), bytes(v)) for n, v in ev.headers]
            elif isinstance(ev, h2.events.InformationalResponseReceived):
                self.streams[ev.stream_id]["informational"].append([(bytes(n), bytes(v)) for n, v in ev.headers])
            elif isinstance(ev, h2.events.DataReceived):
                self.streams[ev.stream_id]["data"] += ev.data
                if self.grant is None:
                    self.h2.acknowledge_received_data(ev.flow_controlled_length, ev.stream_id)
                else:
                    _slow_grant(self, ev.stream_id, ev.flow_controlled_length)
            elif isinstance(ev, h2.events.StreamEnded):
                self.streams[ev.stream_id]["ended"] = True
            elif isinstance(ev, h2.events.StreamReset):
                if ev.stream_id in self.streams:
                    self.streams[ev.stream_id]["reset"] = int(ev.error_code)
            elif isinstance(ev, h2.events.ConnectionTerminated):
                self.terminated = (int(ev.error_code), bytes(ev.additional_data or b""))
            elif isinstance(ev, h2.events.WindowUpdated):
                pass
        self._pump_bodies()
        self._flush()

    # -- helpers
    def _pump_bodies(self):
        for sid in list(self.pending_body):
            body, chunk, end = self.pending_body[sid]
            try:
                while body:
                    win = min(self.h2.local_flow_control_window(sid), self.h2.max_outbound_frame_size, chunk)
                    if win <= 0:
                        break
                    piece, body = body[:win], body[win:]
                    self.h2.send_data(sid, piece, end_stream=end and not body)
            except h2.exceptions.ProtocolError:
                body = b""  # stream was reset / closed by the proxy
            if body:
                self.pending_body[sid] = (body, chunk, end)
            else:
                del self.pending_body[sid]

    def _flush(self):
        out = self.h2.data_to_send()
        if not out or self.got_eof:
            return
        for seg in (self.cut(out) if self.cut else [out]):
            self.send(seg)


def _slow_grant(peer, stream_id, n):
    """Re-open the connection window at once and the stream window in the increments chosen by peer.grant, one WINDOW_UPDATE
    frame per segment (so the scheduler can interleave them with data arriving at the proxy from the other side)."""
    if n <= 0:
        return
    peer._flush()
    try:
        peer.h2.increment_flow_control_window(n)
    except h2.exceptions.ProtocolError:
        return
    peer._flush()
    owed = peer.owed.get(stream_id, 0) + n
    for inc in peer.grant(owed):
        if inc <= 0 or inc > owed:
            break
        try:
            peer.h2.increment_flow_control_window(inc, stream_id=stream_id)
        except h2.exceptions.ProtocolError:  # stream already closed
            owed = 0
            break
        owed -= inc
        peer.window_updates += 1
        out = peer.h2.data_to_send()
        if out and not peer.got_eof:
            peer.send(out)
    peer.owed[stream_id] = owed


class H2ServerPeer(Peer):
    """In-memory HTTP/2 origin (h2 library, server side).  Set conn.alpn = b"h2" in the server_factory before returning it.
    responder(stream_id, headers, body) -> (response_headers, response_body) is called when a request stream has ended.
    After the run: peer.streams[sid] = {"headers", "data", "ended", "reset"}."""

    def __init__(self, responder, initial_window=None, grant=None):
        super().__init__()
        self.responder = responder
        self.initial_window = initial_window
        self.grant = grant
        self.owed = {}
        self.window_updates = 0
        self.h2 = h2.connection.H2Connection(
            config=h2.config.H2Configuration(
                client_side=False,
                header_encoding=False,
                validate_outbound_headers=False,
                normalize_outbound_headers=False,
                validate_inbound_headers=False,
            )
        )
        self.streams = {}
        self.protocol_errors = []
        self.send_errors = []
        self.terminated = None

    def on_open(self):
        self.h2.initiate_connection()
        if self.initial_window is not None:
            self.h2.update_settings({h2.settings.SettingCodes.INITIAL_WINDOW_SIZE: self.initial_window})
        self._flush()

    def on_data(self, data: bytes):
        try:
            events = self.h2.receive_data(data)
        except h2.exceptions.ProtocolError as e:
            self.protocol_errors.append(repr(e))
            self._flush()
            return
        for ev in events:
            if isinstance(ev, h2.events.RequestReceived):
                self.streams[ev.stream_id] = {"headers": [(bytes(n), bytes(v)) for n, v in ev.headers], "data": b"", "ended": False, "reset": None}
            elif isinstance(ev, h2.events.DataReceived):
                self.streams[ev.stream_id]["data"] += ev.data
                if self.grant is None:
                    self.h2.acknowledge_received_data(ev.flow_controlled_length, ev.stream_id)
                else:
                    _slow_grant(self, ev.stream_id, ev.flow_controlled_length)
            elif isinstance(ev, h2.events.StreamEnded):
                st = self.streams[ev.stream_id]
                st["ended"] = True
                ans = self.responder(ev.stream_id, st["headers"], st["data"])
                if ans is not None:
                    hdrs, body = ans
                    try:
                        self.h2.send_headers(ev.stream_id, hdrs, end_stream=not body)
                        if body:
                            self.h2.send_data(ev.stream_id, body, end_stream=True)
                    except h2.exceptions.ProtocolError as e:
                        self.send_errors.append(repr(e))  # our own answer could not be sent (stream/connection already closed)
            elif isinstance(ev, h2.events.StreamReset):
                if ev.stream_id in self.streams:
                    self.streams[ev.stream_id]["reset"] = int(ev.error_code)
            elif isinstance(ev, h2.events.ConnectionTerminated):
                self.terminated = (int(ev.error_code), bytes(ev.additional_data or b""))
        self._flush()

    def _flush(self):
        out = self.h2.data_to_send()
        if out and not self.got_eof:
            self.send(out)
