"""Shared engine-B harness for C09/C10: the REAL mitmproxy.proxy.mode_servers.ProxyConnectionHandler (hence the real
handle_hook with TimeoutWatchdog.disarm and wait_for_resume) with a fake master whose addon manager records hooks,
optionally delays them and applies scripted kills; a scripted probe layer; in-memory sockets with a fault plan."""
import asyncio
import collections

from mitmproxy import options as moptions
from mitmproxy.connection import ConnectionState
from mitmproxy.proxy import commands, events, layer, mode_specs, server, server_hooks, mode_servers

from vf import vloop


class NBOpen(commands.OpenConnection):
    blocking = False


from dataclasses import dataclass  # noqa: E402

from mitmproxy import flow as mflow  # noqa: E402


@dataclass
class ProbeHook(commands.StartHook):
    """A layer-level hook carrying a real Flow (so ProxyConnectionHandler.handle_hook awaits wait_for_resume)."""

    name = "probe"
    flow: mflow.Flow


class ProbeLayer(layer.Layer):
    """Issues the scripted attempts and reacts to events according to the plan."""

    def __init__(self, context, plan, rng):
        super().__init__(context)
        self.plan = plan
        self.rng = rng
        self.conns = []
        self.by_cmd = {}

    def _open(self, k):
        from mitmproxy.connection import Server

        addr = self.plan["attempts"][k]["addr"]
        s = Server(address=addr, sockname=("192.0.2.1", 20000 + k))  # local_addr identifies the attempt in the fake dialer
        self.conns.append(s)
        cmd = NBOpen(s)
        self.by_cmd[cmd] = k
        self.plan["attempts"][k]["conn"] = s
        return cmd

    def _handle_event(self, event):
        p = self.plan
        if isinstance(event, events.Start):
            for k, a in enumerate(p["attempts"]):
                if a["at"] == 0:
                    yield self._open(k)
                else:
                    w = commands.RequestWakeup(a["at"])
                    self.by_cmd[w] = ("wake", k)
                    yield w
        elif isinstance(event, events.Wakeup):
            k = self.by_cmd.get(event.command)
            if k and not p.get("client_closing"):
                yield self._open(k[1])
        elif isinstance(event, events.OpenConnectionCompleted):
            k = self.by_cmd.get(event.command)
            a = p["attempts"][k]
            a["result"] = event.reply
            if event.reply is None and a["send_on_open"]:
                yield commands.SendData(a["conn"], b"hello-%d" % k)
            if event.reply is None and a["close_on_open"]:
                yield commands.CloseConnection(a["conn"])
        elif isinstance(event, events.DataReceived):
            if event.connection is self.context.client:
                if p["echo_client"]:
                    yield commands.SendData(self.context.client, b"ack")
                if p.get("data_hooks"):
                    from mitmproxy.test import tflow

                    f = tflow.ttcpflow()
                    f.live = True
                    yield ProbeHook(f)
            else:
                act = self.rng.choice(p["on_server_data"])
                if act == "close":
                    yield commands.CloseConnection(event.connection)
                elif act == "half":
                    yield commands.CloseTcpConnection(event.connection, half_close=True)
                elif act == "reply":
                    yield commands.SendData(event.connection, b"more")
        elif isinstance(event, events.ConnectionClosed):
            if event.connection is self.context.client:
                p["client_closing"] = True
                yield commands.CloseConnection(self.context.client)
            else:
                if self.rng.choice(p["on_server_close"]) == "close":
                    yield commands.CloseConnection(event.connection)


class FakeAddons:
    def __init__(self, plan, rec, loop, handler_ref):
        self.plan = plan
        self.rec = rec
        self.vloop = loop
        self.handler_ref = handler_ref

    async def handle_lifecycle(self, hook):
        name = hook.name
        data = hook.args()[0]
        key = id(data.server) if isinstance(data, server_hooks.ServerConnectionHookData) else "client"
        self.rec.append((self.vloop.now(), name, key, "start"))
        obs = self.plan.setdefault("_obs", {"pending": 0, "timeouts": [], "events": [], "hook_done": []})
        obs["pending"] += 1
        d = self.plan["hook_delay"].get(name, 0)
        if name == "probe":
            i = obs.setdefault("probe_n", 0)
            obs["probe_n"] = i + 1
            d, intercept_for = self.plan["data_hooks"][i % len(self.plan["data_hooks"])]
            if intercept_for:
                data.intercept()
                st = {"addon_part_done": False}
                data._vf_state = st

                def resume_and_note(_d=data, _st=st, _obs=obs, _loop=self.vloop):
                    was_waiting = _st["addon_part_done"] and _d.intercepted
                    _d.resume()
                    if was_waiting:
                        _obs["pending"] -= 1
                        _obs["hook_done"].append(_loop.now())
                        _obs.setdefault("seq", []).append(("hook_done", _loop.now()))

                self.vloop.call_later(intercept_for, resume_and_note)
        try:
            if d:
                await asyncio.sleep(d)
            if name == "client_connected" and self.plan["kill_client"]:
                data.error = "killed by addon"
            if name == "server_connect":
                k = next((i for i, a in enumerate(self.plan["attempts"]) if a.get("conn") is data.server), None)
                if k is not None and self.plan["attempts"][k]["kill_in_hook"]:
                    data.server.error = "killed by addon"
        except asyncio.CancelledError:
            self.rec.append((self.vloop.now(), name, key, "cancelled"))
            raise
        finally:
            self.rec.append((self.vloop.now(), name, key, "end"))
            st = getattr(data, "_vf_state", None)
            if st is not None:
                st["addon_part_done"] = True
            if not (name == "probe" and getattr(data, "intercepted", False)):
                obs["pending"] -= 1
                obs["hook_done"].append(self.vloop.now())
                obs.setdefault("seq", []).append(("hook_done", self.vloop.now()))
            # else: handle_hook keeps waiting in wait_for_resume(); resume_and_note() will decrement


class FakeMaster:
    def __init__(self, addons):
        self.addons = addons


class Handler(mode_servers.ProxyConnectionHandler):
    def log(self, *a, **k):
        pass


def gen_plan(r):
    naddr = r.choice([1, 1, 2, 3])
    addrs = [("10.0.0.%d" % (i + 1), 80) for i in range(naddr)]
    n = r.choice([1, 2, 3, 6, 7, 8, 12])
    attempts = []
    for k in range(n):
        attempts.append(
            {
                "addr": r.choice(addrs),
                "at": r.choice([0, 0, 0, 0.5, 2, 7]),
                "connect": r.choice(["ok", "ok", "ok", "ok", "refuse", "hang", "slow", "slow"]),
                "connect_delay": r.choice([0, 0.01, 1, 4]),
                "send_on_open": r.random() < 0.5,
                "close_on_open": r.random() < 0.15,
                "kill_in_hook": r.random() < 0.08,
                "peer": r.choice([[], [("data", 0.2)], [("data", 0.1), ("eof", 1)], [("eof", 0.5)], [("err", 0.3)], [("data", 3), ("data", 6), ("eof", 9)]]),
                "drain_error": r.random() < 0.08,
            }
        )
    return {
        "attempts": attempts,
        "client_close_at": r.choice([0.05, 0.3, 1.5, 3, 8, 20]),
        "client_close_kind": r.choice(["eof", "eof", "eof", "error", "timeout"]),
        "client_data": r.choice([[], [0.1], [0.1, 1.0, 2.5]]),
        "echo_client": r.random() < 0.5,
        "hook_delay": {h: r.choice([0, 0, 0, 0.2, 2, 6]) for h in ("client_connected", "server_connect", "server_connected", "server_connect_error", "server_disconnected", "client_disconnected") if r.random() < 0.35},
        "kill_client": r.random() < 0.05,
        "on_server_data": r.choice([["none"], ["close"], ["none", "close", "half", "reply"]]),
        "on_server_close": r.choice([["close"], ["close", "none"]]),
        "tcp_timeout": r.choice([600, 600, 5]),
        # backpressure: the client stops reading, so drain() on the client writer blocks once something was written to it
        "client_drain_block": r.choice([0, 0, 0, 40]),
    }


def run_case(ctx, r, plan=None, layer_factory=None):
    plan = plan or gen_plan(r)
    loop = vloop.VLoop()
    asyncio.set_event_loop(loop)
    restore = vloop.patch_time(loop, server)
    world = vloop.World(loop)
    rec = []
    attempts_seen = collections.Counter()
    orig_open = asyncio.open_connection

    async def fake_open(host, port, local_addr=None, **kw):
        addr = (host, port)
        k = local_addr[1] - 20000
        a = plan["attempts"][k]
        a["dialled"] = True
        world.event("dial", addr, a["connect"])
        if a["connect_delay"]:
            await asyncio.sleep(a["connect_delay"])
        if a["connect"] == "refuse":
            raise ConnectionRefusedError("Connection refused (injected)")
        if a["connect"] == "hang":
            await asyncio.Event().wait()
        if a["connect"] == "slow":
            await asyncio.sleep(3)
        reader = vloop.FakeReader()
        n = [0]

        def drain_plan():
            n[0] += 1
            return OSError("EPIPE (injected)") if a["drain_error"] and n[0] == 2 else None

        writer = vloop.FakeWriter(world, f"srv{k}", addr, peername=addr, sockname=tuple(local_addr), drain_plan=drain_plan)
        world.opened(writer)

        async def script():
            for kind, t in a["peer"]:
                await asyncio.sleep(t)
                if writer.closed:
                    return
                if kind == "data":
                    reader.feed(b"srvdata")
                elif kind == "eof":
                    reader.feed_eof()
                elif kind == "err":
                    reader.feed_error(ConnectionResetError("reset (injected)"))

        t = loop.create_task(script())
        writer.on_close = t.cancel
        return reader, writer

    asyncio.open_connection = fake_open
    try:
        opts = moptions.Options()
        opts.add_option("tcp_timeout", int, plan["tcp_timeout"], "")
        creader = vloop.FakeReader()
        cwriter = vloop.FakeWriter(world, "client", None, peername=("192.0.2.10", 50123), sockname=("192.0.2.1", 8080))
        if plan.get("client_drain_block"):
            cwriter.drain_plan = lambda: (plan["client_drain_block"] if cwriter.buf else None)

        async def main():
            h = Handler(FakeMaster(FakeAddons(plan, rec, loop, None)), creader, cwriter, opts, mode_specs.ProxyMode.parse("regular"))
            h.layer = (layer_factory or (lambda c: ProbeLayer(c, plan, r)))(h.layer.context)
            obs = plan.setdefault("_obs", {"pending": 0, "timeouts": [], "events": [], "hook_done": []})
            wd = h.timeout_watchdog
            orig_cb = wd.callback

            async def cb():
                obs["timeouts"].append((loop.now(), obs["pending"]))
                obs.setdefault("seq", []).append(("timeout", loop.now()))
                await orig_cb()

            wd.callback = cb
            orig_se = h.server_event

            async def se(ev):
                obs["events"].append((loop.now(), type(ev).__name__))
                obs.setdefault("seq", []).append(("event", loop.now()))
                await orig_se(ev)

            h.server_event = se

            async def client_script():
                last = 0
                for t in plan["client_data"]:
                    if t < plan["client_close_at"]:
                        await asyncio.sleep(t - last)
                        last = t
                        creader.feed(b"cdata")
                await asyncio.sleep(max(0, plan["client_close_at"] - last))
                if plan["client_close_kind"] == "eof":
                    creader.feed_eof()
                elif plan["client_close_kind"] == "error":
                    creader.feed_error(ConnectionResetError("client reset (injected)"))
                # "timeout": stay silent, the watchdog must close the connection (tcp_timeout)

            cs = loop.create_task(client_script())
            try:
                await h.handle_client()
            finally:
                cs.cancel()
            return h

        h, dead = vloop.run(loop, main())
        if dead:
            ctx.count("deadlock_cases")
            if plan["client_close_kind"] == "timeout" and plan["tcp_timeout"] > 100:
                pass
            return plan, rec, world, None, "deadlock"
        # state of attempts when the client started closing
        vloop.drain(loop)
        pending = [t for t in asyncio.all_tasks(loop) if not t.done()]
        return plan, rec, world, h, pending
    finally:
        asyncio.open_connection = orig_open
        restore()
        try:
            for t in asyncio.all_tasks(loop):
                t.cancel()
            loop.run_until_complete(asyncio.sleep(0))
        except BaseException:
            pass
        loop.close()
        asyncio.set_event_loop(None)


