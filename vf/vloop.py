"""Engine B: real asyncio code (ConnectionHandler, TimeoutWatchdog, ClientPlayback) on a virtual-time event loop.

* VLoop: SelectorEventLoop whose selector never blocks: when no callback is ready the clock jumps exactly to the
  earliest timer. loop.time() ticks 1 microsecond per call (TimeoutWatchdog.watch spins on sleep(0) while
  last_activity + timeout == now; on an exact clock that spin never ends).
* patch_time(loop, *modules): rebinds `<module>.time` to an object whose .time() is the virtual clock.
* FakeReader / FakeWriter / World: in-memory sockets with a fault plan consulted at every await point; World counts
  open sockets per address (the resource monitor) and is what a patched asyncio.open_connection consults.
"""
from __future__ import annotations

import asyncio
import selectors


class Deadlock(Exception):
    """Nothing is ready and no timer is scheduled: the awaited thing can never complete."""


class _VSelector(selectors.BaseSelector):
    def __init__(self):
        self._keys = {}
        self.loop = None

    def register(self, fileobj, events, data=None):
        key = selectors.SelectorKey(fileobj, fileobj if isinstance(fileobj, int) else fileobj.fileno(), events, data)
        self._keys[key.fd] = key
        return key

    def unregister(self, fileobj):
        fd = fileobj if isinstance(fileobj, int) else fileobj.fileno()
        return self._keys.pop(fd, None)

    def modify(self, fileobj, events, data=None):
        self.unregister(fileobj)
        return self.register(fileobj, events, data)

    def select(self, timeout=None):
        loop = self.loop
        if timeout is None:
            raise Deadlock()
        if timeout > 0 and loop._scheduled:
            when = min(h._when for h in loop._scheduled if not h._cancelled) if any(not h._cancelled for h in loop._scheduled) else None
            if when is not None and when > loop._vtime:
                loop._vtime = when
        return []

    def get_map(self):
        return self._keys

    def close(self):
        self._keys.clear()


class VLoop(asyncio.SelectorEventLoop):
    def __init__(self, start=1_000_000.0):
        sel = _VSelector()
        self._vtime = start
        super().__init__(selector=sel)
        sel.loop = self

    def time(self):
        self._vtime += 1e-6
        return self._vtime

    def now(self):
        return self._vtime


class _VTime:
    def __init__(self, loop):
        self.loop = loop

    def time(self):
        return self.loop.time()

    def monotonic(self):
        return self.loop.time()

    def __getattr__(self, name):
        import time as _t

        return getattr(_t, name)


def patch_time(loop, *modules):
    saved = []
    vt = _VTime(loop)
    for m in modules:
        saved.append((m, m.time))
        m.time = vt

    def restore():
        for m, t in saved:
            m.time = t

    return restore


class FakeReader:
    def __init__(self):
        self.q: asyncio.Queue = asyncio.Queue()
        self.eof = False

    async def read(self, n=-1):
        item = await self.q.get()
        if isinstance(item, BaseException):
            raise item
        if item == b"":
            self.eof = True
            self.q.put_nowait(b"")  # EOF is sticky
        return item

    def feed(self, data: bytes):
        self.q.put_nowait(data)

    def feed_eof(self):
        self.q.put_nowait(b"")

    def feed_error(self, exc):
        self.q.put_nowait(exc)


class FakeWriter:
    def __init__(self, world, name, address, peername=("198.51.100.7", 443), sockname=("192.0.2.1", 50000), drain_plan=None):
        self.world = world
        self.name = name
        self.address = address
        self.buf = bytearray()
        self.closed = False
        self.eof_written = False
        self.peername = peername
        self.sockname = sockname
        self.drain_plan = drain_plan  # callable() -> None | OSError | float delay
        self.on_close = None

    def write(self, data):
        if self.eof_written:
            raise RuntimeError("Cannot call write() after write_eof()")
        self.buf += data
        self.world.event("write", self.name, len(data))

    async def drain(self):
        if self.drain_plan:
            r = self.drain_plan()
            if isinstance(r, BaseException):
                raise r
            if r:
                await asyncio.sleep(r)

    def close(self):
        if not self.closed:
            self.closed = True
            self.world.closed(self)
            if self.on_close:
                self.on_close()

    def is_closing(self):
        return self.closed

    def write_eof(self):
        self.eof_written = True
        self.world.event("write_eof", self.name)

    async def wait_closed(self):
        return

    def get_extra_info(self, name, default=None):
        return {"peername": self.peername, "sockname": self.sockname}.get(name, default)


class World:
    """All in-memory sockets of one case; the resource monitor."""

    def __init__(self, loop):
        self.loop = loop
        self.open_by_addr: dict = {}
        self.max_open_by_addr: dict = {}
        self.sockets: list = []
        self.log: list = []

    def event(self, *a):
        self.log.append((round(self.loop.now(), 3),) + a)

    def opened(self, w: FakeWriter):
        self.sockets.append(w)
        n = self.open_by_addr.get(w.address, 0) + 1
        self.open_by_addr[w.address] = n
        self.max_open_by_addr[w.address] = max(self.max_open_by_addr.get(w.address, 0), n)
        self.event("socket_open", w.name, w.address, n)

    def closed(self, w: FakeWriter):
        if w.address is not None and w in self.sockets:
            self.open_by_addr[w.address] = self.open_by_addr.get(w.address, 0) - 1
        self.event("socket_close", w.name)

    def still_open(self):
        return [w.name for w in self.sockets if not w.closed]


def run(loop: VLoop, coro, max_virtual=None):
    """run_until_complete with Deadlock surfaced; returns (result, deadlocked)."""
    task = loop.create_task(coro)
    try:
        loop.run_until_complete(task)
        return task.result(), False
    except Deadlock:
        return None, True


def drain(loop: VLoop, limit=10000):
    """Let every ready callback and every timer run until nothing is left (or limit iterations)."""
    for _ in range(limit):
        if not loop._ready and not any(not h._cancelled for h in loop._scheduled):
            return True
        loop.call_soon(loop.stop)
        try:
            loop.run_forever()
        except Deadlock:
            return True
        if not loop._ready and any(not h._cancelled for h in loop._scheduled):
            # jump to next timer
            when = min(h._when for h in loop._scheduled if not h._cancelled)
            if when > loop._vtime:
                loop._vtime = when
    return False
