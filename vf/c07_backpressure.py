"""C07 back-pressure leg: the REAL ConnectionHandler (mitmproxy/proxy/server.py: handle_connection / drain_writers /
open_connection, real asyncio tasks) + real HTTP layers over in-memory streams whose writers behave like asyncio's:
drain() blocks while more than a high-water mark of bytes is waiting for a peer that is not reading.

A case streams a large request body and a large response body (stream_large_bodies or an addon) and stalls the
consumers in varying combinations (origin only, client only, both; which direction stalls first; HTTP/1 with an
early-answering origin, or an HTTP/2 client with an upload on one stream and a download from another origin on a second
stream).  After every phase the harness measures, per direction,

    held = bytes mitmproxy has taken from the source's socket - bytes the sink has consumed

i.e. what mitmproxy keeps in its own memory (layer buffers + asyncio write buffers).  "Relayed without buffering" means
held stays below  high-water mark + a couple of socket reads, independent of the body size.  Afterwards every peer reads
and both bodies must arrive complete, unmodified and in order.
"""
from __future__ import annotations

import asyncio

import h2.config
import h2.connection
import h2.events
import h2.settings

from mitmproxy.proxy import layers
from mitmproxy.proxy import server
from mitmproxy.proxy.layers.http import HTTPMode
from mitmproxy.proxy.mode_specs import ProxyMode

READ = 65535  # what ConnectionHandler.handle_connection reads at most at once
SLACK = 4096  # message heads, chunk framing


class BpReader:
    """Bytes that have arrived in the kernel; handed out as fast as mitmproxy asks for them."""

    def __init__(self):
        self.q: asyncio.Queue = asyncio.Queue()
        self.taken = 0

    def feed(self, data: bytes):
        for i in range(0, len(data), READ):
            self.q.put_nowait(data[i : i + READ])

    def feed_eof(self):
        self.q.put_nowait(b"")

    async def read(self, n: int) -> bytes:
        for _ in range(3):  # data reaches a real StreamReader via loop callbacks: other tasks get to run
            await asyncio.sleep(0)
        data = await self.q.get()
        self.taken += len(data)
        if data == b"":
            self.q.put_nowait(b"")
        return data


class BpWriter:
    """StreamWriter whose peer reads only when told to; drain() blocks above the high-water mark like asyncio's."""

    def __init__(self, peername, sockname, high_water, reading=True, on_consume=None):
        self.peername, self.sockname = peername, sockname
        self.high_water = high_water
        self.reading = reading
        self.on_consume = on_consume
        self.parts = []  # consumed by the peer
        self.received_len = 0
        self.buffer = bytearray()  # written by mitmproxy, not consumed: held in mitmproxy's memory
        self.max_buffered = 0
        self.closing = False
        self._wakeup = asyncio.Event()

    def get_extra_info(self, name, default=None):
        return {"peername": self.peername, "sockname": self.sockname}.get(name, default)

    def is_closing(self):
        return self.closing

    def write(self, data: bytes):
        if self.reading:
            self._consume(data)
        else:
            self.buffer += data
            self.max_buffered = max(self.max_buffered, len(self.buffer))

    @property
    def received(self):
        return b"".join(self.parts)

    def _consume(self, data):
        self.parts.append(bytes(data))
        self.received_len += len(data)
        if self.on_consume:
            self.on_consume(bytes(data))

    async def drain(self):
        while len(self.buffer) > self.high_water and not self.closing:
            self._wakeup.clear()
            await self._wakeup.wait()

    def stall(self):
        self.reading = False

    def resume(self):
        self.reading = True
        if self.buffer:
            data = bytes(self.buffer)
            self.buffer.clear()
            self._consume(data)
        self._wakeup.set()

    def write_eof(self):
        pass

    def close(self):
        self.closing = True
        self._wakeup.set()

    async def wait_closed(self):
        pass


def gen_params(rng):
    proto = rng.choice(["h1", "h1", "h2"])
    chunk = rng.choice([8192, 30000, READ])
    hw = rng.choice([8 * 1024, 32 * 1024])
    return {
        "proto": proto,
        "stall": rng.choice(["server", "client", "both", "both", "both"]),
        "first": rng.choice(["upload", "download"]),
        "req_framing": rng.choice(["cl", "chunked"]) if proto == "h1" else "cl",
        "resp_framing": rng.choice(["cl", "chunked"]),
        "chunk": chunk,
        "n_req": rng.randint(700_000 // chunk + 1, 1_400_000 // chunk),
        "n_resp": rng.randint(700_000 // chunk + 1, 1_400_000 // chunk),
        "high_water": hw,
        "by_addon": rng.random() < 0.4,
        "store": rng.random() < 0.2,
    }


def bound(p):
    """high-water mark + two socket reads + heads: independent of the body size."""
    return p["high_water"] + 2 * READ + SLACK


def _body(base, n, chunk):
    return [bytes([base + i % 26]) * chunk for i in range(n)]


async def _settle(progress, quiet=80, limit=200_000):
    last, same = None, 0
    for _ in range(limit):
        await asyncio.sleep(0)
        cur = progress()
        if cur == last:
            same += 1
            if same >= quiet:
                return True
        else:
            last, same = cur, 0
    return False


def run_case(p, options):
    """Runs one case on a fresh event loop.  Returns dict(measure=[(phase, direction, held)], max_buffered, delivered, ...)."""
    loop = asyncio.new_event_loop()
    asyncio.set_event_loop(loop)
    orig_open = asyncio.open_connection
    try:
        return loop.run_until_complete(_run(p, options))
    finally:
        asyncio.open_connection = orig_open
        try:
            for t in asyncio.all_tasks(loop):
                t.cancel()
            loop.run_until_complete(asyncio.sleep(0))
        except BaseException:
            pass
        loop.close()
        asyncio.set_event_loop(None)


async def _run(p, options):
    h2mode = p["proto"] == "h2"
    hw = p["high_water"]
    res = {"measure": [], "problems": [], "hooks": []}
    req_chunks = _body(65, p["n_req"], p["chunk"])
    resp_chunks = _body(97, p["n_resp"], p["chunk"])
    req_body, resp_body = b"".join(req_chunks), b"".join(resp_chunks)

    # ---- sockets
    client_r = BpReader()
    client_h2 = None
    client_streams = {}
    if h2mode:
        client_h2 = h2.connection.H2Connection(h2.config.H2Configuration(client_side=True, header_encoding=False, validate_inbound_headers=False))

        def client_consumes(data):
            for ev in client_h2.receive_data(data):
                if isinstance(ev, h2.events.ResponseReceived):
                    client_streams.setdefault(ev.stream_id, {"headers": ev.headers, "data": bytearray(), "ended": False})
                elif isinstance(ev, h2.events.DataReceived):
                    client_streams[ev.stream_id]["data"] += ev.data
                    client_h2.acknowledge_received_data(ev.flow_controlled_length, ev.stream_id)
                elif isinstance(ev, h2.events.StreamEnded):
                    client_streams[ev.stream_id]["ended"] = True
            out = client_h2.data_to_send()
            if out:
                client_r.feed(out)

        client_w = BpWriter(("192.0.2.10", 50000), ("192.0.2.1", 8080), hw, on_consume=client_consumes)
    else:
        client_w = BpWriter(("192.0.2.10", 50000), ("192.0.2.1", 8080), hw)
    origins = {}  # host -> (reader, writer)

    async def open_connection(host, port, **kw):
        r_, w_ = BpReader(), BpWriter((host, port), ("192.0.2.1", 40000 + len(origins)), hw)
        origins[host] = (r_, w_)
        if host == "up.example" and p["stall"] in ("server", "both"):
            w_.stall()
        return r_, w_

    asyncio.open_connection = open_connection

    def next_layer(nl):
        if h2mode:
            nl.context.client.alpn = b"h2"
        nl.layer = layers.HttpLayer(nl.context, HTTPMode.regular)

    def requestheaders(f):
        res["hooks"].append("requestheaders")
        if p["by_addon"]:
            f.request.stream = True

    def responseheaders(f):
        res["hooks"].append("responseheaders")
        if p["by_addon"] and f.response is not None:
            f.response.stream = True

    hooks = {"next_layer": next_layer, "requestheaders": requestheaders, "responseheaders": responseheaders}
    for name in ("request", "response", "error"):
        hooks[name] = lambda f, name=name: res["hooks"].append(name)
    handler = server.SimpleConnectionHandler(client_r, client_w, options, ProxyMode.parse("regular"), hooks)
    task = asyncio.ensure_future(handler.handle_client())

    def progress():
        return (client_r.taken, len(client_w.buffer), client_w.received_len, tuple((r_.taken, len(w_.buffer), w_.received_len) for r_, w_ in origins.values()), len(res["hooks"]))

    up_host = "up.example"
    down_host = "down.example" if h2mode else "up.example"

    def measure(phase):
        up_w = origins[up_host][1] if up_host in origins else None
        down_r = origins[down_host][0] if down_host in origins else None
        held_up = client_r.taken - (up_w.received_len if up_w else 0)
        held_down = (down_r.taken if down_r else 0) - client_w.received_len
        res["measure"].append((phase, "upload", held_up))
        res["measure"].append((phase, "download", held_down))

    # ---- request head (+ first body chunk) so that streaming starts and the upstream connection exists
    if h2mode:
        client_h2.initiate_connection()
        client_h2.update_settings({h2.settings.SettingCodes.INITIAL_WINDOW_SIZE: 2**31 - 1})
        client_h2.increment_flow_control_window(2**31 - 1 - 65535)
        client_r.feed(client_h2.data_to_send())
        await _settle(progress)  # the client learns mitmproxy's SETTINGS / windows while it is still reading
        client_h2.send_headers(1, [(b":method", b"POST"), (b":scheme", b"http"), (b":authority", b"up.example"), (b":path", b"/upload"), (b"content-length", b"%d" % len(req_body))])
        client_h2.send_headers(3, [(b":method", b"GET"), (b":scheme", b"http"), (b":authority", b"down.example"), (b":path", b"/download")], end_stream=True)
        client_r.feed(client_h2.data_to_send())

        def upload(chunks, last):
            for i, c in enumerate(chunks):
                for off in range(0, len(c), 16384):
                    client_h2.send_data(1, c[off : off + 16384], end_stream=last and i == len(chunks) - 1 and off + 16384 >= len(c))
                client_r.feed(client_h2.data_to_send())
    else:
        head = b"POST http://up.example/upload HTTP/1.1\r\nHost: up.example\r\n"
        head += (b"Content-Length: %d\r\n\r\n" % len(req_body)) if p["req_framing"] == "cl" else b"Transfer-Encoding: chunked\r\n\r\n"
        client_r.feed(head)

        def upload(chunks, last):
            for c in chunks:
                client_r.feed(c if p["req_framing"] == "cl" else b"%x\r\n%s\r\n" % (len(c), c))
            if last and p["req_framing"] == "chunked":
                client_r.feed(b"0\r\n\r\n")

    upload(req_chunks[:1], last=False)
    await _settle(progress)
    if up_host not in origins or (h2mode and down_host not in origins):
        res["problems"].append("upstream connection was not opened after the request head")
        task.cancel()
        return res
    if p["stall"] in ("client", "both"):
        client_w.stall()

    def download():
        r_ = origins[down_host][0]
        if p["resp_framing"] == "cl":
            r_.feed(b"HTTP/1.1 200 OK\r\nContent-Length: %d\r\n\r\n" % len(resp_body))
            for c in resp_chunks:
                r_.feed(c)
        else:
            r_.feed(b"HTTP/1.1 200 OK\r\nTransfer-Encoding: chunked\r\n\r\n")
            for c in resp_chunks:
                r_.feed(b"%x\r\n%s\r\n" % (len(c), c))
            r_.feed(b"0\r\n\r\n")

    # ---- stalled phases: which direction is offered first
    steps = [("upload", lambda: upload(req_chunks[1:], last=True)), ("download", download)]
    if p["first"] == "download":
        steps.reverse()
    for name, fn in steps:
        fn()
        if not await _settle(progress):
            res["problems"].append("did not settle after " + name)
        measure("after-" + name)
    res["max_buffered"] = {"client": client_w.max_buffered, **{h_: w_.max_buffered for h_, (r_, w_) in origins.items()}}
    res["taken"] = {"client": client_r.taken, **{h_: r_.taken for h_, (r_, w_) in origins.items()}}

    # ---- everybody reads: both bodies must arrive exactly
    for r_, w_ in origins.values():
        w_.resume()
    client_w.resume()
    await _settle(progress)
    res["upstream_raw"] = bytes(origins[up_host][1].received)
    if h2mode:
        st = client_streams.get(3) or {"data": b"", "ended": False}
        res["download_body"], res["download_ended"] = bytes(st["data"]), st["ended"]
        res["client_raw"] = None
    else:
        res["client_raw"] = bytes(client_w.received)
    res["req_body"], res["resp_body"] = req_body, resp_body
    client_r.feed_eof()
    for r_, w_ in origins.values():
        r_.feed_eof()
    await _settle(progress, quiet=40)
    if not task.done():
        task.cancel()
        try:
            await task
        except BaseException:
            pass
    return res
