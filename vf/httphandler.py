"""Engine B for HTTP: the real HttpProxy/HttpLayer stack inside the real ProxyConnectionHandler on the virtual-time loop
(vf/vloop.py), with in-memory client and origin sockets. Unlike engine A (vf/sansio.py), connection establishment, hook
tasks, cancellation (client disconnect / CloseConnection / idle timeout while a connect or a hook is pending) and teardown
are the real asyncio code of mitmproxy/proxy/server.py."""
from __future__ import annotations

import asyncio

from mitmproxy import options as moptions
from mitmproxy.addons import proxyserver
from mitmproxy.proxy import layers, mode_specs, mode_servers, server
from mitmproxy.proxy.layers.http import HTTPMode

from vf import sansio, vloop


class _Addons:
    """Stands in for master.addons: records every hook, forces the HTTP layer, applies the plan's hook delays / actions."""

    def __init__(self, plan, loop, hooks):
        self.plan, self.vloop, self.hooks = plan, loop, hooks
        self.cancelled_hooks = []

    async def handle_lifecycle(self, hook):
        name = hook.name
        if name == "next_layer":
            nl = hook.args()[0]
            nl.layer = layers.HttpLayer(nl.context, HTTPMode.regular)
            return
        flow = getattr(hook, "flow", None)
        d = self.plan["hook_delay"].get(name, 0)
        t0 = self.vloop.now()
        cancelled = False
        try:
            if d:
                await asyncio.sleep(d)
            if flow is not None:
                act = self.plan["hook_action"].get(name)
                if act == "kill" and flow.killable:
                    flow.kill()
                elif act == "stream" and name == "requestheaders":
                    flow.request.stream = True
                elif act == "stream" and name == "responseheaders" and flow.response is not None:
                    flow.response.stream = True
        except asyncio.CancelledError:
            cancelled = True
            raise
        finally:
            self.hooks.append((self.vloop.now(), name, hook, sansio.http_snapshot(hook) if flow is not None else None))
            if cancelled:
                self.cancelled_hooks.append((name, t0, self.vloop.now()))


class _Master:
    def __init__(self, addons):
        self.addons = addons


class _Handler(mode_servers.ProxyConnectionHandler):
    def log(self, *a, **k):
        pass


class Result:
    def __init__(self):
        self.hooks = []  # (virtual time, name, hook, snapshot) -- same shape as sansio.Driver.hooks
        self.deadlock = False
        self.pending_tasks = 0
        self.client_out = b""
        self.open_sockets = 0
        self.crashed = []
        self.cancelled_hooks = []  # (name, start, end) of hooks whose (async) addon part was cancelled

    def hook_names(self):
        return [h[1] for h in self.hooks]


def gen_plan(r):
    nreq = r.choice([1, 1, 2])
    return {
        "requests": [(r.choice(["GET", "POST"]), r.choice([0, 0, 5, 2000])) for _ in range(nreq)],
        "send_gap": r.choice([0, 0, 0.3]),
        # per upstream connection attempt
        "connect": [r.choice(["ok", "ok", "ok", "refuse", "refuse-bare", "timeout-bare", "oserror-bare", "gaierror-bare", "hang", "slow"]) for _ in range(3)],
        "connect_delay": r.choice([0, 0.01, 1, 4]),
        # origin behaviour per request
        "origin": [r.choice(["answer", "answer", "answer", "partial-eof", "silent", "reset", "answer-close"]) for _ in range(3)],
        "origin_delay": r.choice([0, 0.2, 3]),
        "client_close_at": r.choice([0.005, 0.05, 0.5, 2, 3.5, 8, 30]),
        "client_close_kind": r.choice(["eof", "eof", "error", "timeout"]),
        "tcp_timeout": r.choice([600, 5, 5]),
        "hook_delay": {h: r.choice([0.2, 2, 6]) for h in ("requestheaders", "request", "responseheaders", "response", "error", "server_connect", "server_connected", "server_connect_error", "server_disconnected") if r.random() < 0.25},
        "hook_action": {h: r.choice(["kill", "stream", "stream"]) for h in ("requestheaders", "request", "responseheaders", "response") if r.random() < 0.15},
        "stream_large_bodies": r.choice([None, None, "100"]),
    }


def run_plan(plan):
    res = Result()
    loop = vloop.VLoop()
    asyncio.set_event_loop(loop)
    restore = vloop.patch_time(loop, server)
    world = vloop.World(loop)
    orig_open = asyncio.open_connection
    nopen = [0]

    async def fake_open(host, port, local_addr=None, **kw):
        k = nopen[0]
        nopen[0] += 1
        how = plan["connect"][k % len(plan["connect"])]
        world.event("dial", (host, port), how)
        if plan["connect_delay"]:
            await asyncio.sleep(plan["connect_delay"])
        if how == "refuse":
            raise ConnectionRefusedError("Connection refused (injected)")
        # failures whose str() is empty: the handler must still report a connect failure (seeded change C29-6)
        if how == "refuse-bare":
            raise ConnectionRefusedError()
        if how == "timeout-bare":
            raise TimeoutError()
        if how == "oserror-bare":
            raise OSError()
        if how == "gaierror-bare":
            import socket

            raise socket.gaierror()
        if how == "hang":
            await asyncio.Event().wait()
        if how == "slow":
            await asyncio.sleep(3)
        reader = vloop.FakeReader()
        writer = vloop.FakeWriter(world, f"srv{k}", (host, port), peername=(host, port), sockname=("192.0.2.1", 20000 + k))
        world.opened(writer)
        answered = [0]

        async def origin():
            # reactive origin: answers every complete request head+body it has received
            while not writer.closed:
                await asyncio.sleep(0.01)
                data = bytes(writer.buf)
                n = 0
                pos = 0
                while True:
                    he = data.find(b"\r\n\r\n", pos)
                    if he < 0:
                        break
                    head = data[pos:he].lower()
                    cl = 0
                    for line in head.split(b"\r\n")[1:]:
                        if line.startswith(b"content-length:"):
                            cl = int(line.split(b":", 1)[1])
                    if len(data) < he + 4 + cl:
                        break
                    pos = he + 4 + cl
                    n += 1
                while answered[0] < n and not writer.closed:
                    i = answered[0]
                    answered[0] += 1
                    how = plan["origin"][i % len(plan["origin"])]
                    if plan["origin_delay"]:
                        await asyncio.sleep(plan["origin_delay"])
                    if writer.closed:
                        return
                    if how == "answer":
                        reader.feed(b"HTTP/1.1 200 OK\r\nContent-Length: 5\r\n\r\nhello")
                    elif how == "answer-close":
                        reader.feed(b"HTTP/1.1 200 OK\r\nConnection: close\r\n\r\nbye")
                        reader.feed_eof()
                        return
                    elif how == "partial-eof":
                        reader.feed(b"HTTP/1.1 200 OK\r\nContent-Length: 50\r\n\r\nhel")
                        reader.feed_eof()
                        return
                    elif how == "reset":
                        reader.feed_error(ConnectionResetError("reset (injected)"))
                        return
                    # silent: never answers

        t = loop.create_task(origin())
        writer.on_close = t.cancel
        return reader, writer

    asyncio.open_connection = fake_open
    try:
        opts = moptions.Options()
        proxyserver.Proxyserver().load(opts)
        opts.update(tcp_timeout=plan["tcp_timeout"], stream_large_bodies=plan["stream_large_bodies"])
        creader = vloop.FakeReader()
        cwriter = vloop.FakeWriter(world, "client", None, peername=("192.0.2.10", 50123), sockname=("192.0.2.1", 8080))

        async def main():
            addons = _Addons(plan, loop, res.hooks)
            res.cancelled_hooks = addons.cancelled_hooks
            h = _Handler(_Master(addons), creader, cwriter, opts, mode_specs.ProxyMode.parse("regular"))
            orig_log = h.log

            async def client_script():
                t0 = loop.now()
                for i, (method, blen) in enumerate(plan["requests"]):
                    body = b"x" * blen
                    head = b"%s http://example.com/r%d HTTP/1.1\r\nHost: example.com\r\n" % (method.encode(), i)
                    if blen or method == "POST":
                        head += b"Content-Length: %d\r\n" % blen
                    creader.feed(head + b"\r\n" + body[: blen // 2])
                    if plan["send_gap"]:
                        await asyncio.sleep(plan["send_gap"])
                    if body[blen // 2 :]:
                        creader.feed(body[blen // 2 :])
                await asyncio.sleep(max(0, plan["client_close_at"] - (loop.now() - t0)))
                if plan["client_close_kind"] == "eof":
                    creader.feed_eof()
                elif plan["client_close_kind"] == "error":
                    creader.feed_error(ConnectionResetError("client reset (injected)"))
                # "timeout": stays silent; the idle watchdog (tcp_timeout) has to end the connection

            cs = loop.create_task(client_script())
            try:
                await h.handle_client()
            finally:
                cs.cancel()
            return h

        h, dead = vloop.run(loop, main())
        res.deadlock = dead
        if not dead:
            vloop.drain(loop)
            res.pending_tasks = len([t for t in asyncio.all_tasks(loop) if not t.done()])
        res.client_out = bytes(cwriter.buf)
        res.open_sockets = sum(1 for w in getattr(world, "open", []) if not w.closed) if hasattr(world, "open") else 0
        return res
    finally:
        asyncio.open_connection = orig_open
        restore()
        try:
            for t in asyncio.all_tasks(loop):
                t.cancel()
            loop.run_until_complete(asyncio.sleep(0))
        except BaseException:
            pass
        loop.close()
        asyncio.set_event_loop(None)
