import random, asyncio
from mitmproxy.addons.upstream_auth import UpstreamAuth
from mitmproxy.addons.clientplayback import ReplayHandler
from mitmproxy.proxy import mode_specs
from mitmproxy.test import tflow
from vf import sansio
from vf.gen import c08_peers as P

tctx, addons = sansio.addon_context(UpstreamAuth)
ua = addons[2]
opts = tctx.options
def resp(k,m,p): return b"HTTP/1.1 200 OK\r\nContent-Length: 2\r\n\r\nok", True

async def main():
    for running_mode in (["regular"], ["upstream:http://proxy.test:8080"], ["reverse:http://target.test:80"]):
        opts.update(upstream_auth="uSECRET:pSECRET", mode=running_mode)
        f = tflow.tflow()
        f.request.host, f.request.port, f.request.scheme = "origin.test", 80, "http"
        f.client_conn.proxy_mode = mode_specs.ProxyMode.parse("upstream:http://oldproxy.test:3128")  # recorded in upstream mode
        f.request.headers.pop("Proxy-Authorization", None)
        f.is_replay = "request"
        h = ReplayHandler(f, opts)
        d = sansio.Driver(lambda c: h.layer, client=h.layer.context.client, options=opts, rng=random.Random(1), addons=[ua], schedule="fifo",
                          server_factory=lambda drv, conn: P.OriginPeer(resp))
        d.context = h.layer.context
        d.start(); d.run(); d.teardown()
        print("running mode", running_mode)
        for c in d.servers: print("   ", c.address, c.via, bytes(d.out[c]))
        print("   hooks", d.hook_names(), [e[:2] for e in d.exceptions])
    opts.update(upstream_auth=None, mode=["regular"])
asyncio.run(main())
