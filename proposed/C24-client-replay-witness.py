"""Witness for the C24 side finding (unchanged tree): client replay of a plain-HTTP flow that was RECORDED in upstream mode,
while mitmproxy currently runs in regular / reverse mode with `upstream_auth` set.  clientplayback.ReplayHandler keeps the
recorded flow.client_conn (proxy_mode = UpstreamMode) but sends the request directly to the origin (HTTPMode.transparent, no via);
UpstreamAuth.requestheaders looks at the recorded proxy_mode and adds Proxy-Authorization -> the upstream credentials reach the origin.

Run:  cd /repo && PYTHONPATH=/verif:/repo /venv/bin/python /verif/proposed/C24-client-replay-witness.py
Unchanged tree: the 'regular' and 'reverse' runs show `Proxy-Authorization: Basic ...` on the connection to ('origin.test', 80).
With proposed/C24-client-replay-uses-current-mode.diff only the run in upstream mode (connection to the proxy) carries it.
"""
import random, asyncio
from mitmproxy.addons.upstream_auth import UpstreamAuth
from mitmproxy.addons.clientplayback import ReplayHandler
from mitmproxy.proxy import mode_specs
from mitmproxy.test import tflow
from vf import sansio
from vf.gen import c08_peers as P

tctx, addons = sansio.addon_context(UpstreamAuth)
ua = addons[2]
opts = tctx.options
def resp(k,m,p): return b"HTTP/1.1 200 OK\r\nContent-Length: 2\r\n\r\nok", True

async def main():
    for running_mode in (["regular"], ["upstream:http://proxy.test:8080"], ["reverse:http://target.test:80"]):
        opts.update(upstream_auth="uSECRET:pSECRET", mode=running_mode)
        f = tflow.tflow()
        f.request.host, f.request.port, f.request.scheme = "origin.test", 80, "http"
        f.client_conn.proxy_mode = mode_specs.ProxyMode.parse("upstream:http://oldproxy.test:3128")  # recorded in upstream mode
        f.request.headers.pop("Proxy-Authorization", None)
        f.is_replay = "request"
        h = ReplayHandler(f, opts)
        d = sansio.Driver(lambda c: h.layer, client=h.layer.context.client, options=opts, rng=random.Random(1), addons=[ua], schedule="fifo",
                          server_factory=lambda drv, conn: P.OriginPeer(resp))
        d.context = h.layer.context
        d.start(); d.run(); d.teardown()
        print("running mode", running_mode)
        for c in d.servers: print("   ", c.address, c.via, bytes(d.out[c]))
        print("   hooks", d.hook_names(), [e[:2] for e in d.exceptions])
    opts.update(upstream_auth=None, mode=["regular"])
asyncio.run(main())
