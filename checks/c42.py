"""C42 -- filter expressions mean what the documented grammar says.

Monitor (differential, programs x inputs): a random AST over every documented operator is rendered to a filter string
(random spacing, redundant parentheses, bare / single- / double-quoted arguments, explicit & or juxtaposition), parsed
with the real flowfilter.parse and evaluated on 12 real flows built from generator-fixed facts (HTTP with/without
response, websocket, TCP, UDP, DNS).  Oracles:
  accepted        -- parse() must not raise for any rendering (every rendering is inside the documented grammar);
  verdict         -- bool(filter(flow)) == vf.ref.c42_filter.ev(ast, facts) (own three-valued evaluator of the documented
                     semantics; undocumented corners evaluate to None and are skipped, counted as `verdict_undetermined`);
  total           -- evaluating the filter on a flow must not raise.
  history         -- after each expression the same tree is parsed again (same process) with regex arguments that are case
                     variants of the ones just parsed and checked against the reference evaluated on the variant's own text.
"""
import re

from mitmproxy import flowfilter

from vf.gen import c42_filtergen as gen
from vf.ref import c42_filter as ref

PROPERTY = "C42"
LEVEL = "exploration"
BUDGET = {"quick": (1500, 12), "thorough": (40_000, 200)}
WORKERS = {"quick": 4, "thorough": 16}
REQUIRED = ["accepted", "verdict", "variant_accepted", "variant_changes_verdict", "empty_matching_regex_on_empty_body", "tight_juxtaposition"]
ENGINE = "direct"
TECHNIQUE = "differential against an independent three-valued reference evaluator of the documented grammar"
RULE = (
    "case = one random filter AST (depth<=5, all 32 documented operators, !, &, |, juxtaposition) rendered once with random "
    "spacing (30% of renderings drop every whitespace the tokenisation does not need)/parentheses/quoting and evaluated on a fresh pool of 12 flows (http, http+response, websocket, tcp, udp, dns) whose "
    "facts the generator fixed (bodies missing / present-but-empty / non-empty, empty header values, empty marker/comment); regex arguments are derived from substrings of what the operator looks at (with case flips, "
    "wildcards, anchors, alternation; 12% are regexes that match the empty string: ^$ .* x? \\A\\Z (?:) ...) so leaves are true on some flows; in the same process the tree is then parsed again up to twice with "
    "regex arguments that differ only in letter case (\\d/\\D \\w/\\W \\s/\\S \\b/\\B swapped, literal letters re-cased) and sibling operators, and "
    "evaluated on the same flows (a verdict must not depend on what was parsed before); distinct = (connective kinds, depth, leaf kinds, quoting "
    "styles, juxtaposition, redundant parentheses, tight spacing) signature; non-trivial = depth>=2 and the reference verdict is "
    "true on some flow and false on another"
)
ASSUMPTIONS = [
    "inside quoted arguments the backslash is an escape character (\\\\ -> \\, \\q -> q); the docs do not say so, this is the reading most favourable to the implementation",
    "the docs do not rank juxtaposition against |, so a juxtaposed conjunction is never rendered directly under |",
    "whitespace between juxtaposed terms is optional exactly where a reserved character (~ ( ) ' \") already ends the left token: after an operator name, a numeric code, an unquoted regex, a closing quote or parenthesis when ~operator, ( or a quote follows (and ! unless the left term ends in an unquoted regex); it is kept where two tokens would fuse (unquoted regex + ! or unquoted regex, operator name or code + unquoted regex). On the unchanged grammar all asserted pairs parse to the same tree as the spaced form",
    "regex flags other than IGNORECASE, DNS bodies/URLs, and which of host / Host header is 'the' URL host are undocumented: leaves depending on them are undetermined and skipped",
    "header operators are documented to match 'name: value' strings, so the reference matches each header line separately",
]
LEVEL_TEXT = (
    "Randomised exploration of expression trees x flows: every generated expression is checked for acceptance and its verdict on "
    "12 flows of all types against an independent evaluator. Bounded depth and a finite alphabet of regex shapes, so this is evidence "
    "for the grammar/precedence/leaf semantics on the sampled space, not a proof."
)
LEVEL_NOTE = "Trusted: Python re, the reference evaluator vf/ref/c42_filter.py, the renderer's claim that each rendering has the AST as its documented reading; flows are built with mitmproxy.test.tflow helpers."

# levels of parentheses allowed per case: the real parser needs ~0.2 s / 0.4 s / 1 s for 1 / 2 / 3 levels against ~2 ms without parentheses
NESTING_BUDGET = [0] * 80 + [1] * 15 + [2] * 4 + [3]

UNARY_TIGHT = re.compile(r"~(?:%s)[)&|]" % "|".join(sorted(ref.UNARY, key=len, reverse=True)))


def reject_triggers(text, toks):
    """Input conditions under which the unchanged parser is known to reject a documented rendering."""
    t = []
    if UNARY_TIGHT.search(text) and any(k == "unary" for k, _ in toks):
        t.append("unary-operator-directly-followed-by-paren-or-connective")
    if gen.nested_jux(toks):
        t.append("juxtaposition-inside-parentheses")
    return t


def explain_reject(text, toks, gaps):
    """-> (mechanisms, accepted_text, filter).  A rejection is explained only if the *same token sequence* is accepted once
    exactly the triggering spellings are replaced by equivalent ones (whitespace after unary operators / explicit & for
    juxtapositions inside parentheses); the smallest sufficient set of triggers is blamed."""
    trig = reject_triggers(text, toks)
    u = "unary-operator-directly-followed-by-paren-or-connective"
    j = "juxtaposition-inside-parentheses"
    variants = []
    if u in trig:
        variants.append(([u], dict(tight_unary=False)))
    if j in trig:
        variants.append(([j], dict(nested_jux_as_amp=True)))
    if len(trig) == 2:
        variants.append(([u, j], dict(tight_unary=False, nested_jux_as_amp=True)))
    for mechs, kw in variants:
        alt = gen.assemble(toks, gaps, **kw)
        flt, _ = parse(alt)
        if flt is not None:
            return mechs, alt, flt
    return [None], None, None


M_HEADER = "header-regex-sees-crlf-line-terminator"
M_TAB = "literal-tab-in-quoted-regex"


def classify_verdict(ast, facts, real):
    """-> list of mechanisms ([None] if unexplained).  Two input conditions are known to change a leaf's verdict:
    (1) a header operator (~h ~hq ~hs) whose regex can see the CRLF that joins the header lines, i.e. its verdict on the
        joined block differs from the documented per-'name: value'-line verdict;
    (2) a regex argument containing a literal TAB (always rendered quoted).
    A mismatch is explained only if flipping some of the leaves of one condition (or, failing that, of both) reproduces
    the real verdict -- or leaves the verdict undetermined (another leaf is undocumented and now decides), in which case
    the real verdict no longer contradicts the documented semantics."""
    hdr, tab = {}, {}
    for lf in ref.leaves(ast):
        if isinstance(lf[2], str) and "\t" in lf[2]:
            v = ref.leaf(lf[1], lf[2], facts)
            if v is not None:
                tab[id(lf)] = not v
        elif lf[1] in ("h", "hq", "hs") and facts["type"] == "http":
            line = ref.leaf(lf[1], lf[2], facts)
            block = ref.header_block_verdicts(lf[1], lf[2], facts)
            if line is not None and (not line) in block:
                hdr[id(lf)] = not line

    def subsets(d):
        # a candidate leaf may or may not flip (which flags the block is searched with is undocumented): every non-empty
        # subset of at most 4 candidates
        ids = list(d)[:4]
        for mask in range(1, 2 ** len(ids)):
            yield {i: d[i] for n, i in enumerate(ids) if mask >> n & 1}

    for h in subsets(hdr):
        if ref.ev(ast, facts, h) in (real, None):
            return [M_HEADER]
    for t in subsets(tab):
        if ref.ev(ast, facts, t) in (real, None):
            return [M_TAB]
    for t in subsets(tab):
        for h in subsets(hdr):
            if ref.ev(ast, facts, {**h, **t}) in (real, None):
                return [M_HEADER, M_TAB]
    return [None]


def parse(text):
    try:
        return flowfilter.parse(text), None
    except ValueError as e:
        return None, e


def sample_of(text, ast, pool, verdicts):
    return {"filter": text, "ast": ast, "verdicts": "".join("?" if v is None else "TF"[not v] for v in verdicts), "flow_types": [f["type"] for f in pool]}


def evaluate(ctx, text, ast, flt, pool, flows, parsed_before=None):
    """Compare the parsed filter with the reference on every flow of the pool; -> reference verdicts."""
    verdicts = []
    empty_ok_body_leaf = any(lf[1] in ("b", "bq", "bs") and re.search(lf[2], "") for lf in ref.leaves(ast))
    for facts, fl in zip(pool, flows):
        exp = ref.ev(ast, facts)
        verdicts.append(exp)
        ctx.count("total")
        if empty_ok_body_leaf and facts["type"] == "http" and (facts["req_body"] == b"" or (facts["resp"] and facts["resp"]["body"] == b"")):
            ctx.count("empty_matching_regex_on_empty_body")  # "present but empty" must be told from "absent"
        extra = {"parsed_before": parsed_before} if parsed_before else {}
        try:
            real = bool(flt(fl))
        except Exception as e:  # noqa
            ctx.violation("filter-raises", {"filter": text, "ast": ast, "facts": facts, "exc": repr(e), **extra})
            continue
        if exp is None:
            ctx.count("verdict_undetermined")
            continue
        ctx.count("verdict")
        if real != exp:
            for m in classify_verdict(ast, facts, real):
                ctx.violation("verdict-differs", {"filter": text, "ast": ast, "facts": facts, "real": real, "expected": exp, **extra}, m)
    return verdicts


def run_case(ctx):
    r = ctx.rng
    pool = [gen.gen_facts(r, t) for t in ("http", "http", "tcp", "udp", "dns")] + [gen.gen_facts(r) for _ in range(7)]
    flows = [gen.build_flow(f) for f in pool]
    d = r.choice([1, 2, 2, 3, 3, 4, 4, 5])
    max_nesting = r.choice(NESTING_BUDGET)
    ast, (text, st, toks) = gen.gen_rendered(r, pool, d, max_nesting)

    ctx.count("accepted")
    flt, err = parse(text)
    if flt is None:
        mechs, alt, flt = explain_reject(text, toks, st["gaps"])
        for m in mechs:
            ctx.violation("rejected", {"filter": text, "ast": ast, "error": repr(err.__cause__ or err), "accepted_when_respelled": alt}, m)
        if flt is None:
            ctx.case(("rejected",), True, {"filter": text})
            return
        ctx.count("accepted_respelled")
        text = alt

    for pair in st["tight_pairs"]:
        ctx.count("tight_juxtaposition")
        ctx.seen("tight_pairs", "%s+%s" % pair)
    verdicts = evaluate(ctx, text, ast, flt, pool, flows)

    # ---- history in one process: the same tree again with regex arguments that differ only in letter case (\\d/\\D,
    # \\w/\\W, \\s/\\S, \\b/\\B are different regexes even under IGNORECASE) and sibling operators; the verdict of a
    # filter must not depend on which filters were parsed before it
    n_variants = 0
    prev = ast
    for _ in range(2 if gen.nesting(toks) <= 1 else 1):  # parentheses make the real parser slow: one variant is enough there
        ast2, changed = gen.variant_ast(r, prev)
        if not changed:
            break
        out = gen.render(r, ast2, max(max_nesting, gen.nesting(toks)))
        if out is None:
            break
        text2, st2, toks2 = out
        ctx.count("accepted")
        ctx.count("variant_accepted")
        flt2, err2 = parse(text2)
        if flt2 is None:
            mechs, alt, flt2 = explain_reject(text2, toks2, st2["gaps"])
            for m in mechs:
                ctx.violation("rejected", {"filter": text2, "ast": ast2, "parsed_before": text, "error": repr(err2.__cause__ or err2), "accepted_when_respelled": alt}, m)
            if flt2 is None:
                break
            text2 = alt
        v2 = evaluate(ctx, text2, ast2, flt2, pool, flows, parsed_before=text)
        n_variants += 1
        if any(a is not None and b is not None and a != b for a, b in zip(verdicts, v2)):
            ctx.count("variant_changes_verdict")
        prev = ast2
    kinds = tuple(sorted(ref.kinds(ast)))
    depth = ref.depth(ast)
    sig = (kinds, depth, gen.nesting(toks), tuple(sorted(st["leafkinds"])), tuple(sorted(st["quoting"])), st["jux"], min(st["redundant"], 2), st["tight_unary"], st["tight_jux"],
           n_variants)
    nontrivial = depth >= 2 and True in verdicts and False in verdicts
    ctx.seen("operators", ",".join(sorted({"~" + lf[1] if lf[1] else "naked" for lf in ref.leaves(ast)}))[:60])
    ctx.case(sig, nontrivial, sample_of(text, ast, pool, verdicts))


# ---------------------------------------------------------------------------------------------
# fixed matrix: every kind of left neighbour x every kind of right neighbour, juxtaposed with zero whitespace
# ---------------------------------------------------------------------------------------------
L = lambda op, arg=None: ("leaf", op, arg)  # noqa: E731
# (kind of first token, kind of last token, text, tree)
TERMS = (
    [("unary", "unary", "~" + op, L(op)) for op in ref.UNARY]
    + [("opa", "num", "~c 200", L("c", 200)), ("opa", "word", "~u example", L("u", "example")), ("opa", "word", "~m GET", L("m", "GET")),
       ("opa", "word", "~d 10", L("d", "10")), ("opa", "word", "~b hello", L("b", "hello")), ("word", "word", "example", L("", "example")),
       ("word", "word", "8080", L("", "8080")), ("quoted", "quoted", "'example'", L("", "example")), ("quoted", "quoted", '"org"', L("", "org")),
       ("opa", "quoted", '~m "POST"', L("m", "POST")), ("(", ")", "(~e)", L("e")), ("(", ")", "(~c 404)", L("c", 404)),
       ("(", ")", "(~tcp|~udp)", ("or", [L("tcp"), L("udp")])), ("!", "unary", "!~s", ("not", L("s"))), ("!", "unary", "!~marked", ("not", L("marked"))),
       ("!", "num", "!~c 200", ("not", L("c", 200))), ("!", "word", "!~u org", ("not", L("u", "org")))]
)


def run_matrix(ctx):
    """Every term as left neighbour x every term as right neighbour, juxtaposed with zero whitespace wherever the
    tokenisation allows it (gen.tight_jux_ok), plus left+right+left chains."""
    r = ctx.case_rng(-1, "matrix")
    pool = [gen.gen_facts(r, t) for t in ("http", "http", "http", "tcp", "udp", "dns")] + [gen.gen_facts(r) for _ in range(6)]
    flows = [gen.build_flow(f) for f in pool]
    # as left neighbour three argument-less operators are enough (what matters is how the left term ends); as right
    # neighbour every one of them is used (each has its own grammar element); pairs are dealt round-robin to the workers
    lefts = [t for t in TERMS if t[0] != "unary" or t[2] in ("~q", "~http", "~replayq")]
    k = -1
    for ls, le, lt, la in lefts:
        for rs, re_, rt, ra in TERMS:
            if not gen.tight_jux_ok(le, rs):
                continue
            k += 1
            if k % ctx.nworkers != ctx.worker:
                continue
            if ctx.time_left() < ctx.seconds * 0.5:
                ctx.count("matrix_pairs_skipped_for_time")
                continue
            cases = [(lt + rt, ("and", [la, ra]))]
            if gen.tight_jux_ok(re_, ls) and ctx.tier == "thorough":
                cases.append((lt + rt + lt, ("and", [la, ra, la])))
            for text, ast in cases:
                ctx.count("accepted")
                ctx.count("tight_juxtaposition")
                ctx.seen("tight_pairs", f"{le}+{rs}")
                flt, err = parse(text)
                if flt is None:
                    ctx.violation("rejected", {"filter": text, "ast": ast, "error": repr(err.__cause__ or err), "spaced_form": lt + " " + rt})
                    continue
                verdicts = evaluate(ctx, text, ast, flt, pool, flows)
                ctx.case(("matrix", le, rs), True in verdicts and False in verdicts, {"filter": text, "ast": ast})


def run(ctx):
    if ctx.only_case is None:
        ctx.guard(run_matrix, ctx, what="matrix")
    for _ in ctx.cases():
        ctx.guard(run_case, ctx, what="harness")
