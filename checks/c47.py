"""C47 -- flow edits through mitmweb are atomic.

Engine 'web' (vf/gen/c46_web.py): real WebMaster + real tornado Application on a loopback port; each case adds a
fresh flow to the view, sends one authenticated ``PUT /flows/<id>`` (valid session cookie + XSRF token) with a
generated edit document and observes the flow object afterwards.

Monitors:
  error_leaves_flow_unchanged   answer >= 400  ->  flow.get_state() minus the 'backup' bookkeeping key is identical
                                to the state before the request (this includes edits made before the request on a
                                flow that had already been modified)
  success_equals_reference      answer 200 and the reference model (vf/ref/c47_edit.py, own code) considers the
                                document unambiguously valid -> raw stored fields equal the reference application
                                of ALL items of the document in order
  unknown_field_refused         a document with an unknown key is never answered 200
Documents whose validity is debatable (port "80", -1, code "404", non-hostname hosts ...) are judged for atomicity
only; how the server treated them is recorded in the evidence (lenient_accepts).
"""
import asyncio
import copy
import json
import time
import random as _random

from vf.core import Inconclusive, short
from vf.gen import c46_web as web
from vf.ref import c46_policy as pol
from vf.ref import c47_edit as ref

PROPERTY = "C47"
LEVEL = "exploration"
ENGINE = "web"
TECHNIQUE = "generated edit documents (valid items + invalid item at every position) PUT to the live application; state before/after + reference edit model"
BUDGET = {"quick": (2500, 12), "thorough": (12_000, 150)}
WORKERS = {"quick": 2, "thorough": 16}
REQUIRED = ["error_leaves_flow_unchanged", "error_leaves_backup_unchanged", "success_equals_reference", "unknown_field_refused", "errors_after_applied_items", "prelude_edits", "ui_connected_cases", "ui_absent_cases"]
RULE = (
    "case = (web UI /updates websocket connected: yes/no) x (initial flow: http with/without response; trailers absent / present-but-empty / non-empty, empty header lists, empty or absent content; optionally an earlier ACCEPTED edit such as trailers: [] on the same flow; with Host header / trailers / content-type variants, pristine or "
    "already modified, or tcp) x (edit document: 0-4 valid request items, 0-4 valid response items, marked/comment, and "
    "0-2 invalid, debatable or exotic-but-parseable items (raw JSON literals 1e999/Infinity/NaN, 10**400, floats, booleans, nested "
    "containers, very long / astral / lone-surrogate strings in every typed field) -- unknown key, malformed port/code, malformed header/trailer list, non-string content, "
    "non-hostname host, unencodable reason, sub-document not an object, response edit on a flow without response -- at a "
    "random position); distinct = distinct (flow kind, already-modified, classes of invalid items, number of valid items "
    "applied before the first invalid one (0/1/2+), answer class); non-trivial = an invalid item preceded by at least one "
    "valid item or a flow that was already modified (atomicity matters), or a fully valid document with >= 2 items"
)
ASSUMPTIONS = [
    "the 'backup' key of get_state() is excluded from the state comparison (DESIGN C47); the flow's stored backup is compared separately (error_leaves_backup_unchanged)",
    "an answer >= 400 means the edit was refused; 200 means it was accepted",
    "documents with coercible or out-of-range values are not classified as valid or invalid; only atomicity is judged for them",
    "the reference model covers Content-Type values '', text/plain (optionally charset utf-8 / iso-8859-1) and application/json, no Content-Encoding, empty :authority",
]
LEVEL_TEXT = (
    "Thousands of generated edit documents with an invalid item at every position are sent through the real HTTP API and "
    "the flow object is compared with its state before the request (errors) or with an independent model of the complete "
    "edit (successes). Exploration of a document grammar, not a proof over all JSON documents."
)
LEVEL_NOTE = "trusted: Flow.get_state as the definition of 'the flow', the reference edit model for the 200 branch, the raw HTTP client"

CT_VALUES = ["text/plain", "text/plain; charset=utf-8", "text/plain; charset=iso-8859-1", "application/json"]
TEXTS = ["", "hello", "héllo wörld", "snow ☃ man", '{"a": 1}', "line1\nline2"]

# classes of items that are not plainly valid.  raises_non_api: the real handler is expected (from the statement of the
# suspect) to hit a non-APIError exception there; used only to name the mechanism.
INVALID_REQUEST = [
    ("unknown-key", "foo", [42, "x", None]),
    ("port-malformed", "port", ["abc", [], None, {}, "", "8o"]),
    ("headers-malformed", "headers", ["abc", [["a"]], [["a", "b", "c"]], [[1, 2]], [None], 5, [["ok", "v"], ["b"]], None]),
    ("lenient-null-header-value", "headers", [[["a", None]], [["ok", "v"], ["b", None]]]),
    ("trailers-malformed", "trailers", [[["a"]], 7, [[1, 2]], [["ok", "v"], []]]),
    ("content-not-string", "content", [123, [], {"a": 1}, True]),
    ("lenient-host-not-hostname", "host", ["a..b", "x" * 64 + ".com", "-bad-.example", "ex ample.org", ""]),
]
INVALID_RESPONSE = [
    ("unknown-key", "foo", [42, "x", None]),
    ("code-malformed", "code", ["x", None, [], "", {}, "2oo"]),
    ("headers-malformed", "headers", ["abc", [["a"]], [["a", "b", "c"]], [[1, 2]], [None], 5, [["ok", "v"], ["b"]], None]),
    ("lenient-null-header-value", "headers", [[["a", None]], [["ok", "v"], ["b", None]]]),
    ("lenient-null-header-value", "trailers", [[["a", None]]]),
    ("trailers-malformed", "trailers", [[["a"]], 7, [[1, 2]], [["ok", "v"], []]]),
    ("content-not-string", "content", [123, [], {"a": 1}, True]),
    ("reason-not-latin1", "reason", ["Ω ok", "☃"]),
]
DEBATABLE_REQUEST = [
    ("lenient-port", "port", ["80", -1, 70000, 1.5, True, 0]),
    ("lenient-coercion", "method", [123, None, ["a"]]),
    ("lenient-headers", "headers", [{"ab": 1}, ["ab", "cd"]]),
]
DEBATABLE_RESPONSE = [
    ("lenient-code", "code", ["404", -5, 1.9, True, 99999]),
    ("lenient-coercion", "reason", [123, None]),
]
NON_API_CLASSES = {
    "port-malformed",
    "code-malformed",
    "headers-malformed",
    "trailers-malformed",
    "content-not-string",
    "reason-not-latin1",
    "subdoc-not-object",
    "response-edit-without-response",
}


class Raw:
    """A JSON literal spliced verbatim into the request body (1e999, Infinity, NaN: json.dumps cannot emit all of them)."""

    def __init__(self, text):
        self.text = text

    def __repr__(self):
        return f"Raw({self.text})"


def dumps(o) -> str:
    """Own serializer: the body is sent as raw text so that exotic-but-parseable literals survive."""
    if isinstance(o, Raw):
        return o.text
    if isinstance(o, dict):
        return "{" + ", ".join(json.dumps(str(k)) + ": " + dumps(v) for k, v in o.items()) + "}"
    if isinstance(o, (list, tuple)):
        return "[" + ", ".join(dumps(v) for v in o) + "]"
    return json.dumps(o, allow_nan=True)  # ensure_ascii: lone surrogates travel as \udXXX escapes


# exotic-but-parseable values (kind, value); Python's json.loads accepts every one of them
EXOTIC = [
    ("overflow-number", Raw("1e999")),
    ("overflow-number", Raw("-1e999")),
    ("overflow-number", Raw("Infinity")),
    ("overflow-number", Raw("-Infinity")),
    ("overflow-number", Raw("1E+400")),
    ("nan", Raw("NaN")),
    ("huge-int", 10**400),
    ("huge-int", -(10**400)),
    ("huge-int", Raw("1" + "0" * 5000)),
    ("float", 80.5),
    ("float", Raw("1e3")),
    ("float", Raw("-0.0")),
    ("float", Raw("1e-999")),
    ("bool", True),
    ("bool", False),
    ("nested", [[1]]),
    ("nested", [[[]], {}]),
    ("nested", {"a": {"b": []}}),
    ("nested", {"port": 1}),
    ("long-string", "9" * 5000),
    ("long-string", "x" * 60000),
    ("astral-string", "\U0001F600 \U00010348"),
    ("surrogate-string", "a\ud800b"),
    ("surrogate-string", "\udc80"),
    ("surrogate-string", "\udbff\udbff"),
]
EXOTIC_KEYS = {
    "request": ["port", "port", "port", "method", "scheme", "host", "path", "http_version", "content", "headers", "trailers"],
    "response": ["code", "code", "code", "reason", "http_version", "content", "headers", "trailers"],
    "top": ["marked", "comment"],
}


def exotic_item(r, section):
    key = r.choice(EXOTIC_KEYS[section])
    kind, v = r.choice(EXOTIC)
    if key in ("headers", "trailers"):
        v = r.choice([[["a", v]], [[v, "b"]], [["ok", "v"], v], v, [["ok", "v"], ["a", v]]])
    return f"exotic-{kind}", key, v


def gen_headers(r, response=False):
    names = ["Host", "host", "X-A", "x-a", "Content-Type", "content-length", "Cookie", "Accept"]
    out = []
    for _ in range(r.randint(0, 4)):
        n = r.choice(names)
        if n.lower() == "content-type":
            v = r.choice(CT_VALUES)
        elif n.lower() == "content-length":
            v = str(r.randint(0, 99))
        elif n.lower() == "host":
            v = r.choice(["old.example", "old.example:8080"])
        else:
            v = r.choice(["v", "", "a b", "ü"])
        out.append([n, v])
    return out


def valid_request_items(r):
    pool = {
        "method": lambda: r.choice(["GET", "POST", "PATCH", "DELETE", "MÜH"]),
        "scheme": lambda: r.choice(["http", "https"]),
        "host": lambda: r.choice(["example.org", "a.b-c.example", "xn--bcher-kva.de", "localhost"]),
        "port": lambda: r.choice([80, 443, 8080, 1, 65535]),
        "path": lambda: r.choice(["/", "/a?b=c", "/ü", "*"]),
        "http_version": lambda: r.choice(["HTTP/1.1", "HTTP/1.0", "HTTP/2.0"]),
        "headers": lambda: gen_headers(r),
        "trailers": lambda: gen_headers(r)[:2],
        "content": lambda: r.choice(TEXTS + [None]),
    }
    keys = r.sample(sorted(pool), r.choice([0, 1, 1, 2, 2, 3, 4]))
    return [(k, pool[k]()) for k in keys]


def valid_response_items(r):
    pool = {
        "reason": lambda: r.choice(["OK", "Not Found", "Non-Autorisé", ""]),
        "http_version": lambda: r.choice(["HTTP/1.1", "HTTP/2.0"]),
        "code": lambda: r.choice([200, 404, 500, 101, 999]),
        "headers": lambda: gen_headers(r, True),
        "trailers": lambda: gen_headers(r, True)[:2],
        "content": lambda: r.choice(TEXTS + [None]),
    }
    keys = r.sample(sorted(pool), r.choice([0, 1, 1, 2, 2, 3, 4]))
    return [(k, pool[k]()) for k in keys]


PRELUDES = [
    {"request": {"trailers": []}},
    {"response": {"trailers": []}},
    {"request": {"trailers": []}, "response": {"trailers": []}},
    {"request": {"headers": []}},
    {"response": {"headers": [], "trailers": []}},
    {"request": {"content": ""}},
    {"response": {"content": "", "reason": ""}},
    {"comment": "", "marked": ""},
    {"request": {"trailers": [["t", "1"]]}, "comment": "c"},
    {"request": {}},
    {},
]
# earlier edits whose validity is debatable (null / non-string names and values in header and trailer lists, request and
# response): whatever the server answers, a later rejected document must still leave the flow as it was
LENIENT_PRELUDES = [
    {"request": {"trailers": [["x", None]]}},
    {"request": {"trailers": [[None, "x"]]}},
    {"request": {"trailers": [["ok", "v"], ["x", None]]}, "comment": "c"},
    {"response": {"trailers": [["x", None]]}},
    {"request": {"headers": [["x", None]]}},
    {"response": {"headers": [[None, "x"]]}},
    {"request": {"trailers": [["x", None]]}, "response": {"trailers": [["y", None]]}},
    {"request": {"trailers": [["x", 1]]}},
    {"request": {"trailers": {"ab": 1}}},
    {"request": {"port": "80", "method": 5}},
    {"marked": None, "comment": None},
    # values that only the JSON serialisation for the web UI can object to (unhashable / lone surrogates / non-finite)
    {"marked": [1]},
    {"marked": {"a": 1}},
    {"comment": "\ud800"},
    {"marked": "\udc80", "comment": float("nan")},
    {"request": {"host": "\ud800"}},
    {"request": {"method": "\udc80", "scheme": "\udcff"}},
    {"request": {"headers": [["\udcff", "\udc80"]]}, "response": {"trailers": [["a", "\udcff"]]}},
    {"comment": [[[[1]]]], "marked": float("inf")},
]


def null_in_request_trailers(prelude) -> bool:
    t = (prelude or {}).get("request", {}).get("trailers") if isinstance((prelude or {}).get("request"), dict) else None
    return isinstance(t, list) and any(isinstance(it, list) and any(x is None for x in it) for it in t)


def gen_doc(r, kind, force_trailers=False):
    """-> (doc as ordered dict, flat application-order list of (section, key, class|None))."""
    req = valid_request_items(r)
    resp = valid_response_items(r) if kind != "http-noresp" or r.random() < 0.5 else []
    if force_trailers:
        # a non-empty trailer list early in the document (applied before whatever fails later)
        if r.random() < 0.7:
            req = [("trailers", [["t-new", "x"]])] + [it for it in req if it[0] != "trailers"]
        if kind == "http-resp" and r.random() < 0.7:
            resp = [("trailers", [["t-new", "y"], ["t2", ""]])] + [it for it in resp if it[0] != "trailers"]
    top = []
    if req or r.random() < 0.2:
        top.append(["request", req])
    if resp or r.random() < 0.2:
        top.append(["response", resp])
    if r.random() < 0.5:
        top.append(["marked", r.choice([":red_circle:", "", "x"])])
    if r.random() < 0.5:
        top.append(["comment", r.choice(["", "hi", "ünï"])])
    r.shuffle(top)
    classes = {}
    n_bad = r.choices([0, 1, 2], [12, 60, 28])[0]
    for _ in range(n_bad):
        where = r.choices(["request", "response", "top", "subdoc"], [45, 35, 12, 8])[0]
        flavour = r.choices(["invalid", "debatable", "exotic"], [55, 12, 33])[0]
        if where in ("request", "response"):
            sec = next((t for t in top if t[0] == where and isinstance(t[1], list)), None)
            if sec is None:
                sec = [where, []]
                top.insert(r.randint(0, len(top)), sec)
            if flavour == "exotic":
                cls, key, value = exotic_item(r, where)
            else:
                debatable = flavour == "debatable"
                table = (DEBATABLE_REQUEST if debatable else INVALID_REQUEST) if where == "request" else (DEBATABLE_RESPONSE if debatable else INVALID_RESPONSE)
                cls, key, values = r.choice(table)
                value = r.choice(values)
            items = [it for it in sec[1] if it[0] != key]
            # half of the time last (everything valid is applied before it), else anywhere
            items.insert(len(items) if r.random() < 0.5 else r.randint(0, len(items)), (key, value))
            sec[1] = items
            classes[(where, key)] = cls
        elif where == "top" and flavour == "exotic":
            cls, key, value = exotic_item(r, "top")
            top = [t for t in top if t[0] != key]
            top.insert(len(top) if r.random() < 0.5 else r.randint(0, len(top)), [key, value])
            classes[("top", key)] = cls
        elif where == "top":
            if not any(t[0] == "foo" for t in top):
                top.insert(r.randint(0, len(top)), ["foo", r.choice([42, {"a": 1}, None, Raw("1e999")])])
                classes[("top", "foo")] = "unknown-key"
        else:
            name = r.choice(["request", "response"])
            top = [t for t in top if t[0] != name]
            top.insert(r.randint(0, len(top)), [name, r.choice([5, [], "x", None, [["method", "GET"]]])])
            for k in [k for k in classes if k[0] == name]:
                del classes[k]
            classes[("top", name)] = "subdoc-not-object"
    doc = {}
    flat = []
    for name, val in top:
        if isinstance(val, list) and name in ("request", "response") and ("top", name) not in classes:
            doc[name] = {k: v for k, v in val}
            if kind == "tcp":
                flat.append(("top", name, "unknown-key"))  # a tcp flow has no request/response to edit
                continue
            if name == "response" and kind == "http-noresp" and val:
                flat.append(("top", name, "response-edit-without-response"))
                continue
            for k, v in val:
                flat.append((name, k, classes.get((name, k))))
        else:
            doc[name] = val
            cls = classes.get(("top", name))
            if kind == "tcp" and name in ("request", "response"):
                cls = "unknown-key"
            flat.append(("top", name, cls))
    return doc, flat


def make_flow(r, i, worker):
    """-> (flow, kind, already_modified)."""
    from mitmproxy import http
    from mitmproxy.test import tflow

    kind = r.choices(["http-resp", "http-noresp", "tcp"], [75, 17, 8])[0]
    if kind == "tcp":
        f = tflow.ttcpflow()
    else:
        f = tflow.tflow(resp=(kind == "http-resp"))
        if r.random() < 0.5:
            f.request.headers["Host"] = "old.example"
        if r.random() < 0.4:
            f.request.headers["Content-Type"] = r.choice(CT_VALUES)
        # trailers: absent (None) / present but empty / non-empty; same for other containers
        t = r.random()
        if t < 0.25:
            f.request.trailers = http.Headers([(b"t-old", b"1")])
        elif t < 0.5:
            f.request.trailers = http.Headers()
        if r.random() < 0.1:
            f.request.headers = http.Headers()
        if r.random() < 0.15:
            f.request.content = r.choice([b"", None])
        if f.response is not None:
            if r.random() < 0.4:
                f.response.headers["Content-Type"] = r.choice(CT_VALUES)
            t = r.random()
            if t < 0.25:
                f.response.trailers = http.Headers([(b"t-old", b"1")])
            elif t < 0.5:
                f.response.trailers = http.Headers()
            if r.random() < 0.1:
                f.response.headers = http.Headers()
            if r.random() < 0.15:
                f.response.content = r.choice([b"", None])
            if r.random() < 0.1:
                f.response.reason = ""
    f.id = "c47c47c4-%04x-4000-8000-%012x" % (worker, i)
    modified = r.random() < 0.25
    if modified:
        f.backup()
        f.comment = "earlier edit"
        if kind != "tcp":
            f.request.method = "EARLIER"
            f.request.headers["X-Earlier"] = "edit"
    return f, kind, modified


def strip(state):
    state = dict(state)
    state.pop("backup", None)
    return state


def first_failure(flat):
    for idx, (sec, key, cls) in enumerate(flat):
        if cls is not None and not cls.startswith("lenient"):
            return idx, cls
    return None, None


def classify(flat, modified, accepted_prelude=None):
    """Mechanism of an error answer that left the flow changed -- from the document and the flow's history only."""
    # (also repaired in /repo: 5a671a43b, header names/values reject None) -> reported unclassified from now on
    if False and null_in_request_trailers(accepted_prelude):
        # history: an earlier edit stored a null name/value in the REQUEST trailers and was answered 200 (nothing reads
        # request trailers when the view is notified); the snapshot of such a flow cannot be restored any more
        return "rollback-impossible-after-accepted-null-in-request-trailers"
    # All three mechanisms named below were repaired in /repo (known_findings.json: status "fixed"); a recurrence is a
    # regression and must be reported unclassified.
    return None
    if any(c and c.startswith("exotic-") for (_, _, c) in flat):
        return None  # exotic values can fail in ways none of the named mechanisms describes
    idx, cls = first_failure(flat)
    if cls is None:
        if any(c == "lenient-null-header-value" for (_, _, c) in flat):
            # nothing fails while the items are applied; the null value is stored and the notification of the
            # view (after the guarded block) fails
            return "null-header-value-stored-then-view-update-fails"
        return None
    if cls in NON_API_CLASSES:
        return "failure-other-than-apierror-skips-revert"
    if cls == "unknown-key" and modified:
        return "refused-edit-of-already-modified-flow-reverts-earlier-edits"
    return None


async def amain(ctx):
    rig = web.WebRig()
    init = _random.Random(f"{ctx.seed}/C47/token")
    await rig.start("".join(init.choice("0123456789abcdef") for _ in range(32)))
    try:
        # the time budget is meant for cases: give back what importing mitmproxy / starting the server took (capped)
        startup = min(time.monotonic() - ctx.t0, 6.0)
        for i in ctx.cases(frac=1.0 + startup / max(ctx.seconds, 1e-9)):
            r = ctx.rng
            now = int(time.time())
            f, kind, modified = make_flow(r, i, ctx.worker)
            prelude = None
            if kind != "tcp" and r.random() < 0.35:
                prelude = r.choice(PRELUDES if r.random() < 0.6 else LENIENT_PRELUDES)
                if kind == "http-noresp":
                    prelude = {k: v for k, v in prelude.items() if k != "response"}
            doc, flat = gen_doc(r, kind, force_trailers=(prelude is not None and r.random() < 0.8) or r.random() < 0.15)
            rig.master.view.add([f])
            ui = r.random() < 0.5  # is a web UI (an /updates websocket) connected while the edit is made?
            ui_conn = None
            try:
                ch, cq, cc = pol.build_cred("cookie-valid", token=rig.token, secret=rig.cookie_secret, cookie_name=rig.auth_cookie_name, now=now, rng=r)
                xh, xq, xc, xf = pol.build_xsrf("valid-v1-header", cookie_name=rig.xsrf_cookie_name, now=now, rng=r)
                headers = ch + xh + [("Cookie", "; ".join(f"{k}={v}" for k, v in cc + xc)), ("Content-Type", "application/json")]
                if ui:
                    try:
                        ui_conn = await web.ui_connect(rig, ch + [("Cookie", "; ".join(f"{k}={v}" for k, v in cc))])
                    except (asyncio.TimeoutError, ConnectionError, asyncio.IncompleteReadError):
                        raise Inconclusive("harness could not connect the UI websocket")
                    if len(webapp_connections()) != 1:
                        raise Inconclusive("UI websocket not registered")
                elif webapp_connections():
                    raise Inconclusive("stale UI websocket")
                ctx.count("ui_connected_cases" if ui else "ui_absent_cases")
                if prelude is not None:
                    # history: an earlier edit that must be ACCEPTED (leaves present-but-empty containers and a backup)
                    p_snap = ref.snapshot(f)
                    p_state = copy.deepcopy(strip(f.get_state()))
                    try:
                        presp = await rig.request("PUT", f"/flows/{f.id}", headers, json.dumps(prelude).encode())
                    except (asyncio.TimeoutError, ValueError, ConnectionError):
                        ctx.count("inconclusive_cases")
                        continue
                    ctx.count("prelude_edits")
                    verdict, exp = ref.apply(prelude, p_snap)
                    pwit = {"flow": kind, "already_modified": modified, "body": json.dumps(prelude), "status": presp.status}
                    if presp.status >= 400:
                        if verdict == "ok":
                            ctx.violation("valid-edit-refused", pwit)
                        if strip(f.get_state()) != p_state or ref.snapshot(f) != p_snap:
                            ctx.violation("error-answer-but-flow-changed", dict(pwit, changed_fields=ref.diff(p_snap, ref.snapshot(f))[:12]))
                    elif verdict == "ok":
                        if ref.snapshot(f) != exp:
                            ctx.violation("accepted-edit-differs-from-complete-application", dict(pwit, differing_fields=ref.diff(exp, ref.snapshot(f))))
                    else:
                        ctx.count("prelude_lenient_accepts")
                        ctx.seen("lenient_accepts", f"earlier edit {json.dumps(prelude)[:80]}: {exp}")
                # independent copies: the flow must not be able to alias what we compare against
                before_state = copy.deepcopy(strip(f.get_state()))
                before_backup = copy.deepcopy(f._backup)
                prelude_accepted = prelude is not None and presp.status == 200
                before_snap = ref.snapshot(f)
                body_text = dumps(doc)
                body = body_text.encode("ascii")
                try:
                    doc = json.loads(body_text)  # the document as any stdlib JSON reader sees it (Infinity/NaN floats, big ints)
                except ValueError:
                    doc = None  # e.g. an integer literal beyond the interpreter's digit limit: only atomicity is judged
                try:
                    resp = await rig.request("PUT", f"/flows/{f.id}", headers, body)
                except (asyncio.TimeoutError, ValueError, ConnectionError) as e:
                    ctx.count("inconclusive_cases")
                    continue
                after_state = strip(f.get_state())
                after_snap = ref.snapshot(f)
                after_backup = copy.deepcopy(f._backup)
            finally:
                rig.master.view.remove([f])
                await web.ui_disconnect(ui_conn)
            idx, cls = first_failure(flat)
            n_before = sum(1 for (_, _, c) in flat[: idx if idx is not None else len(flat)] if c is None)
            wit = {
                "flow": kind,
                "already_modified": modified,
                "ui_client_connected": ui,
                "earlier_accepted_edit": None if prelude is None else json.dumps(prelude),
                "body": short(body_text, 900),
                "status": resp.status,
                "answer": short(resp.body, 160),
                "first_invalid_item": None if idx is None else list(flat[idx]),
                "valid_items_applied_before_it": n_before,
            }
            ctx.seen("answers", f"{resp.status}:{cls}:ui={int(ui)}")
            if resp.status in (401, 403):
                raise Inconclusive(f"harness credentials were refused ({resp.status})")
            if resp.status >= 400:
                ctx.count("error_leaves_flow_unchanged")
                if n_before or modified or prelude is not None:
                    ctx.count("errors_after_applied_items")
                if after_state != before_state or after_snap != before_snap:
                    changed = ref.diff(before_snap, after_snap) or [k for k in after_state if after_state[k] != before_state.get(k)]
                    ctx.violation("error-answer-but-flow-changed", dict(wit, changed_fields=changed[:12]), mechanism=classify(flat, modified or prelude is not None, prelude if prelude_accepted else None))
                ctx.count("error_leaves_backup_unchanged")
                if after_backup != before_backup:
                    ctx.violation("error-answer-but-backup-changed", dict(wit, had_backup=before_backup is not None, has_backup=after_backup is not None))
            elif resp.status == 200:
                verdict, exp = ref.apply(doc, before_snap)
                if verdict == "ok":
                    ctx.count("success_equals_reference")
                    if after_snap != exp:
                        d = ref.diff(exp, after_snap)
                        ctx.violation(
                            "accepted-edit-differs-from-complete-application",
                            dict(wit, differing_fields=d[:12], expected={k: short(_get(exp, k), 120) for k in d[:4]}, actual={k: short(_get(after_snap, k), 120) for k in d[:4]}),
                        )
                elif verdict == "unknown-field":
                    pass  # judged below (unknown_field_refused)
                else:
                    ctx.count("lenient_accepts")
                    ctx.seen("lenient_accepts", f"{cls}: {exp}")
            else:
                ctx.violation("unexpected-status", wit)
            if any(c == "unknown-key" for (_, _, c) in flat):
                ctx.count("unknown_field_refused")
                if resp.status == 200:
                    ctx.violation("unknown-field-accepted", wit)
            all_classes = tuple(sorted({f"{s if s != 'top' else ''}:{c}" for (s, _, c) in flat if c}))
            nontrivial = (cls is not None and (n_before > 0 or modified or prelude is not None)) or (cls is None and len(flat) >= 2)
            ctx.case(
                (kind, modified, ui, None if prelude is None else tuple(sorted(prelude)), all_classes, min(n_before, 2), resp.status // 100),
                nontrivial=nontrivial,
                sample={"flow": kind, "already_modified": modified, "ui_client_connected": ui, "earlier_accepted_edit": prelude, "body": short(body_text, 500), "status": resp.status},
            )
    finally:
        await rig.stop()


def webapp_connections():
    from mitmproxy.tools.web import app as webapp

    return webapp.ClientConnection.connections


def _get(d, dotted):
    for p in dotted.split("."):
        d = d.get(p) if isinstance(d, dict) else None
    return d


def run(ctx):
    asyncio.run(amain(ctx))
