"""C11 -- intercepted flows are held until resumed, killed flows are never forwarded.

Engine A.  The real layers (HttpProxy/ReverseProxy/TransparentProxy -> HttpLayer for HTTP/1, HTTP/2 and the WebSocket
upgrade; TCPLayer; UDPLayer; DNSLayer) run under the sans-io driver with the real `Intercept` addon in the hook chain
(option `intercept` = generated filter) plus a policy addon that intercepts / kills at random message hooks.  The hook
hand-off is modelled exactly like ProxyConnectionHandler.handle_hook: after the addon chain the hook's completion waits on
the flow's real `wait_for_resume()` coroutine (a task on a private event loop); the "user" is a scheduled injected action
that optionally edits the message, calls the real `flow.resume()` / `flow.kill()`, lets the loop run and re-enables the
completion iff the coroutine finished.  "Transit" kills hit a live flow between two hooks.

Monitors
  frozen        after EVERY driver step (m3): for each held hook the destination's per-flow byte metric (H1: bytes to the
                server connections resp. the client; H2: per-stream record of the peer; WS: decoded data-frame bytes;
                TCP/UDP/DNS: bytes/datagrams to the destination) equals its value at intercept time
  handoff       after the user resumed or killed, wait_for_resume() has returned (else the hook never completes)
  progress      (H2) when the run is quiescent with streams still held, every stream that is not held/killed is complete
  once          after the run each passed/resumed message reached its destination exactly once, with the user's edit, as
                read by an independent decoder (vf/ref/http1.py, h2 library peers, vf/ref/c11_wire.py)
  edit_matrix   (fixed enumeration, run before the random cases) a WebSocket message of 1-4 frames, text or binary, either
                direction, is intercepted, edited and resumed for every edit class -- same length / shorter / longer / empty /
                larger than one re-chunk unit; ASCII, or a 2-, 3-, 4-byte character starting at every offset from boundary-k to
                boundary+1 of every original frame boundary, or nothing but multi-byte characters at every byte shift --: what
                the destination decodes (own RFC 6455 reader) equals the edited message octet for octet, as one message
  kill.nothing  nothing of the flow is forwarded after the kill (proxy-made error signals -- close, RST_STREAM,
                SERVFAIL -- are not forwarding)
  kill.torn_down once the layer saw any further connection event after the kill (data, control frame, peer half-close or
                disconnect) it has closed both sides itself; WebSocket: after the kill no ping/pong and no peer's close
                (code + reason) is relayed either, and the flow does not end with the peer's close code
  kill.error    a killed flow has flow.error set and its protocol's error hook fired after the kill (HTTP: `error`,
                unless the `response` hook had fired, which excludes `error`; WebSocket: `websocket_end` or `error`)
"""
import asyncio
import re

from mitmproxy import connection as mconn
from mitmproxy import flow as mflow
from mitmproxy import http
from mitmproxy.addons.intercept import Intercept
from mitmproxy.proxy import layers

from vf import sansio
from vf.ref import c11_wire as wire

PROPERTY = "C11"
LEVEL = "exploration"
ENGINE = "sansio"
BUDGET = {"quick": (560, 14), "thorough": (40000, 230)}
WORKERS = {"quick": 4, "thorough": 16}
REQUIRED = ["frozen", "handoff", "progress", "once", "edit_matrix", "kill.nothing", "kill.error", "kill.torn_down", "held_with_events"]
TECHNIQUE = "runtime monitoring: sans-io schedule exploration with withheld hook completions; per-step frozen-destination monitor + independent wire decoders"
RULE = (
    "case = (protocol in h1/h2/ws/tcp/udp/dns, generated messages with unique tags, intercept filter for the real Intercept addon, "
    "per-hook action in pass/intercept/kill, user action in resume/edit+resume/kill/edit+kill after a random number of steps or at "
    "quiescence, optional kill of an idle flow (in the start hook, between two events, or at quiescence) FOLLOWED by peer activity that is "
    "not a data message -- WebSocket ping / pong / close with code+reason, TCP half-close, disconnect of either side, DNS retransmission, "
    "HTTP/2 PING / client RST_STREAM --, random segmentation + schedule); signature = (protocol, sorted (hook, action) pairs, "
    "feature flags); non-trivial iff a hook was actually held while a further connection event was delivered, or a flow was killed"
)
ASSUMPTIONS = [
    "the asyncio hand-off is modelled by running the real Flow.wait_for_resume() on a private loop; ProxyConnectionHandler.handle_hook itself (addon chain, then await wait_for_resume) is two lines and trusted",
    "proxy-made error signalling after a kill (connection close, RST_STREAM, DNS SERVFAIL, WebSocket close) is not 'forwarding'",
    "HTTP/1 pipelined requests behind a held flow wait by protocol necessity (the progress clause is for multiplexed HTTP/2 only)",
    "a user edit of a streamed message at its final hook is too late by design and is not generated",
]
LEVEL_TEXT = (
    "Exploration: thousands of generated conversations per protocol are run through the real layers while hook completions are "
    "withheld exactly as handle_hook + wait_for_resume would; a monitor after every driver step checks the destination stays "
    "frozen and independent decoders check exactly-once delivery with edits and silence after kills. Decides the executions observed."
)
LEVEL_NOTE = "Trusted: vf/sansio.py (model of ConnectionHandler), vf/ref/http1.py, vf/ref/c11_wire.py, the h2 library used by the HTTP/2 peers."

KILLED = "Connection killed."
MSG = re.compile(rb"<([cs]\d+-[0-9a-f]{6}):([^<>]*)>")


# --------------------------------------------------------------------------------------------------------------
# session: holds, user actions, kills
# --------------------------------------------------------------------------------------------------------------

def pump(loop, n=3):
    for _ in range(n):
        loop.run_until_complete(asyncio.sleep(0))


def is_killed(f):
    return bool(f.error and f.error.msg == KILLED)


class Session:
    """Per-case controller: the policy addon, the hold model and the simulated user."""

    def __init__(self, ctx, r, loop, proto, describe, edit, *, p_intercept=0.3, p_kill=0.08, user_kill=0.3, transit=0.0):
        self.ctx = ctx
        self.r = r
        self.loop = loop
        self.proto = proto
        self.describe = describe  # (drv, hook, flow) -> dict(tag, side, metric()->value, capture()->final, ...) | None
        self.edit = edit  # (rec) -> None: the user's edit of the intercepted message
        self.p_intercept = p_intercept
        self.p_kill = p_kill
        self.user_kill = user_kill
        self.transit = transit
        # decided up front so that peers can gate their trailing control frames / EOF on "the planned idle kill has happened"
        self.transit_planned = r.random() < transit
        self.transit_after = r.choice([r.randint(1, 40), r.randint(1, 40), 10**6])  # 10**6: when the run is quiescent (layer idle)
        self.transit_pending = self.transit_planned
        self.transit_force = False
        self.force_action = None  # fixed user action (edit matrix)
        self.start_kill = {}  # hook name -> probability of an addon killing the flow in that (non-message) hook
        self.pre_teardown = None
        self.records = []
        self.holds = []
        self.kills = []
        self.acts = set()
        self.flows = []
        self.log_pos = 0
        self.held_with_events = 0
        self.violations = []
        self.transit_gate = None
        self.kill_state = None  # (drv, flow, where) -> dict describing what the flow was doing when it was killed

    # -- addon side ----------------------------------------------------------------------------------------
    def policy(self, drv, hook):
        args = hook.args()
        f = args[0] if args and isinstance(args[0], mflow.Flow) else None
        if f is None:
            return None
        if f not in self.flows:
            self.flows.append(f)
        rec = self.describe(drv, hook, f)
        if rec is None and hook.name in self.start_kill and f.killable and not is_killed(f) and self.r.random() < self.start_kill[hook.name]:
            f.kill()
            self.acts.add((hook.name, "kill"))
            self.note_kill(drv, f, hook.name, "addon", None)
        if rec is not None:
            rec.update(step=drv.step_no, hook=hook.name, cmd=hook, flow=f, decision="pass", user=None, final=None, out_idx=len(drv.out_log), hook_idx=len(drv.hooks))
            self.records.append(rec)
            if is_killed(f):
                rec["decision"] = "after-kill"
            else:
                x = self.r.random()
                if x < self.p_kill and f.killable:
                    f.kill()
                    rec["decision"] = "kill"
                    self.note_kill(drv, f, hook.name, "addon", rec)
                elif x < self.p_kill + self.p_intercept:
                    f.intercept()
        if not f.intercepted:
            if rec is not None:
                rec["final"] = rec["capture"]()
                self.acts.add((hook.name, rec["decision"]))
            return None
        # ---- handle_hook would now await flow.wait_for_resume()
        if rec is None:
            rec = {"tag": None, "side": None, "metric": lambda: 0, "capture": lambda: None, "step": drv.step_no, "hook": hook.name, "cmd": hook, "flow": f, "final": None, "out_idx": len(drv.out_log), "hook_idx": len(drv.hooks)}
        rec["decision"] = "hold"
        task = self.loop.create_task(f.wait_for_resume())
        pump(self.loop, 2)
        self.ctx.count("handoff")
        if task.done():
            # handle_hook would complete the hook right away: the intercepted flow is not held at all
            self.violate("intercepted-flow-not-held:wait_for_resume-returned-while-flow.intercepted", {"hook": hook.name, "tag": rec["tag"], "earlier_holds_of_flow": [h["rec"]["hook"] for h in self.holds if h["flow"] is f]})
            rec["decision"] = "pass"
            rec["final"] = rec["capture"]()
            f.intercepted = False
            return None
        action = "kill" if self.r.random() < self.user_kill else "resume"
        if self.force_action is not None and rec["tag"] is not None:
            action = self.force_action
        if self.force_action is None and rec["tag"] is not None and self.edit is not None and self.r.random() < 0.5 and rec.get("editable", True):
            action = "edit+" + action
        if rec.get("absent") is not None:
            self.ctx.count("frozen")
            if not rec["absent"]():
                self.violate("intercepted-message-already-at-its-destination", {"hook": hook.name, "tag": rec["tag"], "metric_at_intercept": rec["metric"]()}, classify(self.proto, "frozen", {"hook": hook.name}))
        h = {
            "rec": rec, "flow": f, "cmd": hook, "task": task, "status": "held", "step": drv.step_no, "baseline": rec["metric"](),
            "wait": self.r.choice([0, 0, 1, 2, 4, 8, 10**6, 10**6]), "forced": False, "action": action, "events": 0, "reported": False,
        }
        self.holds.append(h)
        drv.injected.append((f"user:{len(self.holds)}", lambda d, h=h: self.user(d, h), lambda d, h=h: self.user_ready(d, h)))
        return "hold"

    def after_kill_or_unplanned(self, drv):
        """Gate for trailing peer activity: open once some flow was killed, or if no idle kill is (still) planned."""
        return bool(self.kills) or not self.transit_pending

    def note_kill(self, drv, f, where, how, rec):
        extra = self.kill_state(drv, f, where) if self.kill_state else None
        self.kills.append({"flow": f, "hook": where, "how": how, "rec": rec, "step": drv.step_no, "out_idx": len(drv.out_log), "hook_idx": len(drv.hooks), "extra": extra})
        # a message whose hook was passed/resumed but whose completion has not been delivered yet is killed, too
        pend = {id(p.cmd) for p in drv.pending if p.kind == "hook"}
        for x in self.records:
            if x["flow"] is f and x is not rec and id(x["cmd"]) in pend and x["decision"] in ("hold:resume", "hold:edit+resume"):
                x["decision"] += "+killed-before-completion"

    # -- user side -----------------------------------------------------------------------------------------
    def pending_of(self, drv, h):
        for p in drv.pending:
            if p.cmd is h["cmd"]:
                return p
        return None

    def user_ready(self, drv, h):
        if h["status"] != "held":
            return False
        p = self.pending_of(drv, h)
        return p is not None and p.held and (h["forced"] or drv.step_no >= h["step"] + h["wait"])

    def user(self, drv, h):
        f, rec = h["flow"], h["rec"]
        a = h["action"]
        if a.startswith("edit+"):
            self.edit(rec)
        if a.endswith("kill") and f.killable:
            f.kill()
            self.note_kill(drv, f, rec["hook"], "user", rec)
        else:
            a = a.replace("kill", "resume")
            f.resume()
        h["action"] = a
        rec["user"] = a
        rec["decision"] = "hold:" + a
        self.acts.add((rec["hook"], "hold:" + a))
        pump(self.loop)
        rec["final"] = rec["capture"]()
        self.ctx.count("handoff")
        if not h["task"].done():
            self.violate(
                "hook-never-completes:wait_for_resume-still-blocked-after-" + ("kill" if a.endswith("kill") else "resume"),
                {"hook": rec["hook"], "action": a, "flow_error": f.error.msg if f.error else None, "intercepted": f.intercepted},
                classify(self.proto, "handoff", {"action": a}),
            )
            h["task"].cancel()
            pump(self.loop)
        if h["events"]:
            self.held_with_events += 1
            self.ctx.count("held_with_events")
        h["status"] = "released"
        p = self.pending_of(drv, h)
        if p is not None:
            drv.release(p)  # (continue as a repaired hand-off would, so that the layer's reaction is observed as well)
        return None

    def add_transit_kill(self, drv):
        if not self.transit_planned:
            return
        after = self.transit_after

        def gate(d):
            return (d.step_no >= after or self.transit_force) and any(f.killable and not f.intercepted for f in self.flows) and (self.transit_gate is None or self.transit_gate(d))

        def act(d):
            cands = [f for f in self.flows if f.killable and not f.intercepted]
            f = self.r.choice(cands)
            f.kill()
            self.transit_pending = False
            self.acts.add(("transit", "kill-idle" if self.transit_force else "kill"))
            self.note_kill(d, f, "transit", "user", None)
            return None

        drv.injected.append(("transit-kill", act, gate))

    # -- monitors ------------------------------------------------------------------------------------------
    def m3(self, drv):
        new_events = 0
        log = drv.log
        for i in range(self.log_pos, len(log)):
            e = log[i]
            if e[0] == "ev" and (e[2].startswith("DataReceived") or e[2].startswith("ConnectionClosed")):
                new_events += 1
        self.log_pos = len(log)
        for h in self.holds:
            if h["status"] != "held":
                continue
            h["events"] += new_events
            self.ctx.count("frozen")
            if h["task"].done() and not h["reported"]:
                h["reported"] = True
                self.violate("intercepted-flow-not-held:wait_for_resume-returned-before-resume-or-kill", {"hook": h["rec"]["hook"], "tag": h["rec"]["tag"]})
            cur = h["rec"]["metric"]()
            if cur != h["baseline"] and not h["reported"]:
                h["reported"] = True
                self.violate(
                    "destination-received-bytes-of-an-intercepted-message",
                    {"hook": h["rec"]["hook"], "tag": h["rec"]["tag"], "metric_at_intercept": h["baseline"], "metric_now": cur, "step": drv.step_no},
                    classify(self.proto, "frozen", {"hook": h["rec"]["hook"]}),
                )

    def violate(self, kind, witness, mechanism=None):
        self.violations.append((kind, witness, mechanism))

    def drive(self, d, quiescent=None):
        d.start()
        self.add_transit_kill(d)
        for phase in range(2):
            for _ in range(60):
                d.run()
                held = [h for h in self.holds if h["status"] == "held"]
                if not held:
                    if phase == 0 and self.transit_pending and not self.transit_force:
                        self.transit_force = True  # quiescent: the planned kill hits an idle layer, then the gated tails follow
                        continue
                    break
                if quiescent is not None and phase == 0:
                    quiescent(d, held)
                for h in held:
                    h["forced"] = True
            if phase == 0:
                d.injected[:] = [it for it in d.injected if it[0] != "transit-kill"]
                self.transit_pending = False
                self.pre_teardown = {"log": len(d.log), "states": {id(c): c.state for c in [d.client] + list(d.servers)}}
                d.teardown()
        for h in self.holds:
            if not h["task"].done():
                h["task"].cancel()
        pump(self.loop, 1)

    def events_after_kill(self, d, k, conns=None):
        """Connection events the layer got after the kill and before the harness tore the client down."""
        end = self.pre_teardown["log"] if self.pre_teardown else len(d.log)
        return [e[2] for e in d.log[:end] if e[0] == "ev" and e[1] > k["step"] and (e[2].startswith("DataReceived") or e[2].startswith("ConnectionClosed"))]

    def check_torn_down(self, d, k, conns, end_hooks=()):
        """Once the layer saw any further connection event after the kill, it has closed both sides itself (not left them to
        the peers / the harness)."""
        from mitmproxy.connection import ConnectionState

        if self.pre_teardown is None or not self.events_after_kill(d, k):
            return
        if any(e[0] == "cmd" and e[1] < k["step"] and e[2] in [f"Hook({n})" for n in end_hooks] for e in d.log):
            return  # the flow was already over when it was killed
        self.ctx.count("kill.torn_down")
        up = [type(c).__name__ for c in conns if c is not None and self.pre_teardown["states"].get(id(c), ConnectionState.CLOSED) is not ConnectionState.CLOSED]
        if up:
            self.violate(
                "connections-still-up-after-kill",
                {"killed_at": k["hook"], "how": k["how"], "still_open": up, "events_after_kill": self.events_after_kill(d, k)[:8], "state": k["extra"]},
                classify(self.proto, "kill.torn_down", k),
            )

    # -- generic kill clauses ------------------------------------------------------------------------------
    def check_kill_error(self, d, k, error_hooks, excused_by=(), ended_before=()):
        """flow.error set and an error hook for the flow fired after the kill (excused_by: a hook that excludes the error hook
        whenever it fires; ended_before: the flow's end hook had already fired when it was killed -- it was over)."""
        f = k["flow"]
        self.ctx.count("kill.error")
        names_after = [name for (step, name, hook, snap) in d.hooks[k["hook_idx"] :] if hook.args() and hook.args()[0] is f]
        names_all = [name for (step, name, hook, snap) in d.hooks if hook.args() and hook.args()[0] is f]
        # (single-flow layers only) the layer had already issued the flow's end hook when the kill came
        over = any(e[0] == "cmd" and e[1] < k["step"] and e[2] in [f"Hook({n})" for n in ended_before] for e in d.log)
        ok = f.error is not None and (any(n in error_hooks for n in names_after) or any(n in excused_by for n in names_all) or over)
        if not ok:
            self.violate(
                "killed-flow-did-not-end-with-an-error",
                {"killed_at": k["hook"], "how": k["how"], "flow_error": f.error.msg if f.error else None, "hooks_of_flow": names_all, "hooks_after_kill": names_after, "state": k["extra"]},
                classify(self.proto, "kill.error", k),
            )


class RecDriver(sansio.Driver):
    """Driver that also remembers every event it fed (step, event)."""

    def __init__(self, *a, **kw):
        super().__init__(*a, **kw)
        self.fed = []
        self.issued = []  # (step, StartHook) at the moment the layer yields it (the addons run later, when it is scheduled)

    def _command(self, cmd):
        from mitmproxy.proxy import commands as mcommands

        if isinstance(cmd, mcommands.StartHook):
            self.issued.append((self.step_no, cmd))
        super()._command(cmd)

    def feed(self, ev):
        self.fed.append((self.step_no, ev))
        super().feed(ev)


def classify(proto, kind, info):
    """Mechanism from the protocol and the history (where the flow was killed / what it was doing) -- never from seeds."""
    if kind == "handoff":
        if info["action"].endswith("kill"):
            return "kill-of-intercepted-flow-does-not-wake-wait-for-resume"
        return None
    if kind in ("kill.nothing", "kill.error"):
        where = info["hook"]
        st = info.get("extra") or {}
        if proto in ("tcp", "udp"):
            return f"{proto}-layer-ignores-kill"
        if proto == "ws" and (where in ("websocket_message", "transit") and st.get("ws_open", True)):
            return "websocket-layer-ignores-kill"
        if proto == "dns" and (where != "dns_request" or st.get("request_forwarded") or st.get("has_response")):
            return "dns-layer-honours-kill-only-in-dns_request-hook-of-a-fresh-flow"
        if proto in ("h1", "h2") and kind == "kill.nothing":
            if where == "request" and st.get("request_streamed"):
                return "http-kill-in-request-hook-of-streamed-request-ignored"
            if where == "transit":
                return "http-kill-in-transit-takes-effect-only-at-the-next-hook"
    return None


# --------------------------------------------------------------------------------------------------------------
# TCP / UDP
# --------------------------------------------------------------------------------------------------------------

def mk_msgs(r, prefix, n):
    out = []
    for k in range(n):
        tag = b"%s%d-%06x" % (prefix, k, r.getrandbits(24))
        pad = bytes(r.choice(b"abcdefgh0123") for _ in range(r.choice([0, 3, 20, 200])))
        out.append((tag, b"<" + tag + b":" + pad + b">"))
    return out


def run_stream_case(ctx, opts, loop, proto):
    r = ctx.rng
    udp = proto == "udp"
    cm = mk_msgs(r, b"c", r.randint(1, 4))
    sm = mk_msgs(r, b"s", r.randint(0, 3))
    sent = dict(cm + sm)
    msg_hook = "udp_message" if udp else "tcp_message"
    client = sansio.make_client("reverse:%s://example.com:7" % proto, transport=proto)

    def describe(drv, hook, f):
        if hook.name != msg_hook:
            return None
        m = f.messages[-1]
        mt = MSG.search(m.content)
        dest = drv.context.server if m.from_client else drv.client
        return {
            "tag": mt.group(1) if mt else None,
            "side": "server" if m.from_client else "client",
            "from_client": m.from_client,
            "msg": m,
            "orig": bytes(m.content),
            "metric": lambda: len(drv.out[dest]),
            "absent": (lambda: mt.group(1) not in bytes(drv.out[dest])) if mt else None,
            "capture": lambda: bytes(m.content),
        }

    def edit(rec):
        rec["msg"].content = b"<" + rec["tag"] + b":EDITED" + bytes(r.choice(b"XYZ") for _ in range(r.randint(0, 9))) + b">"

    S = Session(ctx, r, loop, proto, describe, edit, transit=0.25)
    S.start_kill = {("udp_start" if udp else "tcp_start"): 0.04}
    # trailing peer activity (half-close / disconnect from either side) waits for the planned idle kill, if there is one
    tail_gate = S.after_kill_or_unplanned
    ends = r.choice([(), (), ("client",), ("server",), ("client", "server")])

    def server_factory(drv, conn):
        segs = []
        for k, (tag, data) in enumerate(sm):
            need = r.choice([0, 0, 1, 30])
            segs.append((data, (lambda d, need=need: len(d.out[conn]) >= need)))
        if not udp and "server" in ends:
            need = r.choice([0, 1])
            segs.append((sansio.EOF, lambda d: len(d.out[conn]) >= need and tail_gate(d)))
        return sansio.ScriptPeer(segs)

    d = sansio.Driver(
        (lambda c: layers.UDPLayer(c)) if udp else (lambda c: layers.TCPLayer(c)),
        client=client, options=opts, rng=r, addons=[ctx.c11_intercept], policy=S.policy,
        server_factory=server_factory, schedule=r.choice(["random", "random", "fifo"]), m3=[S.m3], max_steps=600,
    )
    d.context.server = mconn.Server(address=("example.com", 7), transport_protocol=proto)
    segs = [data for _, data in cm]
    if "client" in ends:
        segs.append((sansio.EOF, tail_gate))
    d.attach_client_peer(sansio.ScriptPeer(segs))
    S.drive(d)
    return finish_stream_case(ctx, S, d, proto, sent, msg_hook)


def finish_stream_case(ctx, S, d, proto, sent, msg_hook):
    udp = proto == "udp"
    server = d.context.server
    first_kill = S.kills[0] if S.kills else None
    witness = {"proto": proto, "hooks": d.hook_names(), "records": [(x["hook"], x["tag"], x["decision"]) for x in S.records], "kills": [(k["hook"], k["how"]) for k in S.kills],
               "to_server": bytes(d.out[server]), "to_client": bytes(d.out[d.client])}
    # what the hooks saw is what the peers sent
    for rec in S.records:
        if rec["tag"] is not None and sent.get(rec["tag"]) != rec["orig"]:
            S.violate("hooked-message-differs-from-what-the-peer-sent", {**witness, "tag": rec["tag"], "recorded": rec["orig"]})
    # exactly once, with edits, in order -- for everything decided before the first kill
    for side, conn in (("server", server), ("client", d.client)):
        exp = []
        for rec in S.records:
            if rec["side"] != side:
                continue
            if first_kill is not None and rec["hook_idx"] >= first_kill["hook_idx"]:
                continue
            if rec["decision"] in ("pass", "hold:resume", "hold:edit+resume"):
                exp.append(rec["final"])
        if udp:
            got = [data for (step, c, data) in d.out_log if c is conn]
        else:
            got = [m.group(0) for m in MSG.finditer(bytes(d.out[conn]))]
        ctx.count("once", max(1, len(exp)))
        peer_closed = conn in d.closed_delivered and udp  # a datagram completed after the peer went away has nowhere to go
        n = min(len(got), len(exp))
        if peer_closed:
            bad = got[:n] != exp[:n] or (first_kill is None and len(got) > len(exp))
        elif first_kill is None:
            bad = got != exp
        else:
            bad = got[: len(exp)] != exp
        if bad:
            S.violate("destination-stream-differs-from-passed-and-resumed-messages", {**witness, "side": side, "expected": exp, "got": got, "cut_at_first_kill": first_kill is not None})
    for k in S.kills[:1]:
        ctx.count("kill.nothing")
        later = [(("server" if c is server else "client"), data) for (step, c, data) in d.out_log[k["out_idx"] :]]
        if later:
            S.violate("forwarded-after-kill", {**witness, "killed_at": k["hook"], "how": k["how"], "sent_after_kill": later[:6]}, classify(proto, "kill.nothing", k))
        S.check_kill_error(d, k, ("udp_error",) if udp else ("tcp_error",), ended_before=("udp_end",) if udp else ("tcp_end",))
        S.check_torn_down(d, k, [d.client, server], end_hooks=("udp_end",) if udp else ("tcp_end",))
    feats = ("eof" if any(e[2].startswith("ConnectionClosed") for e in d.log if e[0] == "ev") else "open",)
    return S, d, feats, witness


# --------------------------------------------------------------------------------------------------------------
# DNS
# --------------------------------------------------------------------------------------------------------------
QTAG = re.compile(rb"t\d+-[0-9a-f]{6}")


class DnsOrigin(sansio.Peer):
    """Reactive resolver: answers every datagram with one A record derived from the query (or stays silent)."""

    def __init__(self, silent_ids, addr_of):
        super().__init__()
        self.silent_ids = silent_ids
        self.addr_of = addr_of
        self.queries = []

    def on_data(self, data):
        q = wire.dns_read(data)
        self.queries.append(q)
        if q is None or q["id"] in self.silent_ids:
            return
        self.send(wire.dns_answer(q["id"], q["qname"], self.addr_of(q["id"])))


def run_dns_case(ctx, opts, loop, proto):
    r = ctx.rng
    n = r.randint(1, 4)
    ids = r.sample(range(1, 65000), n)
    queries = []
    for k, qid in enumerate(ids):
        tag = b"t%d-%06x" % (k, r.getrandbits(24))
        queries.append((qid, tag, tag + b".example.com"))
    by_id = {qid: (tag, name) for qid, tag, name in queries}
    silent = {qid for qid in ids if r.random() < 0.1}
    addr_of = lambda qid: bytes([10, 9, qid >> 8, qid & 255])
    client = sansio.make_client("dns", transport="udp")

    def count_to(drv, conn, qid, answers_only=False):
        c = 0
        for step, cn, data in drv.out_log:
            if cn is conn:
                m = wire.dns_read(data)
                if m is not None and m["id"] == qid and not (answers_only and m["rcode"] != 0):
                    c += 1
        return c

    def describe(drv, hook, f):
        if hook.name == "dns_request":
            q = f.request.questions[0]
            first = not any(x["hook"] == "dns_request" and x["qid"] == f.request.id for x in S.records)
            return {"tag": by_id.get(f.request.id, (None,))[0], "side": "server", "qid": f.request.id, "metric": lambda: count_to(drv, drv.context.server, f.request.id),
                    "absent": (lambda: count_to(drv, drv.context.server, f.request.id) == 0) if first else None,
                    "capture": lambda: f.request.questions[0].name.encode()}
        if hook.name == "dns_response":
            first = not any(x["hook"] == "dns_response" and x["qid"] == f.request.id for x in S.records)
            return {"tag": by_id.get(f.request.id, (None,))[0], "side": "client", "qid": f.request.id, "metric": lambda: count_to(drv, drv.client, f.request.id),
                    "absent": (lambda: count_to(drv, drv.client, f.request.id, answers_only=True) == 0) if first else None,
                    "capture": lambda: (f.response.answers[0].data if f.response and f.response.answers else None),
                    "editable": bool(f.response and f.response.answers)}
        return None

    def edit(rec):
        f = rec["flow"]
        if rec["hook"] == "dns_request":
            f.request.questions[0].name = "edited." + f.request.questions[0].name
        else:
            f.response.answers[0].data = bytes([127, 0, 0, r.randint(1, 250)])

    S = Session(ctx, r, loop, "dns", describe, edit, transit=0.25)
    S.kill_state = lambda d, f, where: {"request_forwarded": count_to(d, d.context.server, f.request.id) > 0, "has_response": f.response is not None}
    origin = DnsOrigin(silent, addr_of)
    d = RecDriver(
        lambda c: layers.DNSLayer(c), client=client, options=opts, rng=r, addons=[ctx.c11_intercept], policy=S.policy,
        server_factory=lambda drv, conn: origin, schedule=r.choice(["random", "random", "fifo"]), m3=[S.m3], max_steps=600,
    )
    d.context.server = mconn.Server(address=("192.0.2.53", 53), transport_protocol="udp")
    segs = [wire.dns_query(qid, name) for qid, tag, name in queries]
    if r.random() < 0.15:
        segs.append(segs[0])  # retransmission of the first query (same id -> same flow, queried again)
    if S.transit_planned and r.random() < 0.5:
        # the client re-asks (any of its queries) after the planned idle kill: a killed flow must not be revived by it
        segs.append((r.choice(segs[:n]), S.after_kill_or_unplanned))
    d.attach_client_peer(sansio.ScriptPeer(segs))
    S.drive(d)

    server = d.context.server
    to_server = [wire.dns_read(data) for (step, c, data) in d.out_log if c is server]
    to_client = [wire.dns_read(data) for (step, c, data) in d.out_log if c is d.client]
    witness = {"proto": "dns", "hooks": d.hook_names(), "records": [(x["hook"], x["tag"], x["decision"]) for x in S.records], "kills": [(k["hook"], k["how"]) for k in S.kills],
               "to_server": to_server, "to_client": to_client, "retransmit": len(segs) > n}
    killed_flows = {}  # by flow object: the layer starts a NEW flow when a client reuses the id of an answered query
    for k in S.kills:
        killed_flows.setdefault(id(k["flow"]), k)
    for rec in S.records:
        qid = rec["qid"]
        if rec["decision"] not in ("pass", "hold:resume", "hold:edit+resume"):
            continue
        k = killed_flows.get(id(rec["flow"]))
        if k is not None and k["hook_idx"] <= rec["hook_idx"]:
            continue
        ctx.count("once")
        if rec["hook"] == "dns_request":
            got = [m for m in to_server if m and m["id"] == qid and m["qname"] == rec["final"]]
            n_hooks = sum(1 for x in S.records if x["hook"] == "dns_request" and x["qid"] == qid and x["final"] == rec["final"] and x["decision"] == rec["decision"])
            if len(got) != n_hooks and server not in d.closed_delivered:
                S.violate("query-not-delivered-exactly-once", {**witness, "id": qid, "final_name": rec["final"], "delivered": len(got), "expected": n_hooks})
        else:
            if rec["final"] is None:
                continue
            got = [m for m in to_client if m and m["id"] == qid and m["qr"] == 1 and m["rdata"] == rec["final"]]
            n_hooks = sum(1 for x in S.records if x["hook"] == "dns_response" and x["qid"] == qid and x["final"] == rec["final"])
            if len(got) != n_hooks and d.client not in d.closed_delivered:
                S.violate("response-not-delivered-exactly-once", {**witness, "id": qid, "final_rdata": rec["final"], "delivered": len(got), "expected": n_hooks})
    for k in killed_flows.values():
        qid = k["flow"].request.id
        # The layer starts a NEW flow when a client re-uses the id of an answered query. If that had happened before the kill
        # (the newer flow's first hook had been issued -- its addons may run later), the killed flow is an answered, replaced
        # one: nothing of it is left to forward or to end, and the id's later traffic belongs to the newer flow.
        first_issue = {}
        for step, cmd in d.issued:
            a = cmd.args()
            if a and isinstance(a[0], mflow.Flow):
                first_issue.setdefault(id(a[0]), step)
        mine = first_issue.get(id(k["flow"]), -1)
        if any(x["qid"] == qid and x["flow"] is not k["flow"] and mine < first_issue.get(id(x["flow"]), 10**9) < k["step"] for x in S.records):
            ctx.count("kill.stale_flow")
            continue
        ctx.count("kill.nothing")
        later = []
        for step, c, data in d.out_log[k["out_idx"] :]:
            m = wire.dns_read(data)
            if m is None or m["id"] != qid:
                continue
            if c is server or (m["qr"] == 1 and m["rcode"] == 0):
                later.append(("server" if c is server else "client", m))
        if later:
            S.violate("forwarded-after-kill", {**witness, "id": qid, "killed_at": k["hook"], "how": k["how"], "sent_after_kill": later[:4], "state": k["extra"]}, classify("dns", "kill.nothing", k))
        if k["hook"] == "transit":
            # without a further datagram for this id the layer never runs for the flow again (nothing to forward, nothing to end)
            from mitmproxy.proxy import events as mevents

            again = any(step > k["step"] and isinstance(ev, mevents.DataReceived) and (wire.dns_read(ev.data) or {}).get("id") == qid for step, ev in d.fed)
            if not again:
                continue
        S.check_kill_error(d, k, ("dns_error",))
    return S, d, ("retransmit" if len(segs) > n else "plain", "silent" if silent else "answered"), witness


# --------------------------------------------------------------------------------------------------------------
# HTTP/1
# --------------------------------------------------------------------------------------------------------------
HTAG = re.compile(rb"t\d+-[0-9a-f]{6}")
HTTP_HOOKS = ("requestheaders", "request", "responseheaders", "response")


def http_tag(f):
    m = HTAG.search(f.request.path.encode("latin-1", "replace"))
    return m.group(0) if m else None


def http_flow_hooks(drv, f):
    return [name for (step, name, hook, snap) in drv.hooks if hook.args() and hook.args()[0] is f]


def http_kill_state(drv, f, where):
    fired = http_flow_hooks(drv, f)
    pend = [p.cmd.name for p in drv.pending if p.kind == "hook" and p.cmd.args() and p.cmd.args()[0] is f]
    rs = bool(f.request.stream)
    ps = bool(f.response is not None and f.response.stream)
    return {
        "request_streamed": rs,
        "response_streamed": ps,
        "hooks_fired": fired,
        "hooks_pending": pend,
        "streaming_request_body": rs and "requestheaders" in fired and "request" not in fired and "requestheaders" not in pend,
        "streaming_response_body": ps and "responseheaders" in fired and "response" not in fired and "responseheaders" not in pend,
    }


def http_describe_factory(r, to_server_metric, to_client_metric, p_stream, has_body, absent_at):
    def describe(drv, hook, f):
        if hook.name not in HTTP_HOOKS or not isinstance(f, http.HTTPFlow):
            return None
        req_side = hook.name in ("requestheaders", "request")
        tag = http_tag(f)
        if hook.name == "requestheaders" and has_body(tag):
            if r.random() < p_stream and f.response is None:
                f.request.stream = True
        if hook.name == "responseheaders" and f.response is not None and r.random() < p_stream:
            f.response.stream = True
        msg = (lambda: f.request) if req_side else (lambda: f.response)
        streamed = bool(msg() is not None and msg().stream)

        def capture():
            m = msg()
            if m is None:
                return None
            return (None if m.stream else bytes(m.raw_content or b""), m.headers.get("x-edit"))

        return {
            "tag": tag, "side": "server" if req_side else "client", "streamed": streamed,
            "metric": (lambda: to_server_metric(drv, tag)) if req_side else (lambda: to_client_metric(drv, tag)),
            "capture": capture,
            "absent": (lambda: absent_at(drv, tag, req_side)) if tag is not None and not (hook.name in ("request", "response") and streamed) else None,
            "editable": msg() is not None and not (hook.name in ("request", "response") and streamed),
        }

    return describe


def http_edit_factory(r):
    def edit(rec):
        f = rec["flow"]
        m = f.request if rec["side"] == "server" else f.response
        m.headers["x-edit"] = "%s-%d" % (rec["hook"], r.randint(0, 999))
        if rec["hook"] in ("request", "response") and not m.stream:
            nobody = rec["hook"] == "response" and (f.request.method.upper() == "HEAD" or m.status_code in (204, 304))
            if not nobody:
                m.content = b"EDITED:" + (rec["tag"] or b"") + b":" + bytes(r.choice(b"UVW") for _ in range(r.randint(0, 40)))

    return edit


def run_h1_case(ctx, opts, loop, proto):
    import random as _random

    from vf import h1case, peers
    from vf.gen import h1 as gen
    from vf.ref import http1 as ref

    r = ctx.rng
    mode = r.choice(h1case.MODES)
    gmode = "regular" if mode == "regular" else "origin"
    n = r.choice([1, 1, 2, 3])
    reqs = [gen.gen_request(r, k, mode=gmode, force_valid=True, allow_expect=False) for k in range(n)]
    by_tag = {q["tag"]: q for q in reqs}
    salt = r.getrandbits(32)
    resp_by_tag = {}

    def responder(k, msg, peer):
        m = HTAG.search(msg["target"])
        tag = m.group(0) if m else b"unknown"
        rs = gen.gen_response(_random.Random(f"{salt}/{tag!r}"), tag, msg["method"], hostile_p=0.0, allow_extra_after=False)
        resp_by_tag[tag] = rs
        return rs["raw"], rs["close_after"]

    to_server = lambda drv, tag: sum(len(drv.out[c]) for c in drv.servers)
    to_client = lambda drv, tag: len(drv.out[drv.client])
    S = Session(ctx, r, loop, "h1", http_describe_factory(r, to_server, to_client, 0.3, lambda tag: tag in by_tag and by_tag[tag]["framing"] != "none",
                                                          lambda drv, tag, req_side: all(tag not in bytes(drv.out[c]) for c in (drv.servers if req_side else [drv.client]))), http_edit_factory(r), p_intercept=0.25, p_kill=0.05, transit=0.2)
    S.kill_state = http_kill_state
    client = sansio.make_client(mode)
    d = sansio.Driver(
        h1case.top_factory(mode), client=client, options=opts, rng=r, addons=[h1case.ForceHttp(), ctx.c11_intercept], policy=S.policy,
        server_factory=lambda drv, conn: peers.H1ServerPeer(responder, r, r.choice(["whole", "random", "random", "bytes"])),
        schedule=r.choice(["random", "random", "fifo"]), m3=[S.m3], max_steps=4000,
    )
    if mode == "transparent":
        d.context.server.address = ("example.com", 80)
    stream = b"".join(q["raw"] for q in reqs)
    segs = peers.cut(stream, r, r.choice(["whole", "random", "random", "bytes"] if len(stream) < 1500 else ["whole", "random"]))
    d.attach_client_peer(sansio.ScriptPeer(segs))
    S.drive(d)

    witness = {"proto": "h1", "mode": mode, "client_stream": stream[:600], "hooks": d.hook_names(), "records": [(x["hook"], x["tag"], x["decision"], x.get("streamed")) for x in S.records],
               "kills": [(k["hook"], k["how"]) for k in S.kills], "exceptions": [e[:3] for e in d.exceptions]}
    up_msgs = []
    for conn in d.servers:
        status, msgs, rest = ref.parse_requests(bytes(d.out[conn]))
        up_msgs += msgs
    status, down_msgs, rest = ref.parse_responses(bytes(d.out[client]), [q["method"] for q in reqs], eof=True)
    killed_flows = {id(k["flow"]) for k in S.kills}
    flows = {}
    for rec in S.records:
        flows.setdefault(rec["tag"], []).append(rec)
    ok_dec = ("pass", "hold:resume", "hold:edit+resume")
    for tag, recs in flows.items():
        if tag is None or tag not in by_tag:
            continue
        f = recs[0]["flow"]
        ups = [m for m in up_msgs if tag in m["target"]]
        downs = [m for m in down_msgs if dict(m["headers"]).get("x-tag") == tag]
        ctx.count("once")
        if len(ups) > 1 or len(downs) > 1:
            S.violate("message-delivered-more-than-once", {**witness, "tag": tag, "upstream_copies": len(ups), "client_copies": len(downs)})
            continue
        by_hook = {x["hook"]: x for x in recs}
        complete = id(f) not in killed_flows and f.error is None and all(h in by_hook and by_hook[h]["decision"] in ok_dec for h in HTTP_HOOKS)
        if not complete:
            continue
        if len(ups) != 1 or len(downs) != 1:
            S.violate("resumed-message-not-delivered", {**witness, "tag": tag, "upstream_copies": len(ups), "client_copies": len(downs), "to_client": bytes(d.out[client])[-600:]})
            continue
        for side, got, hh, hb, orig_body in (("server", ups[0], "requestheaders", "request", by_tag[tag]["body"]), ("client", downs[0], "responseheaders", "response", resp_by_tag[tag]["body"] if tag in resp_by_tag else None)):
            body_final, xe = by_hook[hb]["final"]
            if by_hook[hb].get("streamed"):
                xe = by_hook[hh]["final"][1]
                exp_body = orig_body
            else:
                exp_body = body_final
            got_xe = dict(got["headers"]).get("x-edit")
            got_xe = got_xe.decode() if got_xe is not None else None
            if got["body"] != exp_body or got_xe != xe:
                S.violate("delivered-message-lacks-the-users-edit", {**witness, "tag": tag, "side": side, "expected_body": exp_body, "got_body": got["body"], "expected_x_edit": xe, "got_x_edit": got_xe})
    for k in S.kills[:1]:
        ctx.count("kill.nothing")
        later = [(("client" if c is client else "server"), data[:80]) for (step, c, data) in d.out_log[k["out_idx"] :]]
        if later:
            S.violate("forwarded-after-kill", {**witness, "killed_at": k["hook"], "how": k["how"], "sent_after_kill": later[:6], "state": k["extra"]}, classify("h1", "kill.nothing", k))
        S.check_kill_error(d, k, ("error",), excused_by=("response",))
    feats = (mode.split(":")[0], "rs" if any(x.get("streamed") and x["side"] == "server" for x in S.records) else "", "ps" if any(x.get("streamed") and x["side"] == "client" for x in S.records) else "", n)
    return S, d, feats, witness


# --------------------------------------------------------------------------------------------------------------
# HTTP/2 (multiplexed: 2-4 concurrent streams, h2 upstream)
# --------------------------------------------------------------------------------------------------------------

def run_h2_case(ctx, opts, loop, proto):
    from vf import h1case, peers_h2

    r = ctx.rng
    n = r.choice([2, 2, 3, 4])
    streams = {}
    per_stream = []
    for k in range(n):
        tag = b"t%d-%06x" % (k, r.getrandbits(24))
        body = b"" if r.random() < 0.35 else b"b:" + tag + b":" + bytes(r.choice(b"abcxyz012") for _ in range(r.choice([1, 10, 300, 3000])))
        method = r.choice([b"POST", b"PUT"]) if body else r.choice([b"GET", b"GET", b"DELETE"])
        hdrs = [(b":method", method), (b":scheme", b"http"), (b":authority", b"example.com"), (b":path", b"/" + tag), (b"x-req", tag)]
        acts = [("headers", tag, hdrs, not body)]
        if body:
            k_parts = r.choice([1, 1, 2, 3])
            cuts = sorted(r.sample(range(1, len(body)), min(k_parts - 1, len(body) - 1))) if k_parts > 1 else []
            parts = [body[a:b] for a, b in zip([0] + cuts, cuts + [len(body)])]
            for j, part in enumerate(parts):
                acts.append(("data", tag, part, j == len(parts) - 1))
        rbody = b"" if r.random() < 0.2 else b"r:" + tag + b":" + bytes(r.choice(b"klmnop789") for _ in range(r.choice([1, 10, 300, 3000])))
        streams[tag] = {"body": body, "rbody": rbody, "method": method}
        per_stream.append(acts)
    # interleave the streams' actions, keeping each stream's own order
    actions = []
    idx = [0] * n
    while any(idx[k] < len(per_stream[k]) for k in range(n)):
        k = r.choice([k for k in range(n) if idx[k] < len(per_stream[k])])
        actions.append(per_stream[k][idx[k]])
        idx[k] += 1
        if r.random() < 0.15:
            actions.append(("ping",))  # connection-level frames between / after the streams' frames (also after a kill)
    client_reset = None
    if r.random() < 0.15:
        # the client cancels one of its (completely sent) requests later on -- possibly after that flow was killed
        client_reset = r.choice(list(streams))
        last = max(i for i, a in enumerate(actions) if len(a) > 1 and a[1] == client_reset)
        actions.insert(r.randint(last + 1, len(actions)), ("rst", client_reset, 8))

    origins = []

    def responder(peer, sid, rec):
        path = dict(rec["headers"] or []).get(b":path", b"")
        m = HTAG.search(path)
        tag = m.group(0) if m else None
        st = streams.get(tag)
        if st is None:
            return [("headers", [(b":status", b"404")], True)]
        rb = st["rbody"]
        out = [("headers", [(b":status", b"200"), (b"x-tag", tag)], not rb)]
        if rb:
            half = len(rb) // 2
            if half and r.random() < 0.5:
                out += [("data", rb[:half], False), ("data", rb[half:], True)]
            else:
                out.append(("data", rb, True))
        return out

    def server_recs(tag):
        out = []
        for o in origins:
            for sid, rec in o.streams.items():
                if rec["headers"] is not None and tag is not None and tag in dict(rec["headers"]).get(b":path", b""):
                    out.append(rec)
        return out

    def to_server(drv, tag):
        return tuple((len(peers_h2.body_of(x)), len(x["chunks"]), x["ended"], x["trailers"] is not None) for x in server_recs(tag))

    def to_client(drv, tag):
        x = cpeer.by_key.get(tag)
        if x is None:
            return (False, 0, 0, False, False)
        return (x["headers"] is not None, len(peers_h2.body_of(x)), len(x["chunks"]), x["ended"], x["trailers"] is not None)

    S = Session(ctx, r, loop, "h2", http_describe_factory(r, to_server, to_client, 0.3, lambda tag: tag in streams and bool(streams[tag]["body"]),
                                                          lambda drv, tag, req_side: (to_server(drv, tag) == ()) if req_side else (to_client(drv, tag) == (False, 0, 0, False, False))), http_edit_factory(r), p_intercept=0.25, p_kill=0.04, transit=0.15)

    def kill_state(drv, f, where):
        st = http_kill_state(drv, f, where)
        tag = http_tag(f)
        st.update(to_server=to_server(drv, tag), to_client=to_client(drv, tag))
        return st

    S.kill_state = kill_state
    client = sansio.make_client("regular")
    client.alpn = b"h2"

    def server_factory(drv, conn):
        conn.alpn = b"h2"
        o = peers_h2.H2ServerPeer(responder, r, out_cut=r.choice(["whole", "random"]))
        origins.append(o)
        return o

    cpeer = peers_h2.H2ClientPeer(actions, r, cut=r.choice(["whole", "random", "fine"]))
    d = sansio.Driver(
        h1case.top_factory("regular"), client=client, options=opts, rng=r, addons=[h1case.ForceHttp(), ctx.c11_intercept], policy=S.policy,
        server_factory=server_factory, schedule=r.choice(["random", "random", "fifo"]), m3=[S.m3], max_steps=4000,
    )
    d.attach_client_peer(cpeer)

    blocked = []

    def quiescent(drv, held):
        held_tags = {h["rec"]["tag"] for h in held}
        killed_tags = {http_tag(k["flow"]) for k in S.kills}
        for tag in streams:
            if tag in held_tags or tag in killed_tags or tag == client_reset:
                continue
            ctx.count("progress")
            x = cpeer.by_key.get(tag)
            if x is None or not (x["ended"] or x["reset"] is not None):
                blocked.append(tag)
                S.violate("stream-makes-no-progress-while-another-stream-is-intercepted",
                          {"blocked_stream": tag, "held": [(h["rec"]["tag"], h["rec"]["hook"]) for h in held], "client_saw": None if x is None else x["events"], "hooks_of_blocked": [name for (st, name, hook, sn) in drv.hooks if hook.args() and isinstance(hook.args()[0], http.HTTPFlow) and http_tag(hook.args()[0]) == tag]})

    S.drive(d, quiescent)

    witness = {"proto": "h2", "streams": {t.decode(): (len(v["body"]), len(v["rbody"])) for t, v in streams.items()}, "hooks": d.hook_names()[:80], "records": [(x["hook"], x["tag"], x["decision"], x.get("streamed")) for x in S.records],
               "kills": [(k["hook"], k["how"], http_tag(k["flow"])) for k in S.kills], "exceptions": [e[:3] for e in d.exceptions], "script_errors": cpeer.script_errors, "peer_protocol_errors": cpeer.protocol_errors + [e for o in origins for e in o.protocol_errors]}
    if cpeer.script_errors:
        raise RuntimeError(f"h2 client script illegal: {cpeer.script_errors}")
    if witness["peer_protocol_errors"]:
        S.violate("h2-library-rejected-bytes-written-by-the-proxy", witness)
    killed = {}
    for k in S.kills:
        killed.setdefault(id(k["flow"]), k)
    flows = {}
    for rec in S.records:
        flows.setdefault(rec["tag"], []).append(rec)
    ok_dec = ("pass", "hold:resume", "hold:edit+resume")
    for tag, recs in flows.items():
        if tag not in streams:
            continue
        f = recs[0]["flow"]
        ups = server_recs(tag)
        down = cpeer.by_key.get(tag)
        ctx.count("once")
        if len(ups) > 1:
            S.violate("message-delivered-more-than-once", {**witness, "tag": tag, "upstream_copies": len(ups)})
            continue
        by_hook = {x["hook"]: x for x in recs}
        complete = id(f) not in killed and f.error is None and all(h in by_hook and by_hook[h]["decision"] in ok_dec for h in HTTP_HOOKS)
        if not complete or tag == client_reset:  # (a request the client itself cancelled is owed no delivery; only "at most once" above)
            continue
        if len(ups) != 1 or not ups[0]["ended"] or down is None or down["headers"] is None or not down["ended"]:
            S.violate("resumed-message-not-delivered", {**witness, "tag": tag, "upstream": [u["events"] for u in ups], "client_saw": down and down["events"]})
            continue
        for side, got, hh, hb, orig_body in (("server", ups[0], "requestheaders", "request", streams[tag]["body"]), ("client", down, "responseheaders", "response", streams[tag]["rbody"])):
            body_final, xe = by_hook[hb]["final"]
            if by_hook[hb].get("streamed"):
                xe = by_hook[hh]["final"][1]
                exp_body = orig_body
            else:
                exp_body = body_final
            got_xe = dict(got["headers"]).get(b"x-edit")
            got_xe = got_xe.decode() if got_xe is not None else None
            if peers_h2.body_of(got) != exp_body or got_xe != xe:
                S.violate("delivered-message-lacks-the-users-edit", {**witness, "tag": tag, "side": side, "expected_body": exp_body, "got_body": peers_h2.body_of(got), "expected_x_edit": xe, "got_x_edit": got_xe})
    for k in killed.values():
        ctx.count("kill.nothing")
        tag = http_tag(k["flow"])
        st = k["extra"]
        now = {"to_server": to_server(d, tag), "to_client": to_client(d, tag)}
        if now["to_server"] != st["to_server"] or now["to_client"] != st["to_client"]:
            S.violate("forwarded-after-kill", {**witness, "tag": tag, "killed_at": k["hook"], "how": k["how"], "at_kill": {"to_server": st["to_server"], "to_client": st["to_client"]}, "at_end": now, "state": {a: b for a, b in st.items() if a not in ("to_server", "to_client")}}, classify("h2", "kill.nothing", k))
        S.check_kill_error(d, k, ("error",), excused_by=("response",))
    feats = (n, "rs" if any(x.get("streamed") and x["side"] == "server" for x in S.records) else "", "ps" if any(x.get("streamed") and x["side"] == "client" for x in S.records) else "", len(origins), "crst" if client_reset else "")
    return S, d, feats, witness


# --------------------------------------------------------------------------------------------------------------
# WebSocket (HTTP/1 upgrade through the real HttpLayer)
# --------------------------------------------------------------------------------------------------------------

def ws_data(stream: bytes):
    """Decoded data messages / frame statistics of the WebSocket part of a byte stream that starts with an HTTP head."""
    i = stream.find(b"\r\n\r\n")
    if i < 0:
        return [], (0, 0), []
    frames, rest = wire.ws_decode(stream[i + 4 :])
    msgs, ctrl, partial = wire.ws_messages(frames)
    nd = sum(1 for fr in frames if fr[1] < 8)
    nb = sum(len(fr[3]) for fr in frames if fr[1] < 8)
    return msgs, (nd, nb), ctrl


def ws_frames(stream: bytes):
    """All complete WebSocket frames [(fin, opcode, masked, payload)] after the HTTP head."""
    i = stream.find(b"\r\n\r\n")
    return wire.ws_decode(stream[i + 4 :])[0] if i >= 0 else []


class WsOrigin(sansio.Peer):
    def __init__(self, frames, r):
        super().__init__()
        self.frames = frames
        self.upgraded = False

    def on_data(self, data):
        if not self.upgraded and b"\r\n\r\n" in self.received:
            self.upgraded = True
            self.send(b"HTTP/1.1 101 Switching Protocols\r\nUpgrade: websocket\r\nConnection: Upgrade\r\nSec-WebSocket-Accept: s3pPLMBiTxaQ9kYGzzhZRbK+xOo=\r\n\r\n")
            for fr, need in self.frames:
                gate = need if callable(need) else (lambda d, need=need: ws_data(bytes(self.received))[1][0] >= need)
                if fr is sansio.EOF:
                    self.close(gate)
                else:
                    self.send(fr, gate)


def ws_frames_for(r, msgs, masked):
    """[(frame bytes, tag)] : each message as 1-3 frames, text or binary."""
    out = []
    for tag, data in msgs:
        op = r.choice([wire.OP_TEXT, wire.OP_BIN])
        k = r.choice([1, 1, 2, 3]) if len(data) >= 3 else 1
        cuts = sorted(r.sample(range(1, len(data)), k - 1)) if k > 1 else []
        parts = [data[a:b] for a, b in zip([0] + cuts, cuts + [len(data)])]
        for j, part in enumerate(parts):
            mask = bytes(r.getrandbits(8) for _ in range(4)) if masked else None
            out.append(wire.ws_frame(op if j == 0 else wire.OP_CONT, part, fin=(j == len(parts) - 1), mask=mask))
        if r.random() < 0.3:
            out.append(ws_control(r, tag, masked))
    return out


def ws_control(r, tag, masked, kinds=(wire.OP_PING, wire.OP_PING, wire.OP_PONG)):
    """A ping or an unsolicited pong whose payload carries a tag (so a relayed copy is recognisable)."""
    return wire.ws_frame(r.choice(kinds), b"K:" + tag, mask=bytes(r.getrandbits(8) for _ in range(4)) if masked else None)


def run_ws_case(ctx, opts, loop, proto):
    from vf import h1case, peers

    r = ctx.rng
    cm = mk_msgs(r, b"c", r.randint(1, 4))
    sm = mk_msgs(r, b"s", r.randint(0, 3))
    sent = dict(cm + sm)
    client = sansio.make_client("regular")
    handshake = (b"GET http://example.com/ws-%06x HTTP/1.1\r\nHost: example.com\r\nConnection: Upgrade\r\nUpgrade: websocket\r\n"
                 b"Sec-WebSocket-Version: 13\r\nSec-WebSocket-Key: dGhlIHNhbXBsZSBub25jZQ==\r\n\r\n" % r.getrandbits(24))

    def describe(drv, hook, f):
        if hook.name != "websocket_message":
            return None
        m = f.websocket.messages[-1]
        mt = MSG.search(m.content)
        dest = f.server_conn if m.from_client else drv.client
        return {
            "tag": mt.group(1) if mt else None, "side": "server" if m.from_client else "client", "msg": m, "orig": bytes(m.content),
            "metric": lambda: ws_data(bytes(drv.out[dest]))[1], "capture": lambda: (bytes(m.content), bool(m.dropped)),
            "absent": (lambda: not any(mt.group(1) in payload for op, payload in ws_data(bytes(drv.out[dest]))[0])) if mt else None,
        }

    def edit(rec):
        if r.random() < 0.3 and len(rec["orig"]) >= len(rec["tag"]) + 7:
            # same byte length as the original, filled with 2-4 byte characters (fragment boundaries fall inside characters)
            ch = WS_CHARS[r.choice([2, 3, 4])]
            room = len(rec["orig"]) - len(rec["tag"]) - 3
            body = b"e" * r.randrange(len(ch)) + ch * (room // len(ch))
            rec["msg"].content = b"<" + rec["tag"] + b":" + (body + b"e" * room)[:len(body)] + b"e" * (room - len(body)) + b">" if len(body) <= room else rec["orig"]
            return
        rec["msg"].content = b"<" + rec["tag"] + b":EDITED" + bytes(r.choice(b"XYZ") for _ in range(r.choice([0, 5, 9, 5000]))) + b">"

    S = Session(ctx, r, loop, "ws", describe, edit, transit=0.3)
    # the idle kill may come any time once the WebSocket layer is up: before the first message, between messages, after the last
    S.transit_gate = lambda d: any(h[1] == "websocket_start" for h in d.hooks)
    S.start_kill = {"websocket_start": 0.06}

    def kill_state(drv, f, where):
        srv = f.server_conn
        return {"ws_open": f.websocket is not None and f.websocket.timestamp_end is None, "data_to_server": ws_data(bytes(drv.out[srv]))[1] if srv in drv.out else (0, 0), "data_to_client": ws_data(bytes(drv.out[drv.client]))[1],
                "frames_to_server": len(ws_frames(bytes(drv.out[srv]))) if srv in drv.out else 0, "frames_to_client": len(ws_frames(bytes(drv.out[drv.client])))}

    S.kill_state = kill_state
    sframes = [(fr, r.choice([0, 0, 1, 2])) for fr in ws_frames_for(r, sm, False)]
    # tails: what the peers do once the planned idle kill has happened (or right away if none is planned): control frames
    # with recognisable payloads, then possibly a close with an application code + reason, or a plain disconnect
    tail_gate = S.after_kill_or_unplanned
    ctail = [ws_control(r, b"ct%d-%06x" % (j, r.getrandbits(24)), True) for j in range(r.choice([0, 0, 1, 2]))]
    stail = [ws_control(r, b"st%d-%06x" % (j, r.getrandbits(24)), False) for j in range(r.choice([0, 0, 1, 2]))]
    end = r.choice(["none", "none", "client-close", "server-close", "client-eof", "server-eof"])
    close_code = r.choice([1000, 1001, 4000 + r.randrange(1000)])
    close_payload = close_code.to_bytes(2, "big") + b"bye-%06x" % r.getrandbits(24)
    for fr in stail:
        sframes.append((fr, tail_gate))
    if end == "server-close":
        sframes.append((wire.ws_frame(wire.OP_CLOSE, close_payload), lambda dd: tail_gate(dd) and ws_data(bytes(origin.received))[1][0] >= r_need))
    elif end == "server-eof":
        sframes.append((sansio.EOF, tail_gate))
    r_need = r.choice([0, len(cm)])
    origin = WsOrigin(sframes, r)
    d = sansio.Driver(
        h1case.top_factory("regular"), client=client, options=opts, rng=r, addons=[h1case.ForceHttp(), ctx.c11_intercept], policy=S.policy,
        server_factory=lambda drv, conn: origin, schedule=r.choice(["random", "random", "fifo"]), m3=[S.m3], max_steps=1500,
    )
    up = lambda dd: b"\r\n\r\n" in dd.out[client]
    segs = list(peers.cut(handshake, r, r.choice(["whole", "random"])))
    cstream = b"".join(ws_frames_for(r, cm, True))
    segs += [(sg, up) for sg in peers.cut(cstream, r, r.choice(["whole", "random", "random"]))]
    up_tail = lambda dd: up(dd) and tail_gate(dd)
    ctail_stream = b"".join(ctail)
    if end == "client-close":
        ctail_stream += wire.ws_frame(wire.OP_CLOSE, close_payload, mask=b"\x01\x02\x03\x04")
    segs += [(sg, up_tail) for sg in peers.cut(ctail_stream, r, r.choice(["whole", "whole", "random"]))]
    if end == "client-eof":
        segs.append((sansio.EOF, up_tail))
    d.attach_client_peer(sansio.ScriptPeer(segs))
    S.drive(d)

    server = d.servers[0] if d.servers else None
    outs = {"server": bytes(d.out[server]) if server is not None else b"", "client": bytes(d.out[client])}
    first_kill = S.kills[0] if S.kills else None
    witness = {"proto": "ws", "end": end, "hooks": d.hook_names(), "records": [(x["hook"], x["tag"], x["decision"]) for x in S.records], "kills": [(k["hook"], k["how"]) for k in S.kills],
               "exceptions": [e[:3] for e in d.exceptions]}
    for rec in S.records:
        if rec["tag"] is not None and sent.get(rec["tag"]) != rec["orig"]:
            S.violate("hooked-message-differs-from-what-the-peer-sent", {**witness, "tag": rec["tag"], "recorded": rec["orig"]})
    for side in ("server", "client"):
        exp = []
        for rec in S.records:
            if rec["side"] != side or (first_kill is not None and rec["hook_idx"] >= first_kill["hook_idx"]):
                continue
            if rec["decision"] in ("pass", "hold:resume", "hold:edit+resume") and not rec["final"][1]:
                exp.append(rec["final"][0])
        got = [payload for op, payload in ws_data(outs[side])[0]]
        ctx.count("once", max(1, len(exp)))
        bad = (got != exp) if first_kill is None else (got[: len(exp)] != exp)
        if bad:
            S.violate("destination-stream-differs-from-passed-and-resumed-messages", {**witness, "side": side, "expected": exp, "got": got, "cut_at_first_kill": first_kill is not None})
    for k in S.kills[:1]:
        ctx.count("kill.nothing")
        st = k["extra"]
        now = {"data_to_server": ws_data(outs["server"])[1], "data_to_client": ws_data(outs["client"])[1]}
        if st is not None and (now["data_to_server"] != st["data_to_server"] or now["data_to_client"] != st["data_to_client"]):
            S.violate("forwarded-after-kill", {**witness, "killed_at": k["hook"], "how": k["how"], "data_frames_at_kill": st, "data_frames_at_end": now}, classify("ws", "kill.nothing", k))
        if k["hook"] in HTTP_HOOKS:  # killed during the HTTP handshake: HTTP rules
            S.check_kill_error(d, k, ("error",), excused_by=("response",))
            continue
        over = any(e[0] == "cmd" and e[1] < k["step"] and e[2] == "Hook(websocket_end)" for e in d.log)  # the close handshake had already run
        if st is not None and st["ws_open"] and not over:
            # control frames count, too: after the kill no ping/pong reaches either peer and no peer's close (code + reason) is
            # relayed; only a close of the proxy's own making is an abort signal
            names = {wire.OP_PING: "ping", wire.OP_PONG: "pong", wire.OP_CLOSE: "close", wire.OP_TEXT: "text", wire.OP_BIN: "binary", wire.OP_CONT: "continuation"}
            relayed = []
            for side in ("server", "client"):
                for fin, op, masked, payload in ws_frames(outs[side])[st["frames_to_" + side] :]:
                    if op != wire.OP_CLOSE or payload == close_payload:
                        relayed.append((side, names.get(op, op), payload[:40]))
            ctx.count("kill.nothing")
            if relayed:
                S.violate("control-frames-relayed-after-kill", {**witness, "killed_at": k["hook"], "how": k["how"], "frames_sent_after_kill": relayed[:8], "events_after_kill": S.events_after_kill(d, k)[:8]}, classify("ws", "kill.control", k))
            f = k["flow"]
            if S.events_after_kill(d, k) and f.websocket is not None and f.websocket.close_code == close_code and end.endswith("-close"):
                S.violate("killed-flow-ended-with-the-peers-close-code", {**witness, "killed_at": k["hook"], "how": k["how"], "close_code": f.websocket.close_code, "close_reason": f.websocket.close_reason, "peer_close": close_payload}, classify("ws", "kill.control", k))
            S.check_torn_down(d, k, [client, server], end_hooks=("websocket_end",))
        S.check_kill_error(d, k, ("websocket_end", "error"))
    feats = (end, len(ctail), len(stail))
    return S, d, feats, witness


# --------------------------------------------------------------------------------------------------------------
# WebSocket edit matrix: a fixed enumeration of (fragment layout, message type, direction, user edit) run before the random cases
# --------------------------------------------------------------------------------------------------------------
WS_LAYOUTS = ([8], [4, 4], [3, 5, 2], [2, 3, 4, 3])
WS_CHARS = {1: b"x", 2: "\u00e9".encode(), 3: "\u20ac".encode(), 4: "\U0001f600".encode()}


def _fill(n, alphabet=b"abcdefghijklmnopqrstuvwxyz"):
    return bytes(alphabet[i % len(alphabet)] for i in range(n))


def ws_edit_matrix():
    """[(layout, is_text, from_client, original, edited, label)] -- deterministic, independent of seeds."""
    out = []
    for layout in WS_LAYOUTS:
        total = sum(layout)
        bounds = [sum(layout[: i + 1]) for i in range(len(layout) - 1)]
        orig_ascii = _fill(total, b"ABCDEFGHIJKLMNOPQRSTUVWXYZ")
        edits = []
        # length classes with ASCII only
        edits += [("same/ascii", _fill(total)), ("shorter/ascii", _fill(total - 1)), ("longer/ascii", _fill(total + 3)), ("empty", b""), ("one-byte", b"q")]
        for k in (2, 3, 4):
            ch = WS_CHARS[k]
            # same byte length, one k-byte character starting at boundary-k .. boundary+1 (every straddling position, on and next to the boundary)
            for b in bounds or [total // 2]:
                for start in range(b - k, b + 2):
                    if 0 <= start and start + k <= total:
                        edits.append((f"same/{k}-byte-char@{start}(boundary {b})", _fill(start) + ch + _fill(total - start - k)))
            # dense: nothing but k-byte characters after an s-byte ASCII prefix -- every boundary falls inside a character
            for shift in range(k):
                for cls, n in (("same", total), ("shorter", total - 1), ("longer", total + 5)):
                    body = _fill(shift) + ch * ((n - shift) // k)
                    body += _fill(n - len(body))
                    edits.append((f"{cls}/dense-{k}-byte+{shift}", body))
        # an original that already contains multi-byte characters (frames cut at character boundaries), edited to the same length
        if len(layout) > 1:
            orig_mb = b"".join((WS_CHARS[2] * (fl // 2) + b"z" * (fl % 2)) for fl in layout)
            out_mb = [("same/3-byte-over-2-byte-original", (WS_CHARS[3] * (total // 3)) + _fill(total % 3))]
        else:
            orig_mb, out_mb = None, []
        for from_client in (True, False):
            for label, new in edits:
                out.append((layout, True, from_client, orig_ascii, new, label))
            for label, new in out_mb:
                out.append((layout, True, from_client, orig_mb, new, label))
            # binary: arbitrary octets, including sequences that are not UTF-8, must arrive untouched
            for label, new in (("same/binary", bytes((0xC3, 0x28, 0xFF, 0x00, 0xE2, 0x82) * 3)[:total]), ("shorter/binary", b"\xff\xfe\x00"), ("longer/binary", bytes(range(240, 256)) + b"\xe2\x82"), ("empty", b""),
                               ("same/3-byte-char-on-boundary", _fill(max(0, (bounds or [2])[0] - 1)) + WS_CHARS[3] + _fill(total - max(0, (bounds or [2])[0] - 1) - 3))):
                out.append((layout, False, from_client, orig_ascii, new, label))
    # edits larger than one re-chunk unit (FRAGMENT_SIZE): the proxy chooses the boundaries itself
    for k in (2, 3, 4):
        for shift in range(k):
            n = 8100 + shift
            body = _fill(shift) + WS_CHARS[k] * ((n - shift) // k)
            for from_client in (True, False):
                out.append(([3, 5, 2], True, from_client, _fill(10, b"ABCDEFGHIJ"), body + _fill(n - len(body)), f"rechunk/dense-{k}-byte+{shift}"))
    out.append(([4, 4], False, True, _fill(8), bytes(range(256)) * 40, "rechunk/binary"))
    return out


def run_ws_matrix_case(ctx, opts, loop, item):
    from vf import h1case

    layout, is_text, from_client, original, edited, label = item
    r = ctx.rng
    client = sansio.make_client("regular")
    handshake = (b"GET http://example.com/ws-matrix HTTP/1.1\r\nHost: example.com\r\nConnection: Upgrade\r\nUpgrade: websocket\r\n"
                 b"Sec-WebSocket-Version: 13\r\nSec-WebSocket-Key: dGhlIHNhbXBsZSBub25jZQ==\r\n\r\n")
    op = wire.OP_TEXT if is_text else wire.OP_BIN
    frames, pos = [], 0
    for j, fl in enumerate(layout):
        frames.append(wire.ws_frame(op if j == 0 else wire.OP_CONT, original[pos : pos + fl], fin=(j == len(layout) - 1), mask=(bytes(r.getrandbits(8) for _ in range(4)) if from_client else None)))
        pos += fl

    def describe(drv, hook, f):
        if hook.name != "websocket_message":
            return None
        m = f.websocket.messages[-1]
        dest = f.server_conn if m.from_client else drv.client
        return {"tag": b"matrix", "side": "server" if m.from_client else "client", "msg": m, "orig": bytes(m.content),
                "metric": lambda: len(ws_frames(bytes(drv.out[dest]))), "absent": lambda: len(ws_frames(bytes(drv.out[dest]))) == 0,
                "capture": lambda: (bytes(m.content), bool(m.dropped))}

    def edit(rec):
        m = rec["msg"]
        if is_text and r.random() < 0.5:
            m.text = edited.decode("utf-8")  # the two public ways to edit a text message
        else:
            m.content = edited

    S = Session(ctx, r, loop, "ws", describe, edit, p_intercept=1.0, p_kill=0.0, user_kill=0.0, transit=0.0)
    S.force_action = "edit+resume"
    origin = WsOrigin([] if from_client else [(fr, 0) for fr in frames], r)
    d = sansio.Driver(
        h1case.top_factory("regular"), client=client, options=opts, rng=r, addons=[h1case.ForceHttp()], policy=S.policy,
        server_factory=lambda drv, conn: origin, schedule=r.choice(["random", "fifo"]), m3=[S.m3], max_steps=800,
    )
    up = lambda dd: b"\r\n\r\n" in dd.out[client]
    segs = [handshake] + ([(fr, up) for fr in frames] if from_client else [])
    d.attach_client_peer(sansio.ScriptPeer(segs))
    S.drive(d)
    server = d.servers[0] if d.servers else None
    dest_out = bytes(d.out[server]) if (from_client and server is not None) else (bytes(d.out[client]) if not from_client else b"")
    got = ws_data(dest_out)[0]
    witness = {"proto": "ws-matrix", "layout": layout, "type": "text" if is_text else "binary", "direction": "client->server" if from_client else "server->client", "edit": label,
               "original": original, "edited": edited[:200], "edited_len": len(edited), "hooks": d.hook_names(), "records": [(x["hook"], x["decision"]) for x in S.records],
               "frames_to_destination": [(fin, o, len(pl)) for fin, o, _m, pl in ws_frames(dest_out)][:12], "exceptions": [e[:3] for e in d.exceptions]}
    ctx.count("once")
    ctx.count("edit_matrix")
    recs = [x for x in S.records if x["hook"] == "websocket_message"]
    if len(recs) != 1 or recs[0]["orig"] != original or recs[0]["decision"] != "hold:edit+resume":
        S.violate("matrix-message-not-intercepted-as-sent", {**witness, "recorded": [x["orig"] for x in recs]})
    elif got != [(op, edited)]:
        bad = [(o, pl[:200], len(pl)) for o, pl in got]
        S.violate("delivered-message-differs-from-the-users-edit", {**witness, "destination_decoded": bad, "replacement_characters": sum(pl.count("\ufffd".encode()) for o, pl in got)})
    return S, d, (tuple(layout), is_text, from_client, label.split("@")[0]), witness


# --------------------------------------------------------------------------------------------------------------
# run
# --------------------------------------------------------------------------------------------------------------

FILTERS = {
    "h2": [None, None, "~q", "~s", "~all", "~u t0-", "~u t1-", "~m POST | ~m PUT", "~bs r:t1"],
    "ws": [None, None, "~websocket & ~b c1-", "~b s0-", "~b c0-", "~all", "~websocket"],
    "h1": [None, None, "~q", "~s", "~all", "~u t0-", "~m POST | ~m PUT", "~bs r:"],
    "dns": [None, "~dns", "~dns & ~q", "~dns & ~s", "~all"],
    "tcp": [None, "~tcp", "~b c1-", "~b s0-", "~all"],
    "udp": [None, "~udp", "~b c1-", "~b s0-", "~all"],
}
RUNNERS = {"tcp": run_stream_case, "udp": run_stream_case, "dns": run_dns_case, "h1": run_h1_case, "ws": run_ws_case, "h2": run_h2_case}
PROTOS = ["h1", "h2", "h2", "ws", "tcp", "udp", "dns"]


def run(ctx):
    tctx, addons = sansio.addon_context(Intercept)
    opts = tctx.options
    ctx.c11_intercept = addons[-1]
    loop = asyncio.new_event_loop()
    ping0 = opts.http2_ping_keepalive
    matrix = [m for k, m in enumerate(ws_edit_matrix()) if k % ctx.nworkers == ctx.worker]
    try:
        for i in ctx.cases():
            r = ctx.rng
            if i < len(matrix):
                opts.update(intercept=None, http2_ping_keepalive=0)
                res = ctx.guard(run_ws_matrix_case, ctx, opts, loop, matrix[i], what="c11 ws edit matrix case")
                if res is None:
                    ctx.case(("aborted", "ws-matrix"), False)
                    continue
                S, d, feats, witness = res
                for kind, w, mech in S.violations:
                    ctx.violation(kind, {**witness, **w}, mech)
                ctx.case(("ws-matrix",) + feats, True, {"proto": "ws-matrix", "layout": witness["layout"], "type": witness["type"], "direction": witness["direction"], "edit": witness["edit"]})
                continue
            proto = PROTOS[(i + ctx.worker) % len(PROTOS)] if r.random() < 0.7 else r.choice(PROTOS)
            filt = r.choice(FILTERS[proto])
            opts.update(intercept=filt, http2_ping_keepalive=0)  # (keep-alive PING timers would re-arm for ever on a timeless driver)
            res = ctx.guard(RUNNERS[proto], ctx, opts, loop, proto, what=f"c11 {proto} case")
            if res is None:
                ctx.case(("aborted", proto), False)
                continue
            S, d, feats, witness = res
            if d.budget_exceeded:
                ctx.count("inconclusive_cases")
                ctx.case(("budget", proto), False)
                continue
            for e in d.exceptions:
                ctx.seen("layer_exceptions", f"{e[0]}@{e[1]}")
            for kind, w, mech in S.violations:
                ctx.violation(kind, {"filter": filt, **witness, **w}, mech)
            ctx.seen("hook_sequences", proto + ":" + ",".join(d.hook_names()))
            sig = (proto, filt, tuple(sorted(S.acts)), feats)
            ctx.case(sig, S.held_with_events > 0 or bool(S.kills), {"proto": proto, "filter": filt, "acts": sorted(S.acts), "hooks": d.hook_names()[:40], "kills": [(k["hook"], k["how"]) for k in S.kills]})
    finally:
        opts.update(intercept=None, http2_ping_keepalive=ping0)
        loop.close()
