"""C07 -- body size limits are enforced and streamed bodies are relayed exactly.

Engine A (sans-io driver, real HttpProxy/Transparent/Reverse -> HttpLayer stack, HTTP/1 in both directions).  A case is
1-2 sequential requests whose request/response bodies have sizes around the configured thresholds (limit-1, limit,
limit+1, 0, large), Content-Length / chunked / close-delimited framing, every kind of segmentation (whole, 1-byte,
fixed k-byte, random) and schedule, the option matrix body_size_limit x stream_large_bodies x store_streamed_bodies
(human size strings) and addon stream callables set in requestheaders / responseheaders (True, identity, upper-case,
generator, list with empty pieces, hold-back-and-flush, dropping, doubling).

Oracle: vf/gen/c07_bodies.classify_plan decides from (framing, size, thresholds, addon action) alone whether a message
must be refused, must be streamed, must be buffered (or, for unknown-length bodies with stream threshold < limit < size,
either of the first two).  Monitors:
  limit.error        refused message: flow.error set, error hook fired, no response hook, flow not live
  limit.client       the client got mitmproxy's own 413 (request) / 502 (response) page, also after mitmproxy's interim '100 Continue'
  limit.not_forwarded no byte of the refused body reached the other side (independent RFC 9112 reader on the wire bytes)
  limit.exact        a message whose size does not exceed the limit is never refused for its size
  m3.bound           after EVERY step: len(request_body_buf|response_body_buf) <= limit + largest segment received so far
  m3.streaming       after EVERY step: message.stream set and store_streamed_bodies off => buffer is empty
  stream.engaged     a must-stream message was on the wire before its request/response hook ran (relayed, not buffered)
  stream.input       the addon callable saw exactly the received body bytes in order, then one final b""
  stream.exact       the peer parsed (reference reader) exactly the concatenation of what the callable returned / the body
  stream.stored      flow.*.raw_content is None when store_streamed_bodies is off, the relayed bytes when on
  relay.buffered     buffered messages arrive whole and are kept in the flow

Early-answering origins: for items whose request is streamed, the origin may answer as soon as it holds the request HEAD (20 % of
the cases are built around this, with store_streamed_bodies mostly on); for most of them the rest of the upload is held until that
answer has reached the proxy, so the response (its limit check, its switch to streaming, its relay) is handled while the streamed
request is still open.  The oracle is unchanged: limit and streaming are decided by the RESPONSE's own size; a response that must be
refused is judged alone (the upload is legitimately cut short).

Back-pressure leg (3 % of the cases + the first two cases of every worker, run_bp_case, vf/c07_backpressure.py): the REAL
ConnectionHandler (handle_connection / drain_writers / open_connection) with real HTTP layers over in-memory sockets whose drain()
blocks above a high-water mark; large streamed upload and download, consumers stalled in every combination (origin, client, both;
either direction first; HTTP/1 early-answering origin or HTTP/2 client with upload and download on two streams).
  bp.bound   bytes mitmproxy took from a source minus bytes its sink consumed <= high-water mark + 2 socket reads + 4 KiB, whatever the body size
  bp.exact   after all peers resume, both bodies arrive complete and in order

HTTP/2 legs (30 % of the cases, run_h2_case): a streamed response towards an HTTP/2 client, or a streamed request towards an
HTTP/2 origin (vf/peers_c07_h2.py, h2 library), where the HTTP/2 peer announces a tiny SETTINGS_INITIAL_WINDOW_SIZE (1 .. 5000)
and re-opens its stream window in random increments of 1..k bytes (k in 1..400, one WINDOW_UPDATE per segment) while the
HTTP/1 side delivers the body in small segments, so mitmproxy's per-stream send queue holds several streamed chunks
(M3 reads the queue depth of every BufferedH2Connection).  stream.exact / stream.input / stream.stored / m3.streaming apply:
the h2 peer must receive exactly the (transformed) bytes in order, followed by a clean END_STREAM.
"""
import re

from mitmproxy import http
from mitmproxy.proxy.layers.http import HttpLayer

from vf import h1case, peers, sansio
from vf.gen import c07_bodies as g
from vf.ref import http1 as ref

PROPERTY = "C07"
LEVEL = "exploration"
ENGINE = "sansio"
BUDGET = {"quick": (700, 17), "thorough": (80000, 230)}
WORKERS = {"quick": 4, "thorough": 16}
REQUIRED = [
    "limit.error", "limit.client", "limit.not_forwarded", "limit.exact", "m3.bound", "m3.streaming",
    "stream.engaged", "stream.input", "stream.exact", "stream.stored", "relay.buffered", "dir.request.abort", "dir.response.abort",
    "dir.request.stream", "dir.response.stream", "te.compound_chunked", "bp.bound", "bp.exact", "bp.both_stalled.h1", "bp.both_stalled.h2", "early.response_head_before_request_end", "early.response_abort", "stream.exact.h2", "h2.backpressure_cases.h2-client", "h2.backpressure_cases.h2-server",
]
TECHNIQUE = "runtime monitoring: sans-io exploration with a per-step buffer-length hook on the live layer graph + independent wire reader and threshold model"
RULE = (
    "case = (mode, body_size_limit, stream_large_bodies, store_streamed_bodies, 1-2 requests each with request/response framing in "
    "{Content-Length, chunked, close-delimited}, body size picked around both thresholds, optional addon stream callable, segmentation, "
    "schedule); signature = per message (direction, framing, relation of size to limit and to stream threshold, action kind, reference "
    "class) + option vector (limit set, threshold set, store); non-trivial iff some message is refused or streamed (a threshold is crossed "
    "or an addon enabled streaming); HTTP/2 legs: signature = (which side speaks h2, mode, framing, size vs threshold and vs initial window, action, "
    "class, window class, increment class, send-queue depth (capped at 3), store); non-trivial iff the body is streamed AND the send queue held >= 2 "
    "chunks while the peer granted credit"
)
ASSUMPTIONS = [
    "addon stream callables that change the length are used only with chunked / close-delimited framing (DESIGN 3.3: framing-consistent addons)",
    "'known to exceed' = Content-Length at the head, or bytes in the body buffer; an unknown-length body that is already being streamed is not 'known' (nothing is buffered)",
    "'one received chunk' is bounded by the largest TCP segment delivered so far on that connection",
    "'the client receives an error' = mitmproxy's own 413/502 response (also after its interim '100 Continue': the client is still waiting for a final response)",
    "HTTP/1 in both directions for the limit clauses; HTTP/2 on one side for the streaming clauses (no limit set there); plain http (no CONNECT/TLS)",
    "back-pressure leg: the HTTP/2 client announces 2^31-1 flow-control windows, so only the socket-level back-pressure (drain_writers) is under test; 'one received chunk' = one 65535-byte socket read",
    "HTTP/2 legs run with http2_ping_keepalive=0 (the driver completes wakeups at once)",
]
LEVEL_TEXT = (
    "Exploration: generated conversations with body sizes on and around both thresholds are run through the real layer stack under many "
    "segmentations and schedules; a hook after every driver step reads the real buffers, the wire bytes are re-read by an independent RFC 9112 "
    "parser and compared with a threshold model written from the option documentation. Decides the executions observed."
)
LEVEL_NOTE = "Trusted: vf/ref/http1.py, vf/sansio.py (model of ConnectionHandler), vf/gen/c07_bodies.classify_plan/ref_size (threshold model)."

TAG = re.compile(rb"t\d+-[0-9a-f]{6}")
DATA_EV = re.compile(r"DataReceived\((Client|Server),(\d+)\)")


# ---------------------------------------------------------------------------------------------------------------
# addon with recording stream callables
# ---------------------------------------------------------------------------------------------------------------

def make_callable(action, log):
    state = {"i": 0, "held": bytearray()}

    def fn(data):
        i = state["i"]
        state["i"] += 1
        gen_out = False
        if action == "identity":
            out = data
        elif action == "upper":
            out = data.upper()
        elif action == "split":
            h = len(data) // 2
            out = [p for p in (data[:h], data[h:]) if p]
            gen_out = True
        elif action == "list":
            out = [data[:1], data[1:]]
        elif action == "tail":
            if data:
                state["held"] += data
                out = b""
            else:
                out = bytes(state["held"])
                state["held"].clear()
        elif action == "drop":
            out = b"" if (data and i % 2 == 1) else data
        elif action == "double":
            out = data + data
        else:  # pragma: no cover
            raise AssertionError(action)
        pieces = [out] if isinstance(out, bytes) else list(out)
        log.append((bytes(data), pieces))
        if gen_out:
            return (p for p in pieces)
        return out

    return fn


class StreamAddon:
    """Enables streaming the documented way: message.stream = True | callable, in requestheaders / responseheaders."""

    def __init__(self, case):
        self.by_tag = {it["req"]["tag"]: it for it in case["items"]}
        self.calls = {}

    def _item(self, f):
        m = TAG.search(f.request.path.encode("latin-1", "replace"))
        return (m.group(0), self.by_tag.get(m.group(0))) if m else (None, None)

    def requestheaders(self, f):
        tag, it = self._item(f)
        if it and it["rq_plan"]["action"]:
            a = it["rq_plan"]["action"]
            f.request.stream = True if a == "true" else make_callable(a, self.calls.setdefault((tag, "req"), []))

    def responseheaders(self, f):
        tag, it = self._item(f)
        if it and it["rs_plan"]["action"] and f.response is not None:
            a = it["rs_plan"]["action"]
            f.response.stream = True if a == "true" else make_callable(a, self.calls.setdefault((tag, "resp"), []))


# ---------------------------------------------------------------------------------------------------------------
# classification of violations (conditions on the input / history only)
# ---------------------------------------------------------------------------------------------------------------

def empty_piece(calls):
    return any(p == b"" for _, pieces in (calls or []) for p in pieces)


def classify(kind, info):
    if kind in ("stream.exact", "stream.engaged", "stream.input", "stream.stored", "wire.unparsed", "no-response", "not-forwarded") and info.get("empty_piece_chunked"):
        # an addon stream callable returned an empty bytes piece while the outgoing HTTP/1 message is chunked
        return "stream-callable-empty-piece-on-chunked-http1-message"
    if kind == "m3.bound" and info.get("streaming") and info.get("store"):
        return "stored-streamed-body-exceeds-body-size-limit"
    return None


def rel(n, x):
    if x is None:
        return "-"
    if n == x:
        return "="
    if n == x + 1:
        return "+1"
    if n == x - 1:
        return "-1"
    return ">" if n > x else "<"


# ---------------------------------------------------------------------------------------------------------------
# one case
# ---------------------------------------------------------------------------------------------------------------

def run_case(ctx, opts, case=None):
    r = ctx.rng
    case = case or g.gen_case(r, ctx.tier)
    L, T, store = case["L"], case["T"], case["store"]
    opts.update(**case["options"])
    items = case["items"]
    by_tag = {it["req"]["tag"]: it for it in items}
    addon = StreamAddon(case)
    m3log = []  # (step, 'req'|'resp', buffered length, message.stream truthy)
    early_answered = set()

    def m3(drv):
        for lay in drv.context.layers:
            if not isinstance(lay, HttpLayer):
                continue
            for s in list(lay.streams.values()):
                f = getattr(s, "flow", None)
                rb, sb = len(s.request_body_buf), len(s.response_body_buf)
                ctx.count("m3.evaluations")
                if rb:
                    m3log.append((drv.step_no, "req", rb, bool(f is not None and f.request.stream)))
                if sb:
                    m3log.append((drv.step_no, "resp", sb, bool(f is not None and f.response is not None and f.response.stream)))

    def responder(k, msg, peer):
        m = TAG.search(msg["target"])
        it = by_tag.get(m.group(0)) if m else None
        if it is None:
            return b"HTTP/1.1 500 Unknown\r\nContent-Length: 0\r\n\r\n", True
        rs = it["resp"]
        return rs["raw"], rs["close_after"]

    class SegPeer(peers.H1ServerPeer):
        """Reactive origin; parses incrementally (offset of fully parsed requests) and does not re-read a large in-flight
        chunked body before its terminator can have arrived (keeps 1-2 MB bodies affordable)."""

        pos = 0
        inflight_chunked = False
        early_done = ()

        def on_data(self_, data):
            buf = self_.received
            if self_.inflight_chunked and len(buf) - self_.pos > 20000 and not buf.endswith(b"0\r\n\r\n"):
                return
            self_._reparse()

        def _reparse(self_):
            while not self_.closed and self_.status == "ok":
                buf = bytes(self_.received)
                if buf[self_.pos :].strip(b"\r\n") == b"":
                    return
                try:
                    msg, npos = ref.parse_request(buf, self_.pos)
                except ref.Incomplete:
                    he = buf.find(b"\r\n\r\n", self_.pos)
                    self_.inflight_chunked = he >= 0 and b"chunked" in buf[self_.pos : he].lower()
                    if he >= 0:
                        # early-answering origin: the complete request HEAD is here, the (streamed) body is still uploading
                        m_ = TAG.search(buf[self_.pos : he])
                        it_ = by_tag.get(m_.group(0)) if m_ else None
                        if it_ is not None and it_.get("early") and m_.group(0) not in self_.early_done:
                            self_.early_done = tuple(self_.early_done) + (m_.group(0),)
                            early_answered.add(m_.group(0))
                            ctx.count("early.origin_answered_at_head")
                            for s in g.segments(it_["resp"]["raw"], r, case["server_seg"], case["fixed_seg"]):
                                self_.send(s)
                    return
                except ref.Reject as e:
                    self_.status = "reject"
                    self_.reject_reason = str(e)
                    return
                self_.pos = npos
                self_.inflight_chunked = False
                self_.requests.append(msg)
                self_.answered += 1
                m_ = TAG.search(msg["target"])
                if m_ and m_.group(0) in self_.early_done:
                    continue  # already answered at the head
                data, close_after = responder(self_.answered - 1, msg, self_)
                for s in g.segments(data, r, case["server_seg"], case["fixed_seg"]):
                    self_.send(s)
                if close_after:
                    self_.close()
                    self_.closed = True

    def policy(drv, hook):
        if case["delay_p"] and r.random() < case["delay_p"]:
            return "delay"
        return None

    mode = case["mode"]
    d = sansio.Driver(
        h1case.top_factory(mode),
        client=sansio.make_client(mode),
        options=opts,
        rng=r,
        addons=[h1case.ForceHttp(), addon],
        policy=policy,
        server_factory=lambda drv, conn: SegPeer(responder, r, "whole"),
        schedule=case["schedule"],
        snapshot=sansio.http_snapshot,
        m3=[m3],
        max_steps=12000,
    )
    if mode == "transparent":
        d.context.server.address = ("example.com", 80)
    stream = b"".join(it["req"]["raw"] for it in items)
    csegs = g.segments(stream, r, case["client_seg"], case["fixed_seg"])
    # early-answering origin: hold the rest of the upload (after the head and at least one body byte) until the origin's early answer
    # has been delivered to the proxy, so that the response is handled while the streamed request is still open
    off = 0
    for it in items:
        if it.get("early") and (it["rq_plan"]["framing"] == "cl" or it["rq_plan"]["action"]) and r.random() < 0.7:
            hold_from = off + it["req"]["head_len"] + 8
            tag_ = it["req"]["tag"]

            def gate(drv, tag_=tag_):
                return tag_ in early_answered and not drv.pending and not any(q for c, q in drv.inbox.items() if c is not drv.client)

            pos_ = 0
            for j, sg in enumerate(csegs):
                if pos_ >= hold_from and pos_ < off + len(it["req"]["raw"]):
                    csegs[j] = (sg, gate)
                    ctx.count("early.upload_held_for_answer")
                    break
                pos_ += len(sg)
            break
        off += len(it["req"]["raw"])
    d.attach_client_peer(sansio.ScriptPeer(csegs))
    d.start()
    d.run()
    client_closed_before_teardown = d.peers[d.client].got_eof
    d.teardown()
    if d.budget_exceeded:
        ctx.count("inconclusive_cases")
        return None
    for e in d.exceptions:
        ctx.seen("layer_exceptions", f"{e[0]}@{e[1]}")

    # ---------------- observations
    flows = {}  # tag -> dict(flow, hooks[(step, name)], snaps)
    for step, name, hook, snap in d.hooks:
        f = getattr(hook, "flow", None)
        if not isinstance(f, http.HTTPFlow):
            continue
        m = TAG.search(f.request.path.encode("latin-1", "replace"))
        if not m:
            continue
        rec = flows.setdefault(m.group(0), {"flow": f, "hooks": [], "snaps": {}})
        rec["hooks"].append((step, name))
        rec["snaps"][name] = snap
    up = {}  # tag -> (msg, conn)
    up_last = {}  # conn -> tag of the last completely parsed request on it
    up_bad = []
    for conn in d.servers:
        data = bytes(d.out[conn])
        if not data:
            continue
        status, msgs, rest = ref.parse_requests(data)
        for msg in msgs:
            m = TAG.search(msg["target"])
            if m:
                up.setdefault(m.group(0), (msg, conn))
                up_last[conn] = m.group(0)
        if status != "ok" or rest:
            up_bad.append((conn, status, rest if isinstance(rest, str) else bytes(rest)[:200], data))
    d.c07_up_last = up_last
    d.c07_items = items
    down_raw = bytes(d.out[d.client])
    dstatus, dmsgs, drest = ref.parse_responses(down_raw, [it["req"]["method"] for it in items], eof=True)
    down = {}
    d.c07_last_down = dmsgs[-1] if dmsgs else None
    for msg in dmsgs:
        if 100 <= msg["status"] < 200:
            continue
        down.setdefault(msg["for_request"], []).append(msg)
    seg_max = {"Client": [], "Server": []}  # (step, cumulative max segment)
    cur = {"Client": 0, "Server": 0}
    for kind, step, name in d.log:
        if kind == "ev":
            mm = DATA_EV.match(name)
            if mm:
                side = mm.group(1)
                cur[side] = max(cur[side], int(mm.group(2)))
                seg_max[side].append((step, cur[side]))

    def max_seg_at(side, step):
        best = 0
        for s, v in seg_max[side]:
            if s > step:
                break
            best = v
        return best

    base = {
        "mode": mode, "options": case["options"], "client_seg": case["client_seg"], "server_seg": case["server_seg"], "fixed_seg": case["fixed_seg"],
        "schedule": case["schedule"], "hooks": d.hook_names()[:40], "exceptions": [e[:3] for e in d.exceptions],
        "plans": [(it["rq_plan"], it["rs_plan"]) for it in items],
    }

    def wit(**kw):
        w = dict(base)
        w["client_stream_head"] = stream[:300]
        w["down_head"] = down_raw[:400]
        w.update(kw)
        return w

    pipelined_chunk = max([g.max_chunk(it["req"]) for it in items[1:] if it["rq_plan"]["framing"] == "chunked"] or [0])
    # ---------------- M3 monitors (whole run)
    ctx.count("m3.bound")
    ctx.count("m3.streaming")
    reported = set()
    for step, which, ln, streaming in m3log:
        if L is not None:
            # one received chunk: a TCP segment, or -- for a pipelined request that waited in the connection buffer -- one whole HTTP chunk
            bound = L + max(max_seg_at("Client" if which == "req" else "Server", step), pipelined_chunk if which == "req" else 0)
            if ln > bound and ("bound", which) not in reported:
                reported.add(("bound", which))
                info = {"streaming": streaming, "store": store}
                ctx.violation("m3.bound", wit(direction=which, step=step, buffered=ln, limit=L, bound=bound, streaming=streaming, m3_trace=[x for x in m3log if x[0] <= step][-8:], events=[x for x in d.log if step - 3 <= x[1] <= step][-30:]), classify("m3.bound", info))
        if streaming and not store and ("streaming", which) not in reported:
            reported.add(("streaming", which))
            ctx.violation("m3.streaming", wit(direction=which, step=step, buffered=ln))

    # ---------------- per message monitors
    sig_items = []
    hist = {}
    nontrivial = False
    alive = True
    for i, it in enumerate(items):
        rq, rs, qp, sp = it["req"], it["resp"], it["rq_plan"], it["rs_plan"]
        tag = rq["tag"]
        qcls = g.classify_plan(qp, L, T)
        scls = g.classify_plan(sp, L, T)
        sig_items.append(("req", qp["framing"], rel(qp["n"], L), rel(qp["n"], T), qp["action"] or "-", qcls, "resp", sp["framing"], rel(sp["n"], L), rel(sp["n"], T), sp["action"] or "-", scls, "expect" in rq["feats"], bool(it.get("early")), g.te_compound(qp.get("te", b"chunked")), g.te_compound(sp.get("te", b"chunked"))))
        if not alive:
            ctx.count("skipped_after_abort")
            continue
        rec = flows.get(tag)
        if rec is None:
            ctx.violation("flow-missing", wit(tag=tag))
            alive = False
            continue
        f = rec["flow"]
        names = [n for _, n in rec["hooks"]]
        steps = {n: s for s, n in rec["hooks"]}
        size_error = bool(f.error and "body_size_limit" in f.error.msg)

        # ===== early-answered item whose response must be refused: the upload is legitimately cut short, judge the response only
        r_aborted = "error" in names and "response" not in names and size_error and "responseheaders" in names
        if it.get("early"):
            ctx.count("early.items")
            if "responseheaders" in steps and ("request" not in steps or steps["responseheaders"] < steps["request"]):
                ctx.count("early.response_head_before_request_end")
        if it.get("early") and (scls == "abort" or (scls == "abort-or-stream" and r_aborted)):
            nontrivial = True
            ctx.count("dir.response.abort")
            ctx.count("early.response_abort")
            check_abort(ctx, d, wit, "response", it, rec, names, down.get(i, []), 502, client_closed_before_teardown, sent_100=False, hist=hist)
            alive = False
            continue

        # ===== request direction
        qcalls = addon.calls.get((tag, "req"))
        aborted = "error" in names and "responseheaders" not in names and size_error
        do_abort = qcls == "abort" or (qcls == "abort-or-stream" and aborted)
        if qcls in ("abort", "abort-or-stream", "stream"):
            nontrivial = True
        if do_abort:
            ctx.count("dir.request.abort")
            check_abort(ctx, d, wit, "request", it, rec, names, down.get(i, []), 413, client_closed_before_teardown, sent_100="expect" in rq["feats"] and b"HTTP/1.1 100 " in down_raw, hist=hist)
            alive = False
            continue
        # limit.exact: a request that does not exceed the limit (or whose excess cannot be known) is not refused
        ctx.count("limit.exact")
        if size_error and "responseheaders" not in names:
            ctx.violation("limit.exact", wit(tag=tag, direction="request", n=qp["n"], limit=L, error=f.error.msg, cls=qcls))
            alive = False
            continue
        ok = check_relay(ctx, d, wit, "request", it, rec, qcls, qcalls, up.get(tag), up_bad, steps, store, hist)
        if not ok:
            alive = False
            continue

        # ===== response direction
        scalls = addon.calls.get((tag, "resp"))
        if scls in ("abort", "abort-or-stream", "stream"):
            nontrivial = True
        r_aborted = "error" in names and "response" not in names and size_error
        do_abort = scls == "abort" or (scls == "abort-or-stream" and r_aborted)
        if do_abort:
            ctx.count("dir.response.abort")
            check_abort(ctx, d, wit, "response", it, rec, names, down.get(i, []), 502, client_closed_before_teardown, sent_100="expect" in rq["feats"] and b"HTTP/1.1 100 " in down_raw, hist=hist)
            alive = False
            continue
        ctx.count("limit.exact")
        if size_error:
            ctx.violation("limit.exact", wit(tag=tag, direction="response", n=sp["n"], limit=L, error=f.error.msg, cls=scls))
            alive = False
            continue
        ok = check_relay(ctx, d, wit, "response", it, rec, scls, scalls, down.get(i, []), (dstatus, drest), steps, store, hist)
        if not ok or rs["close_after"]:
            alive = False

    sig = (mode.split(":")[0], tuple(sig_items), L is not None, T is not None, store)
    sample = {
        "mode": mode, "options": case["options"],
        "messages": [{"req": (it["rq_plan"], g.classify_plan(it["rq_plan"], L, T)), "resp": (it["rs_plan"], g.classify_plan(it["rs_plan"], L, T))} for it in items],
        "client_seg": case["client_seg"], "server_seg": case["server_seg"], "hooks": d.hook_names()[:30],
    }
    return sig, nontrivial, sample


def check_abort(ctx, d, wit, direction, it, rec, names, down_msgs, status, client_closed_early, sent_100, hist):
    f = rec["flow"]
    tag = it["req"]["tag"]
    ctx.count("limit.error")
    bad = None
    if f.error is None:
        bad = "flow.error not set"
    elif "error" not in names:
        bad = "error hook not fired"
    elif "response" in names:
        bad = "response hook fired for a refused message"
    elif f.live:
        bad = "flow still live"
    if bad:
        ctx.violation("limit.error", wit(tag=tag, direction=direction, problem=bad, flow_hooks=names, error=f.error.msg if f.error else None))
    ctx.count("limit.client")
    own = [m for m in down_msgs if dict(m["headers"]).get("server", b"").startswith(b"mitmproxy")]
    if sent_100 and not own:
        # mitmproxy answered 'Expect: 100-continue' itself; the refusal that follows must still be a final error response
        ctx.count("limit.client.close_after_100")
        closed = d.peers[d.client].got_eof
        ctx.violation("limit.client", wit(tag=tag, direction=direction, problem="after the interim 100 Continue the client gets no error response, only " + ("a bare connection close" if closed else "silence (connection left open)"),
                                          got=[(m['status'], m['raw_head'][:120]) for m in down_msgs]), "no-error-page-after-100-continue" if closed and not down_msgs else None)
    elif len(own) != 1 or own[0]["status"] != status or len(down_msgs) != 1:
        ctx.violation("limit.client", wit(tag=tag, direction=direction, problem=f"expected exactly one own {status} page", got=[(m['status'], m['raw_head'][:120]) for m in down_msgs]), classify("no-response", {"empty_piece_chunked": hist.get("response", False)}))
    ctx.count("limit.not_forwarded")
    if direction == "request":
        for conn in d.servers:
            data = bytes(d.out[conn])
            idx = data.find(tag)
            if idx < 0:
                continue
            he = data.find(b"\r\n\r\n", idx)
            after = data[he + 4 :] if he >= 0 else b""
            if after:
                ctx.violation("limit.not_forwarded", wit(tag=tag, direction=direction, forwarded_body_bytes=len(after), upstream=data[:600]))
    else:
        raw = bytes(d.out[d.client])
        body = it["resp"]["body"]
        leaked = (b"x-tag: " + tag) in raw or (len(body) >= 8 and body[:8] in raw)
        if leaked:
            ctx.violation("limit.not_forwarded", wit(tag=tag, direction=direction, down=raw[:600]))


def check_relay(ctx, d, wit, direction, it, rec, cls, calls, observed, wire_status, steps, store, hist):
    """Non-refused message: exact relay + streaming clauses.  Returns False if the conversation cannot continue."""
    f = rec["flow"]
    tag = it["req"]["tag"]
    plan = it["rq_plan"] if direction == "request" else it["rs_plan"]
    body = it["req"]["body"] if direction == "request" else it["resp"]["body"]
    msgobj = f.request if direction == "request" else f.response
    hookname = "request" if direction == "request" else "response"
    out_framing = "none" if plan["framing"] == "none" else plan["framing"]
    # this message (or an earlier one in the same direction on this connection) is chunked and went through a callable that returned b""
    info = {"empty_piece_chunked": (out_framing == "chunked" and empty_piece(calls)) or hist.get(direction, False)}
    hist[direction] = info["empty_piece_chunked"]
    # what arrived at the peer
    if direction == "request":
        msg = observed[0] if observed else None
        conn = observed[1] if observed else None
        bad_wire = [b for b in wire_status if conn is None or b[0] is conn]
    else:
        tagged = [m for m in observed if dict(m["headers"]).get("x-tag") == tag]
        msg = tagged[0] if tagged else None
        st, rest = wire_status
        bad_wire = [("client", st, rest)] if (st != "ok" or rest) else []
    streamed_expected = cls in ("stream", "abort-or-stream")
    expected = body
    if calls is not None and streamed_expected:
        expected = b"".join(p for _, pieces in calls for p in pieces)
    elif plan["action"] not in (None, "true") and streamed_expected:
        expected = None  # callable never invoked although streaming was requested: decided below
    if msg is None:
        kind = "wire.unparsed" if bad_wire else "no-response" if direction == "response" else "not-forwarded"
        ctx.count("stream.exact" if streamed_expected else "relay.buffered")
        ctx.violation(kind, wit(tag=tag, direction=direction, cls=cls, wire=[(b[1], b[2]) for b in bad_wire][:2], flow_hooks=[n for _, n in rec["hooks"]], calls=[(len(a), [len(p) for p in ps]) for a, ps in (calls or [])][:12], upstream=[bytes(d.out[c])[:500] for c in d.servers][:2]), classify(kind, info))
        return False
    # ---- framing as the peer sees it (strict reference reader): chunked stays chunked under every accepted Transfer-Encoding
    # spelling, and nothing but the next message may follow the terminator
    if plan["framing"] == "chunked":
        ctx.count("te.chunked")
        if g.te_compound(plan.get("te", b"chunked")):
            ctx.count("te.compound_chunked")
        sent_te = plan.get("te", b"chunked").strip().lower().replace(b" ", b"").replace(b"\t", b"")
        got_te = b",".join(v for n_, v in msg["headers"] if n_ == "transfer-encoding").lower().replace(b" ", b"").replace(b"\t", b"")
        if msg["framing"] != "chunked" or got_te != sent_te:
            ctx.violation("te.framing", wit(tag=tag, direction=direction, te=plan.get("te"), peer_framing=msg["framing"], peer_te=got_te), classify("wire.unparsed", info))
            return False
    later_tags = [it_["req"]["tag"] for it_ in d.c07_items if it_["req"]["tag"] != tag]
    if direction == "request":
        tail = [b for b in bad_wire if d.c07_up_last.get(b[0]) == tag]
        junk = [b for b in tail if b[1] == "reject" or not any(t_ in b[3] for t_ in later_tags)]
    else:
        junk = []
        if bad_wire and observed and observed[-1] is msg and d.c07_last_down is msg:
            st_, rest_ = wire_status
            if st_ == "reject" or not any(t_ in (rest_ if isinstance(rest_, bytes) else b"") for t_ in later_tags):
                junk = [("client", st_, rest_)]
    if junk:
        ctx.count("stream.exact" if streamed_expected else "relay.buffered")
        ctx.violation("wire.trailing", wit(tag=tag, direction=direction, cls=cls, te=plan.get("te"), problem="bytes that are not the start of another message follow the message the peer parsed", wire=[(b[1], b[2]) for b in junk][:2]), classify("wire.unparsed", info))
        return False
    if streamed_expected:
        ctx.count("dir.%s.stream" % direction)
        # S1: on the wire before the request/response hook ran
        ctx.count("stream.engaged")
        first = None
        for step, conn, data in d.out_log:
            if (conn is d.client) == (direction == "response") and tag in data:
                first = step
                break
        hstep = steps.get(hookname)
        if first is None or hstep is None or not first < hstep:
            ctx.violation("stream.engaged", wit(tag=tag, direction=direction, cls=cls, first_wire_step=first, hook_step=hstep), classify("stream.engaged", info))
        # S2a: callable inputs
        if plan["action"] not in (None, "true"):
            ctx.count("stream.input")
            ins = [a for a, _ in (calls or [])]
            problem = None
            if not ins:
                problem = "callable never invoked"
            elif b"".join(ins) != body:
                problem = "concatenated inputs differ from the received body"
            elif ins[-1] != b"" or any(a == b"" for a in ins[:-1]):
                problem = "final empty-bytes call missing or misplaced"
            if problem:
                ctx.violation("stream.input", wit(tag=tag, direction=direction, problem=problem, input_lens=[len(a) for a in ins][:20], body_len=len(body)), classify("stream.input", info))
        # S2b: peer sees exactly the transformed bytes
        ctx.count("stream.exact")
        if expected is not None and msg["body"] != expected:
            ctx.violation("stream.exact", wit(tag=tag, direction=direction, cls=cls, action=plan["action"], got_len=len(msg["body"]), want_len=len(expected), got_head=msg["body"][:80], want_head=expected[:80]), classify("stream.exact", info))
            return False
        # S3: stored only if asked to
        ctx.count("stream.stored")
        kept = msgobj.raw_content if msgobj is not None else None
        if hookname in steps:
            if store and kept != expected:
                ctx.violation("stream.stored", wit(tag=tag, direction=direction, problem="store_streamed_bodies on but flow content differs from relayed bytes", kept_len=None if kept is None else len(kept), want_len=len(expected or b"")))
            if not store and kept is not None:
                ctx.violation("stream.stored", wit(tag=tag, direction=direction, problem="store_streamed_bodies off but flow keeps content", kept_len=len(kept)))
    else:
        ctx.count("relay.buffered")
        if msg["body"] != body:
            ctx.violation("relay.buffered", wit(tag=tag, direction=direction, cls=cls, got_len=len(msg["body"]), want_len=len(body)))
            return False
        kept = msgobj.raw_content if msgobj is not None else None
        if hookname in steps and cls == "buffer" and kept != body:
            ctx.violation("relay.buffered", wit(tag=tag, direction=direction, problem="buffered body not kept in flow", kept_len=None if kept is None else len(kept)))
    return True


# ---------------------------------------------------------------------------------------------------------------
# HTTP/2 legs: streamed bodies towards an HTTP/2 peer that reads slowly (tiny stream window, small credit increments)
# ---------------------------------------------------------------------------------------------------------------

def h2_queue_depth(drv):
    """M3: longest per-stream send queue of any BufferedH2Connection in the live layer graph."""
    best = 0
    for lay in drv.context.layers:
        if not isinstance(lay, HttpLayer):
            continue
        for v in list(lay.connections.values()):
            obj = getattr(v, "child_layer", v)
            conn = getattr(obj, "h2_conn", None)
            if conn is not None:
                for q in conn.stream_buffers.values():
                    best = max(best, len(q))
    return best


def run_h2_case(ctx, opts):
    from vf.peers_c07_h2 import H2ClientPeer, H2Request, H2ServerPeer

    r = ctx.rng
    variant = r.choice(["h2-client", "h2-server"])
    mode = r.choice(g.MODES)
    store = r.random() < 0.4
    stream_opt = r.choice([None, "0", "1", "10", "100"])
    T = g.ref_size(stream_opt)
    W0 = r.choice([1, 2, 5, 10, 17, 40, 100, 1000, 5000])
    inc_max = r.choice([1, 2, 3, 4, 7, 16, 50, 400])
    n = r.choice([0, 1, W0, W0 + 1, r.randint(2, 60), r.randint(40, 400), r.randint(300, 1800)])
    n = min(n, 100 + 60 * inc_max)  # bounds the number of WINDOW_UPDATE steps of a case
    direction = "response" if variant == "h2-client" else "request"
    framing = r.choice(["cl", "chunked", "chunked", "eof"]) if direction == "response" else r.choice(["cl", "chunked", "chunked"])
    names = [a for a, (lp, _) in g.ACTIONS.items() if lp or framing in ("chunked", "eof")]
    action = r.choice(names) if (stream_opt is None or r.random() < 0.4) else None
    plan = {"framing": framing, "n": n, "action": action}
    none_plan = {"framing": "none", "n": 0, "action": None}
    seg_mode = r.choice(["fixed", "fixed", "random", "whole"])
    fixed = r.choice([2, 3, 8, 16, 50, 200])
    # http2_ping_keepalive=0: the sans-io driver completes wakeups at once, a keep-alive timer would never let the run settle
    opts.update(body_size_limit=None, stream_large_bodies=stream_opt, store_streamed_bodies=store, http2_ping_keepalive=0)
    cls = g.classify_plan(plan, None, T)

    if direction == "response":
        tag = b"t0-%06x" % r.getrandbits(24)
        rq = {"tag": tag, "method": "GET"}
        rs = g.build_response(r, tag, plan)
        item = {"req": rq, "resp": rs, "rq_plan": none_plan, "rs_plan": plan}
    else:
        rq = g.build_request(r, 0, mode, plan, expect100=False)
        tag = rq["tag"]
        item = {"req": rq, "resp": None, "rq_plan": plan, "rs_plan": none_plan}
    body = rs["body"] if direction == "response" else rq["body"]
    addon = StreamAddon({"items": [item]})
    obs = {"depth": 0, "buf_while_streaming": None}

    def m3(drv):
        ctx.count("m3.evaluations")
        obs["depth"] = max(obs["depth"], h2_queue_depth(drv))
        for lay in drv.context.layers:
            if isinstance(lay, HttpLayer):
                for s_ in list(lay.streams.values()):
                    f = getattr(s_, "flow", None)
                    if f is None or store:
                        continue
                    if direction == "request" and f.request.stream and len(s_.request_body_buf) and obs["buf_while_streaming"] is None:
                        obs["buf_while_streaming"] = (drv.step_no, len(s_.request_body_buf))
                    if direction == "response" and f.response is not None and f.response.stream and len(s_.response_body_buf) and obs["buf_while_streaming"] is None:
                        obs["buf_while_streaming"] = (drv.step_no, len(s_.response_body_buf))

    def grant(owed):
        out = []
        while owed > 0:
            k = min(owed, r.randint(1, inc_max))
            out.append(k)
            owed -= k
        return out

    client = sansio.make_client(mode)
    h2_server = []
    if direction == "response":
        client.alpn = b"h2"

        def responder(k, msg, peer):
            return rs["raw"], rs["close_after"]

        class Origin(peers.H1ServerPeer):
            def _reparse(self_):
                status, msgs, rest = ref.parse_requests(bytes(self_.received))
                if msgs and not self_.answered:
                    self_.answered = 1
                    self_.requests = msgs
                    for s_ in g.segments(rs["raw"], r, seg_mode, fixed):
                        self_.send(s_)
                    if rs["close_after"]:
                        self_.close()
                        self_.closed = True

        server_factory = lambda drv, conn: Origin(responder, r, "whole")
    else:

        def h2_responder(sid, headers, data):
            return [(b":status", b"200"), (b"x-tag", tag), (b"content-length", b"2")], b"ok"

        def server_factory(drv, conn):
            conn.alpn = b"h2"
            p = H2ServerPeer(h2_responder, initial_window=W0, grant=grant)
            h2_server.append(p)
            return p

    d = sansio.Driver(
        h1case.top_factory(mode),
        client=client,
        options=opts,
        rng=r,
        addons=[h1case.ForceHttp(), addon],
        server_factory=server_factory,
        schedule=r.choice(["random", "random", "random", "fifo"]),
        snapshot=sansio.http_snapshot,
        m3=[m3],
        max_steps=20000,
    )
    if mode == "transparent":
        d.context.server.address = ("example.com", 80)
    if direction == "response":
        cpeer = H2ClientPeer(
            [H2Request([(b":method", b"GET"), (b":scheme", b"http"), (b":authority", b"example.com"), (b":path", b"/" + tag)])],
            initial_window=W0, grant=grant, validate_inbound=False,
        )
        d.attach_client_peer(cpeer)
    else:
        d.attach_client_peer(sansio.ScriptPeer(g.segments(rq["raw"], r, seg_mode, fixed)))
    d.start()
    d.run()
    d.teardown()
    if d.budget_exceeded:
        ctx.count("inconclusive_cases")
        return None
    for e in d.exceptions:
        ctx.seen("layer_exceptions", f"{e[0]}@{e[1]}")

    flow = None
    hook_names = []
    for step, name, hook, snap in d.hooks:
        f = getattr(hook, "flow", None)
        if isinstance(f, http.HTTPFlow):
            flow = f
            hook_names.append(name)
    if direction == "response":
        st = cpeer.streams.get(1) or {"headers": None, "data": b"", "ended": False, "reset": None}
        perr, wu = cpeer.protocol_errors, cpeer.window_updates
    else:
        sp = h2_server[0] if h2_server else None
        sts = list(sp.streams.values()) if sp else []
        st = sts[0] if sts else {"headers": None, "data": b"", "ended": False, "reset": None}
        perr, wu = (sp.protocol_errors, sp.window_updates) if sp else ([], 0)
    calls = addon.calls.get((tag, "req" if direction == "request" else "resp"))
    streamed_expected = cls == "stream"
    expected = body
    if streamed_expected and calls is not None:
        expected = b"".join(p_ for _, pieces in calls for p_ in pieces)

    def wit(**kw):
        w = {"proto": variant, "mode": mode, "options": {"stream_large_bodies": stream_opt, "store_streamed_bodies": store}, "plan": plan, "class": cls, "initial_window": W0,
             "max_increment": inc_max, "segmentation": (seg_mode, fixed), "hooks": hook_names, "exceptions": [e[:3] for e in d.exceptions], "max_send_queue_depth": obs["depth"],
             "window_updates": wu, "peer_protocol_errors": perr[:2], "got_len": len(st["data"]), "want_len": len(expected), "ended": st["ended"], "reset": st["reset"]}
        w.update(kw)
        return w

    ctx.count("h2." + variant)
    kind = "stream.exact" if streamed_expected else "relay.buffered"
    ctx.count(kind)
    ctx.count(kind + ".h2")
    if streamed_expected:
        ctx.count("dir.%s.stream" % direction)
    problem = None
    if perr:
        problem = "the h2 library refuses what mitmproxy sent"
    elif st["headers"] is None:
        problem = "message never reached the HTTP/2 peer"
    elif st["data"] != expected:
        i = next((k for k, (a, b) in enumerate(zip(st["data"], expected)) if a != b), min(len(st["data"]), len(expected)))
        problem = f"HTTP/2 peer received different bytes (first difference at offset {i})"
    elif not st["ended"] or st["reset"] is not None:
        problem = "stream not ended cleanly although the whole body was relayed"
    if problem:
        ctx.violation(kind, wit(problem=problem, got=st["data"][max(0, 0):120], want=expected[:120]))
    elif streamed_expected:
        if action not in (None, "true"):
            ctx.count("stream.input")
            ins = [a for a, _ in (calls or [])]
            if b"".join(ins) != body or not ins or ins[-1] != b"" or any(a == b"" for a in ins[:-1]):
                ctx.violation("stream.input", wit(problem="callable inputs are not the received body followed by one final b''", input_lens=[len(a) for a in ins][:20]))
        ctx.count("stream.stored")
        msgobj = flow.request if (flow is not None and direction == "request") else (flow.response if flow is not None else None)
        kept = msgobj.raw_content if msgobj is not None else None
        if ("request" if direction == "request" else "response") in hook_names:
            if store and kept != expected:
                ctx.violation("stream.stored", wit(problem="store_streamed_bodies on but flow content differs from relayed bytes", kept_len=None if kept is None else len(kept)))
            if not store and kept is not None:
                ctx.violation("stream.stored", wit(problem="store_streamed_bodies off but flow keeps content", kept_len=len(kept)))
    ctx.count("m3.streaming")
    if obs["buf_while_streaming"]:
        ctx.violation("m3.streaming", wit(direction=direction, step=obs["buf_while_streaming"][0], buffered=obs["buf_while_streaming"][1]))
    backpressure = obs["depth"] >= 2 and wu > 0
    if backpressure:
        ctx.count("h2.backpressure_cases")
        ctx.count("h2.backpressure_cases." + variant)
    wclass = "tiny" if W0 <= 40 else "small"
    iclass = "1" if inc_max == 1 else "few" if inc_max <= 7 else "many"
    sig = (variant, mode.split(":")[0], framing, rel(n, T), rel(n, W0), action or "-", cls, wclass, iclass, min(obs["depth"], 3), store)
    sample = {"proto": variant, "mode": mode, "plan": plan, "class": cls, "initial_window": W0, "max_increment": inc_max, "segmentation": (seg_mode, fixed),
              "max_send_queue_depth": obs["depth"], "window_updates": wu, "hooks": hook_names}
    return sig, bool(streamed_expected and backpressure), sample


# ---------------------------------------------------------------------------------------------------------------
# back-pressure leg: real ConnectionHandler over in-memory sockets with blocking drain() (vf/c07_backpressure.py)
# ---------------------------------------------------------------------------------------------------------------

def run_bp_case(ctx, opts, force=None):
    from vf import c07_backpressure as bp

    r = ctx.rng
    p = bp.gen_params(r)
    if force:
        p.update(force)
    if p["proto"] == "h2":
        p["req_framing"] = "cl"
    opts.update(body_size_limit=None, stream_large_bodies=None if p["by_addon"] else "1", store_streamed_bodies=p["store"], http2_ping_keepalive=0)
    res = bp.run_case(p, opts)
    B = bp.bound(p)
    req_len, resp_len = p["n_req"] * p["chunk"], p["n_resp"] * p["chunk"]

    def wit(**kw):
        w = {"leg": "backpressure", "params": p, "bound": B, "request_body": req_len, "response_body": resp_len, "measure": res.get("measure"), "max_buffered": res.get("max_buffered"),
             "taken": res.get("taken"), "hooks": res.get("hooks", [])[:12], "problems": res.get("problems")}
        w.update(kw)
        return w

    ctx.count("bp.cases")
    ctx.count("bp.cases." + p["proto"])
    if res["problems"]:
        ctx.count("inconclusive_cases")
        ctx.seen("bp_problems", res["problems"][0])
        return ("bp", "inconclusive"), False, None
    # relayed without buffering: what mitmproxy holds is bounded independently of the body size
    ctx.count("bp.bound")
    worst = max(res["measure"], key=lambda m_: m_[2])
    if worst[2] > B:
        ctx.violation("bp.bound", wit(problem=f"mitmproxy holds {worst[2]} bytes of a streamed body ({worst[1]}, {worst[0]}) while the consumer is not reading; bound {B}", phase=worst[0], direction=worst[1], held=worst[2]))
    elif max(res["max_buffered"].values()) > B:
        ctx.violation("bp.bound", wit(problem="write buffer towards a stalled peer exceeded the bound", held=max(res["max_buffered"].values())))
    # ... and exactly
    ctx.count("bp.exact")
    ctx.count("stream.exact")
    st, msgs, rest = ref.parse_requests(res["upstream_raw"])
    if st != "ok" or rest or len(msgs) != 1 or msgs[0]["body"] != res["req_body"]:
        ctx.violation("stream.exact", wit(problem="origin did not receive exactly the uploaded body after it resumed reading", status=st, got_len=len(msgs[0]["body"]) if msgs else None))
    if p["proto"] == "h1":
        st, msgs, rest = ref.parse_responses(res["client_raw"], ["POST"], eof=True)
        if st != "ok" or rest or len(msgs) != 1 or msgs[0]["body"] != res["resp_body"]:
            ctx.violation("stream.exact", wit(problem="client did not receive exactly the response body after it resumed reading", status=st, got_len=len(msgs[0]["body"]) if msgs else None))
    elif res["download_body"] != res["resp_body"] or not res["download_ended"]:
        ctx.violation("stream.exact", wit(problem="h2 client did not receive exactly the response body after it resumed reading", got_len=len(res["download_body"]), ended=res["download_ended"]))
    both = p["stall"] == "both"
    if both:
        ctx.count("bp.both_stalled")
        ctx.count("bp.both_stalled." + p["proto"])
    sig = ("bp", p["proto"], p["stall"], p["first"], p["req_framing"], p["resp_framing"], p["chunk"], p["high_water"], p["by_addon"], p["store"])
    sample = {"leg": "backpressure", "params": p, "bound": B, "held": res["measure"], "max_buffered": res["max_buffered"]}
    return sig, min(req_len, resp_len) > 4 * B, sample


def run(ctx):
    tctx, _ = sansio.addon_context()
    opts = tctx.options
    keys = ("body_size_limit", "stream_large_bodies", "store_streamed_bodies", "http2_ping_keepalive")
    defaults = {k: getattr(opts, k) for k in keys}
    try:
        for i in ctx.cases():
            x = ctx.rng.random()
            if i < 2:
                # every worker starts with the two decisive back-pressure shapes (both consumers stalled, HTTP/1 and HTTP/2)
                res = ctx.guard(run_bp_case, ctx, opts, {"proto": "h1" if i == 0 else "h2", "stall": "both"}, what="c07 case")
            elif i - 2 < len(g.TE_MATRIX) // ctx.nworkers + 1 and (i - 2) * ctx.nworkers + ctx.worker < len(g.TE_MATRIX):
                # fixed matrix, split over the workers: Transfer-Encoding spelling x streaming mode x direction
                res = ctx.guard(run_case, ctx, opts, g.gen_te_case(ctx.rng, (i - 2) * ctx.nworkers + ctx.worker), what="c07 case")
            else:
                res = ctx.guard(run_bp_case if x < 0.03 else run_h2_case if x < 0.32 else run_case, ctx, opts, what="c07 case")
            if res is None:
                ctx.case(("aborted",), False)
                continue
            sig, nontrivial, sample = res
            ctx.case(sig, nontrivial, sample)
    finally:
        opts.update(**defaults)
