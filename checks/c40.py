"""C40 -- backup, revert and copy behave exactly.

History monitor on real flow objects of every type (http, http+response, http+error, websocket, tcp,
udp, dns, dns+response).  A case is a random sequence of operations over a small population (the
original flow plus up to two copies): edit (requests, responses, messages, metadata, markers,
comments, errors, websocket data, optional connection fields -- through the public attributes, including
*in-place* mutation of nested containers (headers, trailers, metadata, message lists, certificate lists -- also when they are
present but EMPTY at backup / copy time) and optional sub-objects appearing / disappearing: response,
websocket, error, trailers, certificate lists, sni, server address ...), backup, revert, copy, set_state
from another flow.

The oracle does not use mitmproxy's state machinery to decide: ``observe(flow)`` reads every field an
edit can touch through public attributes (dataclasses.asdict / Headers.fields / message attributes) and
deep-copies it.  The model keeps, per flow, the observation taken at the first backup.

 * modified   : after EVERY operation and for EVERY flow of the population,
                flow.modified() == (backup present and observe(now) != observe(at backup)).
                get_state() without its "backup" key is compared as well (the statement's wording);
                the two views must agree or the harness reports an internal error.
 * revert     : after revert the observation and get_state() (minus "backup") equal what was recorded
                at backup time, get_state()["backup"] is None and modified() is False; revert without
                a backup changes nothing.
 * backup     : backup() itself changes nothing observable; a second backup keeps the first.
 * copy       : fresh id (never seen in this case), not live, equal observation/state apart from id,
                the source is unchanged.
 * save+load  : the flow is written with the real FlowWriter and read back with the real FlowReader; the loaded object replaces
                the flow in the population (same observation, same state, backup still present) and all monitors continue,
                in particular modified() must still be False while the state equals the backup.
 * set_state  : f.set_state(g.get_state()) for two flows of the population makes f equal to g (observation, state, backup).
 * isolation  : an operation on one flow never changes the observation / state of any other flow of
                the population (copy aliasing), checked after every operation.
"""
import copy
import dataclasses
import io
import ipaddress
import os
import traceback

from mitmproxy import certs
from mitmproxy import dns
from mitmproxy import flow
from mitmproxy import http
from mitmproxy import tcp
from mitmproxy import udp
from mitmproxy import websocket
from mitmproxy.io import FlowReader
from mitmproxy.io import FlowWriter
from mitmproxy.test import tflow
from mitmproxy.test import tutils
from vf.core import exc_site
from vf.core import short
from wsproto.frame_protocol import Opcode

PROPERTY = "C40"
LEVEL = "exploration"
BUDGET = {"quick": (1500, 13), "thorough": (14_000, 200)}
WORKERS = {"quick": 2, "thorough": 16}
REQUIRED = ["modified", "revert_restores", "copy_fresh_equal", "isolation", "backup_is_silent", "set_state_makes_equal"]
ENGINE = "direct"
TECHNIQUE = "model-based history monitor with an attribute-level observer"
RULE = (
    "case = flow kind (http, http+resp, http+err, websocket, tcp, udp, dns, dns+resp) x a random sequence of 6-30 "
    "operations (edit / backup / revert / copy / set_state from another flow / save+load through a flow file) over the flow and up to 2 copies; edits include presence changes of optional sub-objects (response, websocket, error, trailers, connection fields) and in-place edits of containers that were None / present-but-empty / non-empty at backup or copy time (trailers, headers, metadata, message lists, certificate lists); edits draw from small value pools so that "
    "no-op edits and edits that return to the backed-up value occur; distinct = (kind, set of edit families used, "
    "#backups, #reverts, #copies, #set_state, #save+load, saw save+load while holding a backup, saw 'state equal to backup while backup present', saw revert-after-edit, saw edit-after-copy) "
    "signature; non-trivial = at least one backup or copy followed by an edit"
)
ASSUMPTIONS = [
    "backup() while a backup already exists keeps the first backup (the code's explicit `if not self._backup`)",
    "a copy inherits the source's backup *content* under its own fresh id: that is the only reading under which 'a copy has a fresh id', 'revert restores exactly the backed-up state' and 'modified exactly when the state differs from the backup' can hold together (a copy of an unedited flow is unmodified, and reverting a copy does not give it the source's id)",
    "a flow loaded from a flow file is a flow like any other: if it carries a backup, modified()/revert() must behave as before it was saved",
    "edits are made through public attributes of the flow and its parts (including optional fields of the two connection objects); the socket state of a connection is documented as not persisted and is not compared",
]
LEVEL_TEXT = (
    "Random operation histories on real Flow objects of all five flow types are checked after every step against a small "
    "model whose notion of 'state' is an independent attribute-level observation. This explores the history space (tens of "
    "thousands of distinct operation mixes) but cannot enumerate it; it is exploration, not proof."
)
LEVEL_NOTE = "Trusted: the observer lists every field the generated edits can touch (cross-checked against get_state on every step)."


# --------------------------------------------------------------------------------------------
# independent observation
# --------------------------------------------------------------------------------------------

def obs_headers(h):
    return None if h is None else tuple(h.fields)


def obs_http_msg(m):
    if m is None:
        return None
    d = m.data
    out = {
        "http_version": d.http_version,
        "headers": obs_headers(d.headers),
        "content": d.content,
        "trailers": obs_headers(d.trailers),
        "ts": (d.timestamp_start, d.timestamp_end),
    }
    if isinstance(m, http.Request):
        out.update(host=d.host, port=d.port, method=d.method, scheme=d.scheme, authority=d.authority, path=d.path)
    else:
        out.update(status_code=d.status_code, reason=d.reason)
    return out


def obs_ws(w):
    if w is None:
        return None
    return {
        "messages": [(int(m.type), m.from_client, m.content, m.timestamp, m.dropped, m.injected) for m in w.messages],
        "closed_by_client": w.closed_by_client,
        "close_code": w.close_code,
        "close_reason": w.close_reason,
        "timestamp_end": w.timestamp_end,
    }


_CERTS = None


def some_certs():
    global _CERTS
    if _CERTS is None:
        base = os.path.join(os.environ.get("VERIF_REPO", "/repo"), "test/mitmproxy/net/data/verificationcerts")
        _CERTS = [certs.Cert.from_pem(open(os.path.join(base, n), "rb").read()) for n in ("self-signed.crt", "trusted-chain.pem")]
    return _CERTS


def obs_val(v):
    if isinstance(v, certs.Cert):
        return ("cert", v.to_pem())
    if isinstance(v, (list, tuple)):
        return [obs_val(x) for x in v]
    if v is None or isinstance(v, (bool, int, float, str, bytes)):
        return v
    return repr(v)  # proxy mode, enums: not edited, compared by repr


def obs_conn(c):
    """Every dataclass field of a connection except the (documented as not persisted) socket state."""
    return {fld.name: obs_val(getattr(c, fld.name)) for fld in dataclasses.fields(c) if fld.name != "state"}


def observe(f):
    o = {
        "client_conn": obs_conn(f.client_conn),
        "server_conn": obs_conn(f.server_conn),
        "id": f.id,
        "marked": f.marked,
        "comment": f.comment,
        "metadata": copy.deepcopy(f.metadata),
        "is_replay": f.is_replay,
        "intercepted": f.intercepted,
        "error": (f.error.msg, f.error.timestamp) if f.error else None,
    }
    if isinstance(f, http.HTTPFlow):
        o["request"] = obs_http_msg(f.request)
        o["response"] = obs_http_msg(f.response)
        o["websocket"] = obs_ws(f.websocket)
    elif isinstance(f, (tcp.TCPFlow, udp.UDPFlow)):
        o["messages"] = [(m.from_client, m.content, m.timestamp) for m in f.messages]
    elif isinstance(f, dns.DNSFlow):
        o["request"] = dataclasses.asdict(f.request)
        o["response"] = dataclasses.asdict(f.response) if f.response else None
    return o


def swb(f):
    s = copy.deepcopy(f.get_state())  # our own copy: a state that aliases the live flow must not fool the monitor
    b = s.pop("backup")
    return s, b


def no_id(d):
    d = dict(d)
    d.pop("id")
    return d


# --------------------------------------------------------------------------------------------
# edits
# --------------------------------------------------------------------------------------------
MARKS = ["", ":red_circle:", "x"]
COMMENTS = ["", "c1", "café"]
HNAMES = ["x-a", "X-A", "cookie", "content-type"]
HVALS = ["1", "2", "text/plain; charset=utf-8"]
BODIES = [b"", b"foo", b"bar\x00\xff", b"{\"a\": 1}"]
PATHS = ["/", "/path", "/p?q=1"]
METHODS = ["GET", "POST", "PUT"]
VERSIONS = ["HTTP/1.1", "HTTP/2.0"]
MSGS = [b"", b"hello", b"\x00\x01", b"it's me"]


def e_marked(r, f):
    f.marked = r.choice(MARKS)


def e_comment(r, f):
    f.comment = r.choice(COMMENTS)


def e_meta_set(r, f):
    f.metadata[r.choice(["k", "j"])] = r.choice([1, "v", None])


def e_meta_del(r, f):
    f.metadata.pop(r.choice(["k", "j", "l", "d"]), None)


def e_meta_nested(r, f):
    # in-place mutation of a nested container (what shallow sharing would leak)
    if r.random() < 0.5:
        f.metadata.setdefault("l", []).append(r.choice([1, 2]))
        if len(f.metadata["l"]) > 2:
            del f.metadata["l"][:]
    else:
        d = f.metadata.setdefault("d", {})
        k = r.choice(["a", "b"])
        if k in d:
            del d[k]
        else:
            d[k] = [0]


def e_error(r, f):
    c = r.randrange(3)
    if c == 0:
        f.error = None
    elif c == 1:
        f.error = flow.Error(r.choice(["boom", "Connection killed."]), 946681207.0)
    elif f.error:
        f.error.msg = r.choice(["boom", "other"])
    else:
        f.error = flow.Error("boom", 946681207.0)


def _msg(r, f, resp):
    return f.response if resp else f.request


def e_http_line(r, f):
    if f.response is not None and r.random() < 0.5:
        c = r.randrange(3)
        if c == 0:
            f.response.status_code = r.choice([200, 404, 503])
        elif c == 1:
            f.response.reason = r.choice(["OK", "Not Found", ""])
        else:
            f.response.http_version = r.choice(VERSIONS)
    else:
        c = r.randrange(4)
        if c == 0:
            f.request.method = r.choice(METHODS)
        elif c == 1:
            f.request.path = r.choice(PATHS)
        elif c == 2:
            f.request.http_version = r.choice(VERSIONS)
        else:
            f.request.host = r.choice(["address", "example.com"])


def e_http_headers(r, f):
    m = _msg(r, f, f.response is not None and r.random() < 0.5)
    c = r.randrange(4)
    name = r.choice(HNAMES)
    if c == 0:
        m.headers[name] = r.choice(HVALS)  # in place
    elif c == 1:
        m.headers.pop(name, None)
    elif c == 2:
        m.headers.add(name, r.choice(HVALS))
        if len(m.headers.fields) > 8:
            m.headers.pop(name, None)
    else:
        m.headers = r.choice([http.Headers(), http.Headers([(b"x-new", r.choice(HVALS).encode())])])  # present but empty / non-empty


def e_http_trailers(r, f):
    """Trailers are None / present-but-empty / non-empty; when present they are edited IN PLACE (not re-assigned)."""
    m = _msg(r, f, f.response is not None and r.random() < 0.5)
    c = r.randrange(7)
    if c == 0 or m.trailers is None:
        m.trailers = r.choice([None, http.Headers(), http.Headers(), http.Headers([(b"t", b"1")])])
        return
    t = m.trailers
    name = r.choice(["t", "x-checksum", "T"])
    if c == 1:
        t[name] = r.choice(HVALS)
    elif c == 2:
        t.add(name, r.choice(HVALS))
        if len(t.fields) > 5:
            t.clear()
    elif c == 3:
        t.insert(0, name.encode(), r.choice(HVALS).encode())
        if len(t.fields) > 5:
            t.clear()
    elif c == 4:
        t.pop(name, None)
    elif c == 5:
        t.clear()
    else:
        t.set_all(name, [r.choice(HVALS), "2"])


def e_empty_containers(r, f):
    """Container-valued fields become present-but-empty (a fresh empty object); later edits fill them in place."""
    c = r.randrange(4)
    if c == 0:
        f.metadata = {}
    elif c == 1:
        (f.client_conn if r.random() < 0.5 else f.server_conn).certificate_list = []
    elif c == 2:
        conn = f.client_conn if r.random() < 0.5 else f.server_conn
        if isinstance(conn.certificate_list, list) and len(conn.certificate_list) < 3:
            conn.certificate_list.append(r.choice(some_certs()))  # in place
        else:
            conn.certificate_list = []
    else:
        if isinstance(f, http.HTTPFlow):
            if f.websocket is not None:
                f.websocket.messages = []
            else:
                f.request.headers = http.Headers()
        elif isinstance(f, (tcp.TCPFlow, udp.UDPFlow)):
            f.messages = []
        elif isinstance(f, dns.DNSFlow):
            (f.response or f.request).answers = []


def e_http_body(r, f):
    m = _msg(r, f, f.response is not None and r.random() < 0.5)
    c = r.randrange(4)
    if c == 0:
        m.content = r.choice(BODIES)
    elif c == 1:
        m.raw_content = r.choice(BODIES)
    elif c == 2:
        m.text = r.choice(["", "foo", "café"])
    else:
        m.trailers = r.choice([None, http.Headers([(b"t", b"1")])])


def e_http_response(r, f):
    c = r.randrange(3)
    if c == 0:
        f.response = None
    elif c == 1:
        f.response = tutils.tresp(content=r.choice(BODIES))
    else:
        f.response = tutils.tresp(status_code=r.choice([200, 404]))


def e_ws_presence(r, f):
    """Optional sub-object appears / disappears (an upgrade attaches WebSocketData to a flow that had none)."""
    c = r.randrange(3)
    if c == 0:
        f.websocket = None
    elif c == 1:
        f.websocket = websocket.WebSocketData()
    else:
        f.websocket = tflow.twebsocket(messages=r.random() < 0.7)


def e_conn(r, f):
    """Presence / value changes of optional connection fields (None <-> value, empty <-> non-empty list)."""
    c = f.client_conn if r.random() < 0.5 else f.server_conn
    k = r.randrange(8)
    if k == 0:
        c.sni = r.choice([None, "example.com", "bücher.example"])
    elif k == 1:
        c.error = r.choice([None, "connection reset"])
    elif k == 2:
        c.certificate_list = r.choice([[], [some_certs()[0]], list(some_certs())])
    elif k == 3:
        if c is f.client_conn:
            c.mitmcert = r.choice([None, some_certs()[0]])
        else:
            c.address = r.choice([None, ("address", 22), ("example.com", 443)])
    elif k == 4:
        c.timestamp_end = r.choice([None, 946681209.0])
    elif k == 5:
        c.alpn = r.choice([None, b"h2", b"http/1.1"])
    elif k == 6:
        c.tls_version = r.choice([None, "TLSv1.3"])
        c.cipher = r.choice([None, "TLS_AES_256_GCM_SHA384"])
    else:
        # in place on a list-valued field
        if not isinstance(c.cipher_list, list) or len(c.cipher_list) > 2:
            c.cipher_list = []
        else:
            c.cipher_list.append("ECDHE-RSA-AES128-SHA")


def e_ws(r, f):
    w = f.websocket
    c = r.randrange(6)
    if c == 0 and len(w.messages) < 6:
        w.messages.append(websocket.WebSocketMessage(r.choice([Opcode.TEXT, Opcode.BINARY]), r.random() < 0.5, r.choice(MSGS), 946681206.0))
    elif c == 1 and w.messages:
        r.choice(w.messages).content = r.choice(MSGS)  # in place on the message object
    elif c == 2 and w.messages:
        m = r.choice(w.messages)
        m.dropped = not m.dropped
    elif c == 3 and w.messages:
        del w.messages[r.randrange(len(w.messages))]
    elif c == 4:
        w.close_code = r.choice([1000, 1001, None])
        w.close_reason = r.choice(["Close Reason", "", None])
    else:
        w.closed_by_client = r.choice([None, True, False])


def e_stream_msgs(r, f):
    cls = tcp.TCPMessage if isinstance(f, tcp.TCPFlow) else udp.UDPMessage
    c = r.randrange(4)
    if c == 0 and len(f.messages) < 6:
        f.messages.append(cls(r.random() < 0.5, r.choice(MSGS), 946681206.0))
    elif c == 1 and f.messages:
        r.choice(f.messages).content = r.choice(MSGS)
    elif c == 2 and f.messages:
        del f.messages[r.randrange(len(f.messages))]
    elif f.messages:
        m = r.choice(f.messages)
        m.from_client = not m.from_client


def e_dns(r, f):
    c = r.randrange(6)
    if c == 0:
        f.response = None if f.response is not None and r.random() < 0.5 else f.request.succeed([])
        if f.response is not None:
            f.response.timestamp = 946681207.0
    elif c == 1 and f.request.questions:
        f.request.questions[0].name = r.choice(["dns.google", "example.com"])  # in place
    elif c == 2:
        f.request.id = r.choice([1, 42])
    elif c == 3 and f.response is not None:
        if len(f.response.answers) < 4 and r.random() < 0.6:
            f.response.answers.append(dns.ResourceRecord.A("dns.google", ipaddress.IPv4Address(r.choice(["8.8.8.8", "8.8.4.4"]))))
        elif f.response.answers:
            f.response.answers.pop()
    elif c == 4 and f.response is not None:
        f.response.response_code = r.choice([0, 3])
    elif c == 5 and f.response is not None and f.response.answers:
        f.response.answers[0].ttl = r.choice([32, 60])


COMMON = [("marked", e_marked), ("comment", e_comment), ("meta", e_meta_set), ("meta", e_meta_del), ("meta_nested", e_meta_nested), ("error", e_error), ("conn", e_conn), ("empty_containers", e_empty_containers)]


def edits_for(f):
    ops = list(COMMON)
    if isinstance(f, http.HTTPFlow):
        ops += [("http_line", e_http_line), ("http_headers", e_http_headers), ("http_headers", e_http_headers), ("http_body", e_http_body), ("http_response", e_http_response), ("ws_presence", e_ws_presence), ("http_trailers", e_http_trailers), ("http_trailers", e_http_trailers)]
        if f.websocket is not None:
            ops += [("ws", e_ws)] * 3
    elif isinstance(f, (tcp.TCPFlow, udp.UDPFlow)):
        ops += [("messages", e_stream_msgs)] * 3
    elif isinstance(f, dns.DNSFlow):
        ops += [("dns", e_dns)] * 3
    return ops


KINDS = ["http", "http+resp", "http+err", "ws", "tcp", "udp", "dns", "dns+resp"]


def make_flow(kind, r):
    if kind == "http":
        f = tflow.tflow()
    elif kind == "http+resp":
        f = tflow.tflow(resp=True)
    elif kind == "http+err":
        f = tflow.tflow(err=True)
    elif kind == "ws":
        f = tflow.tflow(resp=True, ws=True)
    elif kind == "tcp":
        f = tflow.ttcpflow(err=r.random() < 0.2 or None)
    elif kind == "udp":
        f = tflow.tudpflow(err=r.random() < 0.2 or None)
    elif kind == "dns":
        f = tflow.tdnsflow()
    else:
        f = tflow.tdnsflow(resp=True)
    if r.random() < 0.3:
        f.marked = r.choice(MARKS)
    if r.random() < 0.3:
        f.metadata["l"] = [1]
    if r.random() < 0.2:
        f.live = False
    if isinstance(f, http.HTTPFlow) and r.random() < 0.35:
        # trailers present from the start: empty (an h2 stream that ended with an empty trailing HEADERS frame) or filled
        f.request.trailers = r.choice([http.Headers(), http.Headers([(b"t", b"1")])])
        if f.response is not None:
            f.response.trailers = r.choice([http.Headers(), http.Headers(), http.Headers([(b"t", b"1")])])
    return f


# --------------------------------------------------------------------------------------------
# model
# --------------------------------------------------------------------------------------------
class Tracked:
    def __init__(self, f, name):
        self.f = f
        self.name = name
        self.has_backup = False
        self.obs_b = None  # observation at (first) backup
        self.state_b = None  # get_state() minus backup at (first) backup
        self.foreign_backup = False  # the backup was inherited through copy() from a flow with another id
        self.reloaded_with_backup = False  # the flow went through a flow file (save + load) while holding this backup


class HarnessInconsistent(Exception):
    pass


def classify(kind, info):
    """Mechanism from the history: which operation preceded and how the state relates to the backup."""
    if kind == "modified-wrong" and info.get("expected") is False and info.get("has_backup") and info.get("got") is True:
        if info.get("foreign_backup") and not info.get("backup_id_is_own"):
            return "copy-backup-carries-source-id"
        if info.get("reloaded_with_backup"):
            return "backup-loaded-from-file-compares-lists-with-tuples"
        return "modified-true-while-state-equals-backup"
    if kind == "revert-not-exact" and info.get("foreign_backup") and info.get("diff_keys") == ["id"] and info.get("state_diff_keys") == ["id"]:
        return "copy-backup-carries-source-id"
    return None


def run_case(ctx, r, kind):
    f0 = make_flow(kind, r)
    pop = [Tracked(f0, "f0")]
    ids_seen = {f0.id}
    hist = []
    fam_used = set()
    n_backup = n_revert = n_copy = n_adopt = n_reload = 0
    saw_reload_with_backup = False
    saw_equal_with_backup = saw_revert_after_edit = saw_edit_after_copy = False
    edit_after_backup_or_copy = False
    dirty = {}  # name -> edited since backup

    def witness(extra):
        return {"kind": kind, "history": hist[-40:], **extra}

    def check_all(target, before):
        # isolation: nobody but the target changed
        for t in pop:
            if t is target or t.name not in before:
                continue
            ctx.count("isolation")
            now = (observe(t.f), swb(t.f))
            if now != before[t.name]:
                ctx.violation(
                    "other-flow-changed",
                    witness({"changed": t.name, "by_op_on": target.name, "diff_keys": [k for k in now[0] if now[0][k] != before[t.name][0].get(k)]}),
                    classify("other-flow-changed", {}),
                )
        # modified() on everyone
        nonlocal saw_equal_with_backup
        for t in pop:
            o = observe(t.f)
            s, b = swb(t.f)
            exp_obs = t.has_backup and o != t.obs_b
            exp_state = t.has_backup and s != t.state_b
            if exp_obs != exp_state:
                raise HarnessInconsistent(f"observer and get_state disagree on {t.name}: {hist[-6:]} obs={exp_obs} state={exp_state}")
            if t.has_backup and not exp_obs:
                saw_equal_with_backup = True
            ctx.count("modified")
            got = t.f.modified()
            if got != exp_obs:
                info = {"expected": exp_obs, "got": got, "has_backup": t.has_backup, "foreign_backup": t.foreign_backup, "reloaded_with_backup": t.reloaded_with_backup, "backup_id_is_own": b is not None and b.get("id") == s.get("id")}
                ctx.violation("modified-wrong", witness({"flow": t.name, **info}), classify("modified-wrong", info))
            ctx.count("backup_presence")
            if (b is not None) != t.has_backup:
                ctx.violation("backup-presence-wrong", witness({"flow": t.name, "state_backup_is_none": b is None, "model_has_backup": t.has_backup}), None)

    nops = r.randint(6, 30)
    check_all(pop[0], {})
    for step in range(nops):
        t = r.choice(pop)
        before = {x.name: (observe(x.f), swb(x.f)) for x in pop}
        x = r.random()
        if x < 0.05:
            # save to a flow file and load again (real FlowWriter / FlowReader): the loaded flow replaces the object
            hist.append(f"{t.name}.save+load")
            n_reload += 1
            buf = io.BytesIO()
            FlowWriter(buf).add(t.f)
            buf.seek(0)
            loaded = list(FlowReader(buf).stream())
            ctx.count("save_load_keeps_flow")
            g = loaded[0] if len(loaded) == 1 else None
            if g is None or type(g) is not type(t.f):
                ctx.violation("save-load-changed-flow", witness({"flow": t.name, "loaded": len(loaded)}), None)
            else:
                o, (s, b) = observe(g), swb(g)
                bo, (bs, bb) = before[t.name]
                if o != bo or s != bs or (b is None) != (bb is None):
                    ctx.violation("save-load-changed-flow", witness({"flow": t.name, "diff_keys": [k for k in o if o[k] != bo.get(k)], "state_diff_keys": [k for k in s if s[k] != bs.get(k)]}), None)
                t.f = g
                if t.has_backup:
                    t.reloaded_with_backup = True
                    saw_reload_with_backup = True
        elif x < 0.55:
            fam, fn = r.choice(edits_for(t.f))
            hist.append(f"{t.name}.edit:{fam}")
            fam_used.add(fam)
            fn(r, t.f)
            if n_backup or n_copy:
                edit_after_backup_or_copy = True
            if t.has_backup:
                dirty[t.name] = True
            if t.name != "f0" or len(pop) > 1:
                saw_edit_after_copy = True
        elif x < 0.72:
            hist.append(f"{t.name}.backup")
            n_backup += 1
            t.f.backup()
            ctx.count("backup_is_silent")
            now = (observe(t.f), swb(t.f)[0])
            if now != (before[t.name][0], before[t.name][1][0]):
                ctx.violation("backup-changed-flow", witness({"flow": t.name}), None)
            if not t.has_backup:
                t.has_backup = True
                t.obs_b = before[t.name][0]
                t.state_b = before[t.name][1][0]
                t.foreign_backup = t.reloaded_with_backup = False
                dirty[t.name] = False
        elif x < 0.87:
            hist.append(f"{t.name}.revert")
            n_revert += 1
            t.f.revert()
            o = observe(t.f)
            s, b = swb(t.f)
            if t.has_backup:
                if dirty.get(t.name):
                    saw_revert_after_edit = True
                ctx.count("revert_restores")
                if o != t.obs_b or s != t.state_b:
                    info = {"diff_keys": [k for k in o if o[k] != t.obs_b.get(k)], "state_diff_keys": [k for k in s if s[k] != t.state_b.get(k)], "foreign_backup": t.foreign_backup, "reloaded_with_backup": t.reloaded_with_backup}
                    ctx.violation("revert-not-exact", witness({"flow": t.name, **info}), classify("revert-not-exact", info))
                ctx.count("revert_clears_backup")
                if b is not None or t.f._backup:
                    ctx.violation("revert-keeps-backup", witness({"flow": t.name}), None)
                if t.name != "f0" and o["id"] != before[t.name][0]["id"]:
                    ctx.count("observed.copy_revert_takes_source_id")
                t.has_backup = False
                t.obs_b = t.state_b = None
                t.foreign_backup = t.reloaded_with_backup = False
                dirty[t.name] = False
            else:
                ctx.count("revert_without_backup_noop")
                if (o, (s, b)) != before[t.name]:
                    ctx.violation("revert-without-backup-changed-flow", witness({"flow": t.name}), None)
        elif len(pop) < 3 and (len(pop) < 2 or r.random() < 0.6):
            hist.append(f"{t.name}.copy")
            n_copy += 1
            g = t.f.copy()
            name = f"c{len(pop)}"
            ctx.count("copy_fresh_equal")
            og = observe(g)
            sg, bg = swb(g)
            bo, (bs, bb) = before[t.name]
            problems = []
            if g.id in ids_seen:
                problems.append("id-not-fresh")
            if g.live:
                problems.append("copy-is-live")
            if type(g) is not type(t.f):
                problems.append("type-differs")
            if no_id(og) != no_id(bo):
                problems.append("observation-differs")
            if no_id(sg) != no_id(bs):
                problems.append("state-differs")
            if (bg is None) != (bb is None) or (bg is not None and no_id(bg) != no_id(bb)):
                problems.append("backup-differs")
            if problems:
                ctx.violation("copy-wrong:" + ",".join(problems), witness({"flow": t.name, "diff_keys": [k for k in og if k != "id" and og[k] != bo.get(k)]}), None)
            ids_seen.add(g.id)
            tg = Tracked(g, name)
            tg.has_backup = t.has_backup
            tg.obs_b = copy.deepcopy(t.obs_b)
            tg.state_b = copy.deepcopy(t.state_b)
            if tg.has_backup:
                # "a copy has a fresh id" and "revert restores exactly the backed-up state" can only both hold if the copy's
                # backup is the copy's own: same content as the source's backup, under the copy's id
                tg.obs_b["id"] = g.id
                tg.state_b["id"] = g.id
                tg.foreign_backup = True
                tg.reloaded_with_backup = t.reloaded_with_backup
            dirty[name] = dirty.get(t.name, False)
            pop.append(tg)
            # the source must be unchanged: handled by check_all with target = the new copy
            t = tg
        else:
            # set_state(get_state of another flow of the population): afterwards the two are equal in every respect
            src = r.choice([x for x in pop if x is not t])
            hist.append(f"{t.name}.set_state({src.name}.get_state())")
            n_adopt += 1
            t.f.set_state(src.f.get_state())
            ctx.count("set_state_makes_equal")
            o, (st, b) = observe(t.f), swb(t.f)
            so, (ss, sb) = before[src.name]
            if o != so or st != ss or b != sb:
                ctx.violation(
                    "set-state-not-exact",
                    witness({"flow": t.name, "source": src.name, "diff_keys": [k for k in o if o[k] != so.get(k)], "state_diff_keys": [k for k in st if st[k] != ss.get(k)], "backup_equal": b == sb}),
                    None,
                )
            t.has_backup = src.has_backup
            t.obs_b = copy.deepcopy(src.obs_b)
            t.state_b = copy.deepcopy(src.state_b)
            t.foreign_backup, t.reloaded_with_backup = src.foreign_backup, src.reloaded_with_backup
            dirty[t.name] = dirty.get(src.name, False)
        check_all(t, before)
    sig = (
        kind,
        tuple(sorted(fam_used)),
        min(n_backup, 3),
        min(n_revert, 3),
        n_copy,
        min(n_adopt, 2),
        min(n_reload, 2),
        saw_reload_with_backup,
        saw_equal_with_backup,
        saw_revert_after_edit,
        saw_edit_after_copy,
    )
    return sig, edit_after_backup_or_copy, {"kind": kind, "history": hist}


def run(ctx):
    for i in ctx.cases():
        r = ctx.rng
        kind = KINDS[(i * ctx.nworkers + ctx.worker) % len(KINDS)]
        try:
            out = run_case(ctx, r, kind)
        except HarnessInconsistent:
            raise
        except Exception as e:  # any exception escaping backup/revert/copy/modified or a public-attribute edit
            site = exc_site(e)
            ctx.violation(
                f"unexpected-exception:{type(e).__name__}@{site}",
                {"kind": kind, "exc": short(repr(e)), "tb": traceback.format_exc()[-1500:]},
                None,
            )
            ctx.case(("aborted", kind), nontrivial=False)
            continue
        sig, nontrivial, sample = out
        ctx.case(sig, nontrivial=nontrivial, sample=sample)
