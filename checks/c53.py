"""C53 -- client replay runs queued flows sequentially and cleans up.

Engine B: the real ClientPlayback addon (real playback task, ReplayHandler = real ConnectionHandler + HttpLayer +
MockServer) inside a real taddons.context on the virtual-time loop; asyncio.open_connection is replaced by an
in-memory origin with a per-flow plan (response delay, refuse connect, reset without answer, slow connect).
Monitors (M1 over one global, program-ordered event log: arrival of each tagged request at the origin, response /
error hooks seen by a recorder addon, stop_replay calls):
  sequential     with client_replay_concurrency=1 a request arrives only after every earlier replayed flow completed
  queue_order    arrivals follow queue order
  outcome        once the queue has drained every replayed flow has exactly one of response / error (hook and attribute)
  never_queued   live / intercepted / content-less / non-HTTP / WebSocket flows never reach the origin nor get modified
  stop_restores  after stop_replay every flow that was still queued has get_state() equal to its state before start_replay
"""
import asyncio

from mitmproxy import http
from mitmproxy.addons import clientplayback
from mitmproxy.proxy import server
from mitmproxy.test import taddons, tflow

from vf import vloop

PROPERTY = "C53"
LEVEL = "exploration"
ENGINE = "vloop"
BUDGET = {"quick": (400, 16), "thorough": (30000, 220)}
WORKERS = {"quick": 4, "thorough": 16}
REQUIRED = ["sequential", "queue_order", "outcome", "never_queued", "stop_restores", "inflight_not_queued", "killed_inflight_then_resubmitted", "stop_empties_queue", "stop_with_duplicate_submission", "held_in_final_hook"]
TECHNIQUE = "runtime monitoring: real ClientPlayback on a virtual-time loop with an in-memory origin; ordered event-log checker"
RULE = (
    "case = (1-8 flows of kinds replayable / live / intercepted / no-content / tcp / websocket / already-modified, per-flow origin plan, "
    "stop_replay time, re-submission); signature = (sorted flow kinds, sorted origin faults, stop phase [none/before/mid/after], resubmitted); "
    "non-trivial iff >=2 replayable flows or a stop_replay landed while flows were queued"
)
ASSUMPTIONS = ["client_replay_concurrency = 1 (the property's scope)", "'pre-replay state' excludes the backup bookkeeping itself (state minus 'backup')"]
LEVEL_TEXT = "Exploration in virtual time of queue/stop/failure interleavings of the real addon; decides observed histories with an ordered log."
LEVEL_NOTE = "Trusted: vf/vloop.py; the origin is an in-memory fake behind asyncio.open_connection."

KINDS = ["ok", "ok", "ok", "modified", "live", "intercepted", "nocontent", "tcp", "websocket"]


class Recorder:
    def __init__(self, log, loop, holds=None):
        self.log = log
        self.loop = loop
        self.holds = holds if holds is not None else {}

    def _maybe_hold(self, f):
        # an addon/script intercepts the replayed flow in its final hook (the stock intercept addon skips replays) and the
        # user resumes it later: the replay is finished only then
        d = self.holds.get(f.request.path)
        if d is not None and not f.intercepted:
            f.intercept()
            self.log.append(("held", f.request.path, self.loop.now()))

            def resume():
                self.log.append(("resumed", f.request.path, self.loop.now()))
                f.resume()

            self.loop.call_later(d, resume)

    def response(self, f):
        self.log.append(("response", f.request.path, self.loop.now()))
        self._maybe_hold(f)

    def error(self, f):
        self.log.append(("error", f.request.path, self.loop.now()))
        self._maybe_hold(f)

    def request(self, f):
        self.log.append(("request_hook", f.request.path, self.loop.now()))

    def requestheaders(self, f):
        # first hook of every replay: a replay of a flow that was killed in the meantime ends before the request hook
        self.log.append(("replay_start", f.request.path, self.loop.now()))


def state_wo_backup(f):
    s = f.get_state()
    s.pop("backup", None)
    return s


def make_flow(r, k, kind):
    if kind == "tcp":
        return tflow.ttcpflow()
    f = tflow.tflow(resp=True, ws=(kind == "websocket"))
    f.request.host = "10.0.0.5"
    f.request.port = 80
    f.request.scheme = "http"
    f.request.path = f"/t{k}-{r.getrandbits(24):06x}"
    f.request.headers["host"] = "10.0.0.5"
    f.live = False
    if kind == "live":
        f.live = True
    elif kind == "intercepted":
        f.intercept()
    elif kind == "nocontent":
        f.request.raw_content = None
    elif kind == "modified":
        f.backup()
        f.request.headers["x-user-edit"] = "1"
        f.comment = "edited by user"
    return f


def run_case(ctx, r):
    loop = vloop.VLoop()
    asyncio.set_event_loop(loop)
    restore = vloop.patch_time(loop, server, clientplayback)
    log = []
    n = r.choice([1, 2, 3, 4, 6, 8])
    kinds = [r.choice(KINDS) for _ in range(n)]
    plans = {}
    orig_open = asyncio.open_connection
    world = vloop.World(loop)

    async def fake_open(host, port, local_addr=None, **kw):
        conn_no = len(world.sockets)
        reader = vloop.FakeReader()
        writer = vloop.FakeWriter(world, f"o{conn_no}", (host, port), peername=(host, port))
        st = {"buf": bytearray(), "plan": None}
        # the plan is chosen when the request head arrives (it names the flow)
        pre = plans.get("__connect__", [])
        mode = pre.pop(0) if pre else "ok"
        if mode == "refuse":
            raise ConnectionRefusedError("refused (injected)")
        if mode == "slow":
            await asyncio.sleep(7)
        world.opened(writer)
        orig_write = writer.write

        def write(data):
            orig_write(data)
            st["buf"] += data
            if b"\r\n\r\n" in st["buf"] and st["plan"] is None:
                line = bytes(st["buf"]).split(b"\r\n", 1)[0]
                path = line.split(b" ")[1].decode()
                log.append(("arrival", path, loop.now()))
                st["plan"] = plans.get(path, ("ok", 0.1))
                kind, delay = st["plan"]

                async def answer():
                    await asyncio.sleep(delay)
                    if writer.closed:
                        return
                    if kind == "ok":
                        reader.feed(b"HTTP/1.1 200 OK\r\ncontent-length: 2\r\nx-path: " + path.encode() + b"\r\n\r\nok")
                    elif kind == "oksplit":
                        reader.feed(b"HTTP/1.1 200 OK\r\ncontent-length: 2\r\nx-path: " + path.encode() + b"\r\n\r\n")
                        await asyncio.sleep(1.5)
                        if not writer.closed:
                            reader.feed(b"ok")
                    elif kind == "reset":
                        reader.feed_error(ConnectionResetError("reset (injected)"))
                    elif kind == "eof":
                        reader.feed_eof()
                    elif kind == "garbage":
                        reader.feed(b"NOT HTTP AT ALL\r\n\r\n")

                t = loop.create_task(answer())
                writer.on_close = t.cancel

        writer.write = write
        return reader, writer

    asyncio.open_connection = fake_open
    result = {}

    async def main():
        cp = clientplayback.ClientPlayback()
        holds = {}
        rec = Recorder(log, loop, holds)
        from mitmproxy.addons.proxyserver import Proxyserver

        with taddons.context(cp, rec, Proxyserver()) as tctx:
            flows = [make_flow(r, k, kinds[k]) for k in range(n)]
            for f in flows:
                if isinstance(f, http.HTTPFlow):
                    plans[f.request.path] = (r.choice(["ok", "ok", "oksplit", "oksplit", "reset", "eof", "garbage"]), r.choice([0.05, 0.5, 3]))
                    if r.random() < 0.25:
                        holds[f.request.path] = r.choice([0.2, 2.0, 6.0])
            plans["__connect__"] = [r.choice(["ok", "ok", "ok", "refuse", "slow"]) for _ in range(n * 2)]
            before = [state_wo_backup(f) for f in flows]
            result.update(flows=flows, before=before, kinds=kinds, plans=dict(plans), holds=dict(holds))
            cp.running()
            submit = list(flows)
            dup = None
            if r.random() < 0.25:
                # the same flow submitted twice (e.g. selected twice in the UI): both copies are queued
                cand = [i for i, (f, k) in enumerate(zip(flows, kinds)) if k in ("ok", "modified")]
                if cand:
                    i = r.choice(cand[:2])
                    submit.insert(i + 1, flows[i])
                    dup = flows[i]
            result["dup"] = dup is not None
            log.append(("start_replay", None, loop.now()))
            cp.start_replay(submit)
            result["queued_after_start"] = cp.count()
            stop_at = r.choice([None, None, 0.0, 0.3, 1.0, 4.0, 30.0])
            result["stop_at"] = stop_at
            resubmit = r.random() < 0.2
            result["resubmit"] = resubmit
            stopped = {"done": False}

            def do_stop():
                # which flows are still queued (not inflight, not done)?
                q = list(cp.queue._queue)
                result["queued_at_stop"] = q
                result["inflight_at_stop"] = cp.inflight
                log.append(("stop", None, loop.now()))
                cp.stop_replay()
                stopped["done"] = True
                result["left_in_queue_by_stop"] = [f.request.path for f in cp.queue._queue]
                result["after_stop"] = [(f, state_wo_backup(f), f.get_state().get("backup")) for f in q]

            if stop_at is not None:
                loop.call_later(stop_at, do_stop)
            kill_inflight = resubmit and r.random() < 0.5
            result["kill_inflight"] = kill_inflight

            def do_resubmit():
                # optionally the user kills the flow that is being replayed right now, then submits everything again:
                # the in-flight flow is not replayable (it is being replayed), whatever its live flag says
                infl = cp.inflight
                n_before = sum(1 for q in cp.queue._queue if q is infl)  # a duplicate submitted earlier may legitimately wait there
                if kill_inflight and infl is not None and infl.killable:
                    infl.kill()
                    log.append(("kill_inflight", infl.request.path, loop.now()))
                    result["killed_inflight"] = infl
                log.append(("start_replay", None, loop.now()))
                cp.start_replay([f for f in flows if isinstance(f, http.HTTPFlow)])
                if infl is not None and cp.inflight is infl and sum(1 for q in cp.queue._queue if q is infl) > n_before:
                    result["inflight_queued_again"] = infl.request.path

            if resubmit:
                loop.call_later(r.choice([0.2, 0.6, 2.0, 10.0]), do_resubmit)
            # wait until drained (bounded)
            for _ in range(400):
                await asyncio.sleep(0.5)
                if cp.count() == 0 and (stop_at is None or stopped["done"]) and loop.now() > 1_000_000 + 12:
                    break
            result["drained"] = cp.count() == 0
            await cp.done()
            tctx.master._legacy_log_events.uninstall()
        return True

    try:
        ok, dead = vloop.run(loop, main())
        result["deadlock"] = dead
        return result, log
    finally:
        asyncio.open_connection = orig_open
        restore()
        try:
            for t in asyncio.all_tasks(loop):
                t.cancel()
            loop.run_until_complete(asyncio.sleep(0))
        except BaseException:
            pass
        loop.close()
        asyncio.set_event_loop(None)


def classify(kind, info):
    if kind == "stop-does-not-restore-pre-replay-state" and info.get("had_backup_before_replay"):
        return "flow-with-existing-backup-reverts-to-older-backup"
    return None


def check(ctx, result, log):
    flows, kinds, before = result["flows"], result["kinds"], result["before"]
    path = lambda f: f.request.path if isinstance(f, http.HTTPFlow) else None  # noqa: E731
    witness = {"kinds": kinds, "plans": {k: v for k, v in result["plans"].items()}, "holds": result.get("holds"), "stop_at": result.get("stop_at"), "resubmit": result.get("resubmit"), "kill_inflight": result.get("kill_inflight"), "log": [(a, b, round(c - 1_000_000, 3)) for a, b, c in log][:80]}
    replayable = [f for f, k in zip(flows, kinds) if k in ("ok", "modified")]
    # ---- never queued
    ctx.count("never_queued")
    for f, k, b in zip(flows, kinds, before):
        if k in ("live", "intercepted", "nocontent", "tcp", "websocket"):
            p = path(f)
            if p and any(e[0] == "arrival" and e[1] == p for e in log):
                ctx.violation("unreplayable-flow-reached-origin", {**witness, "kind": k, "path": p})
            if state_wo_backup(f) != b:
                ctx.violation("unreplayable-flow-was-modified", {**witness, "kind": k})
    ctx.count("inflight_not_queued")
    if result.get("killed_inflight") is not None:
        ctx.count("killed_inflight_then_resubmitted")
    if result.get("inflight_queued_again"):
        ctx.violation("in-flight-flow-queued-again", {**witness, "path": result["inflight_queued_again"], "killed_first": result.get("killed_inflight") is not None})
    # ---- sequential + order (per submission epoch; resubmission makes order ambiguous -> only sequential is checked then)
    ctx.count("sequential")
    inflight = None
    held = set()
    for idx, e in enumerate(log):
        if e[0] == "arrival":
            if inflight is not None:
                ctx.violation("request-sent-before-previous-replay-finished", {**witness, "arrived": e[1], "still_in_flight": inflight, "previous_held_in_final_hook": inflight in held})
            inflight = e[1]
        elif e[0] in ("response", "error") and e[1] == inflight:
            # the final hook: the replay ends here unless the flow is intercepted in it (then "held" follows at the same instant)
            nxt = log[idx + 1] if idx + 1 < len(log) else None
            if not (nxt and nxt[0] == "held" and nxt[1] == e[1]):
                inflight = None
        elif e[0] == "held":
            ctx.count("held_in_final_hook")
            held.add(e[1])
            if inflight is None:
                inflight = e[1]  # failed before anything reached the origin (refused connect): still unfinished while held
        elif e[0] in ("resumed", "kill_inflight") and e[1] in held:
            # resumed by the user, or killed (kill() resumes an intercepted flow): the final hook completes now
            held.discard(e[1])
            if inflight == e[1]:
                inflight = None
    if "left_in_queue_by_stop" in result:
        ctx.count("stop_empties_queue")
        if result["dup"]:
            ctx.count("stop_with_duplicate_submission")
        if result["left_in_queue_by_stop"]:
            ctx.violation("stop-leaves-flows-queued", {**witness, "left": result["left_in_queue_by_stop"], "duplicate_submission": result["dup"]})
    ctx.count("queue_order")
    if not result.get("resubmit") and not result.get("dup"):
        arrivals = [e[1] for e in log if e[0] == "arrival"]
        req_hooks = [e[1] for e in log if e[0] == "request_hook"]
        want = [path(f) for f in replayable]
        it = iter(want)
        if not all(a in it for a in req_hooks):
            ctx.violation("replay-order-differs-from-queue-order", {**witness, "request_hooks": req_hooks, "queue": want})
    # ---- outcome
    ctx.count("outcome")
    if result.get("deadlock") or not result.get("drained"):
        ctx.violation("replay-queue-never-drains", witness)
    else:
        stopped_paths = {path(f) for f in result.get("queued_at_stop", [])}
        for f in replayable:
            p = path(f)
            started = any(e[0] == "replay_start" and e[1] == p for e in log)
            outs = [e[0] for e in log if e[0] in ("response", "error") and e[1] == p]
            if started:
                n_expected = sum(1 for e in log if e[0] == "replay_start" and e[1] == p)
                if len(outs) != n_expected:
                    ctx.violation("replayed-flow-without-exactly-one-outcome", {**witness, "path": p, "outcomes": outs, "replays_started": n_expected})
                elif not (f.response or f.error) and p not in stopped_paths:
                    ctx.violation("replayed-flow-has-neither-response-nor-error", {**witness, "path": p})
            elif p not in stopped_paths and not result.get("resubmit") and result.get("stop_at") is None:
                ctx.violation("queued-flow-never-replayed", {**witness, "path": p})
    # ---- stop restores
    if "after_stop" in result:
        for f, st, bk in result["after_stop"]:
            if f is result.get("inflight_at_stop"):
                continue  # queued again while being replayed: it is in flight, not "still queued"
            ctx.count("stop_restores")
            i = next(i for i, g in enumerate(flows) if g is f)
            if st != before[i]:
                diff = [k for k in st if st.get(k) != before[i].get(k)]
                info = {"had_backup_before_replay": kinds[i] == "modified"}
                ctx.violation("stop-does-not-restore-pre-replay-state", {**witness, "kind": kinds[i], "differs_in": diff}, classify("stop-does-not-restore-pre-replay-state", info))
    else:
        ctx.count("stop_restores", 0)


def run(ctx):
    for i in ctx.cases():
        r = ctx.rng
        try:
            result, log = run_case(ctx, r)
        except Exception as e:
            import traceback

            ctx.violation("harness-or-addon-crash", {"exc": repr(e), "tb": traceback.format_exc()[-1800:]})
            ctx.case(("crash",), False)
            continue
        check(ctx, result, log)
        faults = sorted({v[0] for k, v in result["plans"].items() if k != "__connect__" and v[0] not in ("ok", "oksplit")})
        phase = "none" if result.get("stop_at") is None else ("queued" if result.get("queued_at_stop") else "empty")
        nrep = sum(1 for k in result["kinds"] if k in ("ok", "modified"))
        ctx.case((tuple(sorted(set(result["kinds"]))), tuple(faults), phase, bool(result.get("resubmit")), min(nrep, 4)), nrep >= 2 or phase == "queued", {"kinds": result["kinds"], "stop_at": result.get("stop_at"), "events": [(a, b) for a, b, c in log][:20]})
