"""C04 -- blocked layers process events exactly once, in order.

Scripted PROBE layers (real mitmproxy.proxy.layer.Layer subclasses, so the real handle_event / __continue /
__process run) log ("start", uid), yield a scripted mix of blocking commands (own StartHook subclass,
OpenConnection) and non-blocking ones (SendData, RequestWakeup), log every reply, then ("end", uid).  They are
composed into the topologies the real proxy uses:

  single         one probe
  router         a parent that routes data by connection and completions by command source (the HttpLayer pattern)
  next-*         the real layer.NextLayer in front, the decision taken at the k-th question
  tunnel-*       a real tunnel.TunnelLayer subclass that is ESTABLISHING when events arrive (own blocking hook in the
                 handshake), child = probe or router
  lazy-tunnel    the tunnel is brought up by the child's OpenConnection (the ServerTLSLayer pattern)

A tiny dedicated driver feeds an interleaving of {event for A, event for B, completion of the i-th outstanding
command}.  Monitors on the real log (direct, from the statement): exactly_once, arrival_order, no_reentry,
own_completion, sibling_not_blocked, handler_state_current (probes are two-state machines: op X reassigns
self._handle_event like TCP/UDP/DNS/WebSocket layers do; every event must be handled by the state its predecessors left
behind, also when it was queued); live_equals_queued (real DNSLayer / TCPLayer / UDPLayer: the same events delivered
while a hook is pending produce the same commands as when every completion is immediate); and trace_equals_spec: the complete stamped log and the sequence of emitted
commands equal those of the independent sequential specification vf/ref/c04_seqspec.py ("one queue per layer").
"""
from __future__ import annotations

import random
from dataclasses import dataclass

from mitmproxy import connection
from mitmproxy import options
from mitmproxy.proxy import commands
from mitmproxy.proxy import context
from mitmproxy.proxy import events
from mitmproxy.proxy import layer
from mitmproxy.proxy import tunnel

from vf.core import exc_site
from vf.ref import c04_seqspec as S

PROPERTY = "C04"
LEVEL = "exploration"
ENGINE = "sansio"
TECHNIQUE = "bounded exhaustive interleaving enumeration + random schedules; log replay against an independent sequential specification"
BUDGET = {"quick": (2500, 13), "thorough": (400_000, 150)}
WORKERS = {"quick": 4, "thorough": 16}
REQUIRED = ["exactly_once", "arrival_order", "no_reentry", "own_completion", "sibling_not_blocked", "trace_equals_spec", "nextlayer_replay_order", "tunnel_queue_order", "handler_state_current", "live_equals_queued", "long_pause", "long_pause_real", "long_pause_bytes_relayed"]
RULE = (
    "case = (topology in {single, router, next-single, next-router, tunnel-single, tunnel-router, lazy-tunnel}, script family "
    "[which commands each probe yields per event: blocking hook / blocking open / send / wakeup / handler-state switch], parameters [k-th question decides, "
    "handshake length, tunnel's own blocking hook], interleaving string over {a = event for A, b = event for B, i = completion of the "
    "i-th oldest outstanding command}); all strings of length 6 (quick) / 7 (thorough) are enumerated for every listed "
    "(topology, family, parameter) configuration, followed by random strings of length <= 40 with random scripts; distinct = "
    "(configuration, interleaving string) for the enumeration and (topology, length class, queue-depth class, command kinds, features) for "
    "random ones; plus real DNS/TCP/UDP layers fed 2-7 generated events (valid/malformed DNS messages, data, one final close) live vs. with delayed "
    "hook completions (distinct = layer, #events, hooks seen, closes); plus long-pause cases (24 quick / 204 thorough and 0.4% of the random cases): "
    "255 ... 5000 events (powers of two and their neighbours) arrive during ONE pause of a probe / router / NextLayer / tunnel or of a real "
    "TCP/UDP/DNS layer with one message hook pending; non-trivial iff at least one event arrived while its layer (or a layer in front of it) was waiting / undecided / establishing"
)
ASSUMPTIONS = [
    "every outstanding command is eventually completed exactly once by the environment (what ConnectionHandler guarantees); the run is closed by completing outstanding commands oldest-first",
    "hook replies carry a unique value per command (the real server always replies None) so that a reply delivered to the wrong generator is observable",
    "data for a server connection is only generated while that connection is open",
]
LEVEL_TEXT = (
    "Exploration with a bounded exhaustive core: for each listed topology/script configuration every interleaving of data events "
    "and completions up to length 6 (quick) or 7 (thorough) is executed against the real Layer/NextLayer/TunnelLayer code, then random "
    "longer schedules. Each run is decided exactly by replaying the stamped probe log against an independent one-queue-per-layer model; "
    "longer interleavings and other script mixes are only sampled."
)
LEVEL_NOTE = "trusted: vf/ref/c04_seqspec.py (explicit program-counter model, no generators), the dedicated feed/complete loop in this module"


@dataclass
class C04ProbeHook(commands.StartHook):
    key: str


_OPTS = None


def _opts():
    global _OPTS
    if _OPTS is None:
        _OPTS = options.Options()
    return _OPTS


# ---------------------------------------------------------------------------------------------
# real side
# ---------------------------------------------------------------------------------------------

def uid_of(ev):
    if isinstance(ev, events.Start):
        return "S"
    if isinstance(ev, events.DataReceived):
        return ev.data.decode()
    if isinstance(ev, events.Wakeup):
        return "w/" + getattr(ev.command, "c04key", "?")
    if isinstance(ev, events.CommandCompleted):
        return "?done/" + str(getattr(ev.command, "c04key", "?"))
    return "?" + type(ev).__name__


class Probe(layer.Layer):
    def __init__(self, ctx, name, h):
        super().__init__(ctx)
        self.name = name
        self.h = h

    def _ops(self, uid):
        h = self.h
        for k, op in enumerate(h.script(self.name, uid)):
            key = f"{self.name}/{uid}/{k}{op}"
            if op == "X":
                # state-machine idiom of the real layers (TCP/UDP/DNS/WebSocket/modes): switch the handler, no command
                self._handle_event = self._state1 if self._handle_event == self._state0 else self._state0
                continue
            if op == "H":
                cmd = C04ProbeHook(key)
            elif op == "O":
                cmd = commands.OpenConnection(connection.Server(address=(key, 1)))
            elif op == "T":
                cmd = commands.OpenConnection(self.context.server)
            elif op == "w":
                cmd = commands.RequestWakeup(0.0)
            else:
                cmd = commands.SendData(self.context.client, key.encode())
            cmd.c04key = key
            if op in "HOT":
                reply = yield cmd
                h.log.append((h.step, self.name, "reply", key, reply))
            else:
                yield cmd

    def _state0(self, ev):
        yield from self._handle(ev, 0)

    def _state1(self, ev):
        yield from self._handle(ev, 1)

    _handle_event = _state0

    def _handle(self, ev, state):
        h = self.h
        uid = uid_of(ev)
        h.log.append((h.step, self.name, "start", uid, state))
        yield from self._ops(uid)
        h.log.append((h.step, self.name, "end", uid))


class Router(Probe):
    """HttpLayer pattern: data routed by content/connection, completions by the child that issued the command."""

    def __init__(self, ctx, name, h):
        super().__init__(ctx, name, h)
        self.children = {"A": Probe(ctx, "A", h), "B": Probe(ctx, "B", h)}
        self.command_sources = {}

    def to_child(self, child, ev):
        for cmd in child.handle_event(ev):
            if cmd.blocking or isinstance(cmd, commands.RequestWakeup):
                self.command_sources[cmd] = child
            yield cmd

    def _handle_event(self, ev):
        if isinstance(ev, events.Start):
            for c in self.children.values():
                yield from self.to_child(c, ev)
        elif isinstance(ev, events.CommandCompleted):
            yield from self.to_child(self.command_sources.pop(ev.command), ev)
        else:
            uid = uid_of(ev)
            yield from self._ops(uid)
            yield from self.to_child(self.children[uid[0]], ev)


class ProbeTunnel(tunnel.TunnelLayer):
    def __init__(self, ctx, tconn, hlen, h):
        super().__init__(ctx, tunnel_connection=tconn, conn=tconn)
        self.name = "TUN"
        self.hlen = hlen
        self.h = h
        self.seen = 0

    def receive_handshake_data(self, data):
        h = self.h
        i = self.seen
        self.seen += 1
        if "H" in h.script(self.name, f"hs{i}"):
            key = f"{self.name}/hs{i}"
            cmd = C04ProbeHook(key)
            cmd.c04key = key
            reply = yield cmd
            h.log.append((h.step, self.name, "reply", key, reply))
        return i >= self.hlen, None


class Real:
    def __init__(self, topo, script, decide_at=0, hlen=1, open_err=None):
        self.topo = topo
        self.script = script
        self.decide_at = decide_at
        self.open_err = open_err
        self.log = []
        self.step = 0
        self.outstanding = []
        self.emitted = []
        self.crash = None
        self.nl_asks = 0
        lazy = topo == "lazy-tunnel"
        self.client = connection.Client(peername=("192.0.2.10", 51234), sockname=("192.0.2.1", 8080), timestamp_start=1.0, state=connection.ConnectionState.OPEN)
        self.ctx = context.Context(self.client, _opts())
        self.server = self.ctx.server
        self.server.address = ("origin.test", 443)
        if not lazy:
            self.server.state = connection.ConnectionState.OPEN
        inner = "single" if lazy else topo.split("-")[-1]
        self._inner = inner
        if topo.startswith("next-"):
            self.top = layer.NextLayer(self.ctx)
        elif topo.startswith("tunnel-") or lazy:
            self.top = ProbeTunnel(self.ctx, self.server if lazy else self.client, hlen, self)
            self.top.child_layer = self.make_inner()
        else:
            self.top = self.make_inner()

    def make_inner(self):
        return Probe(self.ctx, "A", self) if self._inner == "single" else Router(self.ctx, "P", self)

    def feed(self, ev):
        self.step += 1
        if self.crash:
            return
        try:
            for cmd in self.top.handle_event(ev):
                self.on_cmd(cmd)
        except Exception as e:  # noqa -- any exception escaping the layers is reported by the caller
            import traceback

            self.crash = (type(e).__name__, exc_site(e), traceback.format_exc()[-900:])

    def on_cmd(self, cmd):
        key = getattr(cmd, "c04key", None)
        if key is None:
            if isinstance(cmd, layer.NextLayerHook):
                key = f"NL/{self.nl_asks}"
                self.nl_asks += 1
            elif isinstance(cmd, commands.OpenConnection):
                key = "TUN/open"
            elif isinstance(cmd, commands.SendData):
                key = cmd.data.decode()  # tunnels re-create SendData: the payload is the key
            elif isinstance(cmd, commands.Log):
                return
            else:
                key = "?" + type(cmd).__name__
            cmd.c04key = key
        self.emitted.append((self.step, key))
        if isinstance(cmd, (commands.StartHook, commands.OpenConnection, commands.RequestWakeup)):
            self.outstanding.append(cmd)

    def keys(self):
        return [c.c04key for c in self.outstanding]

    def complete(self, i):
        cmd = self.outstanding.pop(i)
        key = cmd.c04key
        if isinstance(cmd, layer.NextLayerHook):
            if int(key.split("/")[1]) == self.decide_at:
                cmd.data.layer = self.make_inner()
            ev = events.HookCompleted(cmd)
        elif isinstance(cmd, commands.StartHook):
            ev = events.HookCompleted(cmd, "R/" + key)  # type: ignore
        elif isinstance(cmd, commands.OpenConnection):
            if key == "TUN/open":
                if self.open_err is None:
                    cmd.connection.state = connection.ConnectionState.OPEN
                ev = events.OpenConnectionCompleted(cmd, self.open_err)
            else:
                ev = events.OpenConnectionCompleted(cmd, "E/" + key)
        else:
            ev = events.Wakeup(cmd)
        self.feed(ev)
        return key


# ---------------------------------------------------------------------------------------------
# scripts
# ---------------------------------------------------------------------------------------------

def fam_all_h(name, uid):
    return "" if uid == "S" or name == "P" else "H"


def fam_a_blocks(name, uid):
    if name == "A" and uid != "S":
        return "sHs"
    return "s" if name == "B" and uid != "S" else ""


def fam_hh_o(name, uid):
    if uid == "S" or name == "P":
        return ""
    return "HH" if name == "A" else "O"


def fam_parity(name, uid):
    if uid == "S" or name == "P" or uid.startswith("w/"):
        return ""
    return "H" if int(uid[1:]) % 2 else "s"


def fam_wakeup(name, uid):
    if uid == "S" or name == "P":
        return ""
    if uid.startswith("w/"):
        return "H"
    return "wH" if name == "A" else "s"


def fam_parent_blocks(name, uid):
    if uid == "S" or uid.startswith("w/"):
        return ""
    if name == "P":
        return "H" if uid[0] == "A" else ""
    return "H"


def fam_start_blocks(name, uid):
    if name == "P":
        return ""
    if uid == "S":
        return "H"
    return "H" if name == "A" else ""


def fam_tunnel_hook(name, uid):
    if name == "TUN":
        return "H" if uid in ("hs0", "hs2") else ""
    return fam_all_h(name, uid)


def fam_tunnel_hook1(name, uid):
    if name == "TUN":
        return "H" if uid == "hs1" else ""
    return fam_a_blocks(name, uid)


def fam_lazy(name, uid):
    if name == "TUN":
        return "H" if uid == "hs1" else ""
    if uid in ("A1", "S"):
        return "T" if uid == "A1" else ""
    return "H" if not uid.startswith("w/") else ""


def fam_lazy_start(name, uid):
    if name == "TUN":
        return ""
    if uid == "S":
        return "sT"
    return "H" if uid.startswith("A") else "s"


def fam_switch(name, uid):
    """blocked on a hook; a queued event switches the handler state without blocking; later events must see it"""
    if uid == "S" or name in ("P", "TUN") or uid.startswith("w/"):
        return ""
    return ("H", "X", "s")[(int(uid[1:]) - 1) % 3]


def fam_switch_mixed(name, uid):
    if name == "TUN":
        return "H" if uid == "hs1" else ""
    if uid == "S" or name == "P" or uid.startswith("w/"):
        return "X" if uid == "S" and name == "B" else ""
    if name == "B" or uid[0] == "B":
        return ("Xs", "H", "sX")[(int(uid[1:]) - 1) % 3]
    return ("HX", "X", "XH", "s")[(int(uid[1:]) - 1) % 4]


FAMILIES = {f.__name__[4:]: f for f in (fam_switch, fam_switch_mixed, fam_all_h, fam_a_blocks, fam_hh_o, fam_parity, fam_wakeup, fam_parent_blocks, fam_start_blocks, fam_tunnel_hook, fam_tunnel_hook1, fam_lazy, fam_lazy_start)}

# (topology, family, params) configurations whose interleavings are enumerated
CONFIGS = [
    ("single", "all_h", {}),
    ("single", "hh_o", {}),
    ("single", "parity", {}),
    ("single", "wakeup", {}),
    ("single", "start_blocks", {}),
    ("router", "all_h", {}),
    ("router", "a_blocks", {}),
    ("router", "hh_o", {}),
    ("router", "parent_blocks", {}),
    ("router", "wakeup", {}),
    ("router", "start_blocks", {}),
    ("next-single", "all_h", {"decide_at": 0}),
    ("next-single", "parity", {"decide_at": 1}),
    ("next-single", "all_h", {"decide_at": 2}),
    ("next-router", "a_blocks", {"decide_at": 1}),
    ("next-router", "all_h", {"decide_at": 1}),
    ("next-router", "start_blocks", {"decide_at": 2}),
    ("tunnel-single", "tunnel_hook", {"hlen": 2}),
    ("tunnel-single", "tunnel_hook1", {"hlen": 1}),
    ("tunnel-router", "tunnel_hook", {"hlen": 2}),
    ("tunnel-router", "tunnel_hook1", {"hlen": 1}),
    ("tunnel-router", "all_h", {"hlen": 0}),
    ("lazy-tunnel", "lazy", {"hlen": 1}),
    ("lazy-tunnel", "lazy", {"hlen": 2, "open_err": "refused"}),
    ("lazy-tunnel", "lazy_start", {"hlen": 1}),
    ("single", "switch", {}),
    ("single", "switch_mixed", {}),
    ("router", "switch", {}),
    ("router", "switch_mixed", {}),
    ("next-single", "switch", {"decide_at": 1}),
    ("tunnel-router", "switch_mixed", {"hlen": 1}),
]
ALPHABET = "ab012"
OPS_DATA = ["", "s", "H", "H", "sHs", "HH", "O", "Hs", "wH", "w", "sO", "HsH", "X", "X", "Xs", "HX", "XH", "sXH"]
OPS_WAKE = ["", "", "H", "s", "O", "X"]


def random_script(salt, topo):
    lazy = topo == "lazy-tunnel"

    def script(name, uid):
        r = random.Random(f"{salt}/{name}/{uid}")
        if name == "TUN":
            return "H" if r.random() < 0.4 else ""
        if name == "P":
            return r.choice(["", "", "", "", "H", "s", "O"]) if uid != "S" and not uid.startswith("w/") else ""
        if uid == "S":
            if lazy and r.random() < 0.3:
                return "T"
            return r.choice(["", "", "H", "s", "X"])
        if lazy and uid == "A1" and "T" not in script("A", "S"):
            return r.choice(["T", "sT", "TH", "HT"])
        if uid.startswith("w/"):
            return r.choice(OPS_WAKE)
        return r.choice(OPS_DATA)

    return script


# ---------------------------------------------------------------------------------------------
# one run = one interleaving
# ---------------------------------------------------------------------------------------------

class Invalid(Exception):
    def __init__(self, pos):
        self.pos = pos


def run_one(ctx, topo, famname, script, params, word, picker=None):
    """Execute the interleaving `word` on the real layers and on the specification, then judge.
    Raises Invalid(pos) if a symbol is not enabled at position pos (nothing is judged then)."""
    real = Real(topo, script, params.get("decide_at", 0), params.get("hlen", 1), params.get("open_err"))
    spec = S.Spec(topo, script, params.get("decide_at", 0), params.get("hlen", 1), params.get("open_err"))
    fed = []  # (step, uid, conn) data events in feed order
    completed = []  # (step, key)
    na = nb = 0
    diverged = None
    real.feed(events.Start())
    spec.feed(("S",))

    def sync(pos):
        nonlocal diverged
        if diverged is None and (real.keys() != spec.outstanding or real.crash):
            diverged = pos

    sync(-1)
    length = len(word) if picker is None else word
    word = word if picker is None else ""
    for pos in range(length):
        if picker is None:
            sym = word[pos]
        else:  # random schedules are drawn against the live state (always enabled symbols)
            sym = picker(len(real.outstanding), bool(real.server.state & connection.ConnectionState.CAN_READ))
            word += sym
        if sym == "a":
            na += 1
            uid = f"A{na}"
            fed.append((real.step + 1, uid, "c"))
            real.feed(events.DataReceived(real.client, uid.encode()))
            spec.feed(("data", "c", uid))
        elif sym == "b":
            if not (real.server.state & connection.ConnectionState.CAN_READ):
                raise Invalid(pos)
            nb += 1
            uid = f"B{nb}"
            fed.append((real.step + 1, uid, "s"))
            real.feed(events.DataReceived(real.server, uid.encode()))
            spec.feed(("data", "s", uid))
        else:
            i = int(sym)
            if i >= len(real.outstanding):
                raise Invalid(pos)
            key = real.complete(i)
            completed.append((real.step, key))
            if key in spec.outstanding:
                spec.complete(key)
            else:
                spec.step += 1
                if diverged is None:
                    diverged = pos
        sync(pos)
        if real.crash:
            break
    # close the run: complete everything oldest-first
    guard = 0
    glimit = 400 + 2 * length
    while real.outstanding and not real.crash and guard < glimit:
        guard += 1
        key = real.complete(0)
        completed.append((real.step, key))
        if key in spec.outstanding:
            spec.complete(key)
        else:
            spec.step += 1
        sync(len(word))
    while spec.outstanding and guard < 2 * glimit:  # the real side lost commands: let the specification finish on its own
        guard += 1
        spec.complete(spec.outstanding[0])
    judge(ctx, topo, famname, params, word, real, spec, fed, completed, diverged)
    real.word = word
    return real, spec


def classify(topo, kind, word):
    """Mechanism = condition on topology/history; nothing is known on the unchanged tree."""
    return None


def judge(ctx, topo, famname, params, word, real, spec, fed, completed, diverged):
    w = {"topology": topo, "family": famname, "params": params, "interleaving": word}

    def bad(kind, **kw):
        ctx.violation(kind, {**w, **kw, "real_log_tail": real.log[-14:], "spec_log_tail": spec.log[-14:]}, classify(topo, kind, word))

    if real.crash:
        bad(f"layer-raises:{real.crash[0]}@{real.crash[1]}", tb=real.crash[2])
    by_layer = {}
    for e in real.log:
        by_layer.setdefault(e[1], []).append(e)
    hlen = params.get("hlen", 1)
    # ---- which probe must see which uid, in arrival (= feed) order
    expect = {"A": ["S"], "B": ["S"]} if real._inner == "router" else {"A": ["S"]}
    arrivals = [(st, uid) for st, uid, conn in fed]
    arrivals += [(st, "w/" + k) for st, k in completed if spec.kinds.get(k) == "w" or k.endswith("w")]
    arrivals.sort()
    consumed = 0
    for st, uid in arrivals:
        if topo.startswith("tunnel-") and uid[0] == "A" and consumed < hlen:
            consumed += 1  # eaten by the handshake
            continue
        if topo == "lazy-tunnel" and uid[0] == "B" and not uid.startswith("w/"):
            consumed += 1
            if consumed <= hlen:
                continue
        tgt = uid.split("/")[1] if uid.startswith("w/") else uid[0]
        if real._inner == "single":
            tgt = "A"
        expect[tgt].append(uid)
    started = True
    if topo.startswith("next-") and real.nl_asks <= params.get("decide_at", 0):
        started = False  # never decided: nothing may have reached a probe
    if topo.startswith("tunnel-") and sum(1 for _, u, c in fed if c == "c") < hlen:
        started = False  # the handshake never finished
    stuck = (
        topo == "lazy-tunnel"
        and any(k == "TUN/open" for _, k in real.emitted)
        and params.get("open_err") is None
        and sum(1 for _, u, c in fed if c == "s") < hlen
    )
    if stuck:
        # the environment never supplied the rest of the handshake: the probe legitimately waits for ever.
        ctx.count("handshake_left_incomplete")
        expect = {}
    for name, exp in expect.items():
        if not started:
            exp = []
        got = by_layer.get(name, [])
        starts = [e[3] for e in got if e[2] == "start"]
        ends = [e[3] for e in got if e[2] == "end"]
        ctx.count("exactly_once")
        if sorted(starts) != sorted(exp) or sorted(ends) != sorted(exp):
            dup = sorted({u for u in starts if starts.count(u) > 1})
            lost = sorted(set(exp) - set(starts))
            bad("event-not-handled-exactly-once", layer=name, expected=exp, started=starts, ended=ends, duplicated=dup, lost=lost)
        else:
            ctx.count("arrival_order")
            if starts != exp:
                bad("events-handled-out-of-arrival-order", layer=name, expected=exp, started=starts)
            elif topo.startswith("next-"):
                ctx.count("nextlayer_replay_order")
            elif "tunnel" in topo:
                ctx.count("tunnel_queue_order")
        # no re-entry: start(u) [reply..]* end(u), one event at a time
        ctx.count("no_reentry")
        cur = None
        for e in got:
            if e[2] == "start":
                if cur is not None:
                    bad("new-event-started-while-waiting", layer=name, waiting_in=cur, new=e[3], step=e[0])
                    break
                cur = e[3]
            elif e[2] == "end":
                if cur != e[3]:
                    bad("end-without-matching-start", layer=name, cur=cur, end=e[3])
                    break
                cur = None
            elif cur is None or not e[3].startswith(f"{name}/{cur}/"):
                bad("reply-outside-its-event", layer=name, cur=cur, reply=e[3:])
                break
    # ---- state machine: every event is handled by the state that all earlier handled events left behind
    for name in ("A", "B"):
        state = 0
        for e in by_layer.get(name, []):
            if e[2] != "start":
                continue
            ctx.count("handler_state_current")
            if e[4] != state:
                bad("event-handled-by-stale-handler-state", layer=name, uid=e[3], handled_in_state=e[4], current_state=state, step=e[0])
                break
            state = (state + real.script(name, e[3]).count("X")) % 2
    # ---- each blocking command resumed exactly once, with its own completion, in script order
    replies = [e for e in real.log if e[2] == "reply"]
    seen = set()
    for e in replies:
        ctx.count("own_completion")
        key, val = e[3], e[4]
        kind = key[-1] if not key.startswith("TUN/hs") else "H"
        want = ("R/" + key) if kind == "H" else ("E/" + key) if kind == "O" else params.get("open_err")
        if val != want or key in seen or not key.startswith(e[1] + "/"):
            bad("resumed-with-foreign-or-repeated-completion", layer=e[1], key=key, got=val, want=want, repeated=key in seen)
        seen.add(key)
    # ---- blocking a child never delays its sibling (router on top, parent itself never blocks)
    if topo == "router" and famname in ("all_h", "a_blocks", "hh_o", "wakeup", "start_blocks", "rnd-noparent"):
        for name in ("A", "B"):
            got = by_layer.get(name, [])
            for st, uid, conn in fed:
                if uid[0] != name:
                    continue
                before = [e for e in got if e[0] < st and e[2] in ("start", "end")]
                idle = not before or before[-1][2] == "end"
                if idle:
                    ctx.count("sibling_not_blocked")
                    if not any(e[0] == st and e[2] == "start" and e[3] == uid for e in got):
                        bad("idle-layer-not-served-while-sibling-waits", layer=name, uid=uid, step=st)
    # ---- full trace against the sequential specification
    ctx.count("trace_equals_spec")
    if real.log != spec.log or real.emitted != spec.emitted or diverged is not None:
        n = next((i for i, (x, y) in enumerate(zip(real.log, spec.log)) if x != y), min(len(real.log), len(spec.log)))
        bad(
            "trace-differs-from-sequential-spec",
            first_difference_at=n,
            real=real.log[n : n + 4],
            spec=spec.log[n : n + 4],
            outstanding_diverged_at=diverged,
            real_emitted=[k for _, k in real.emitted][-10:],
            spec_emitted=[k for _, k in spec.emitted][-10:],
        )


# ---------------------------------------------------------------------------------------------
# real state-machine layers: the same events delivered live vs. while the layer waits for a completion
# ---------------------------------------------------------------------------------------------

_FULL_OPTS = None


def _full_opts():
    global _FULL_OPTS
    if _FULL_OPTS is None:
        from mitmproxy.addons.proxyserver import Proxyserver

        _FULL_OPTS = options.Options()
        Proxyserver().load(_FULL_OPTS)
    return _FULL_OPTS


def describe_cmd(cmd, client):
    side = lambda c: "client" if c is client else "server"  # noqa: E731
    if isinstance(cmd, commands.SendData):
        return ("send", side(cmd.connection), bytes(cmd.data))
    if isinstance(cmd, commands.CloseTcpConnection):
        return ("close", side(cmd.connection), cmd.half_close)
    if isinstance(cmd, commands.ConnectionCommand):
        return (type(cmd).__name__, side(cmd.connection))
    if isinstance(cmd, commands.StartHook):
        f = getattr(cmd, "flow", None)
        extra = None
        if f is not None and getattr(f, "messages", None):
            m = f.messages[-1]
            extra = (len(f.messages), m.from_client, bytes(m.content))
        elif f is not None and hasattr(f, "request") and hasattr(f, "response") and f.type == "dns":
            extra = (f.request.id if f.request else None, f.response.id if f.response else None, bool(f.error))
        return ("hook", cmd.name, extra)
    if isinstance(cmd, commands.Log):
        return ("log", cmd.message[:60])
    return (type(cmd).__name__,)


def drive_real_layer(kind, evs, delay):
    """Feed `evs` (list of (side, payload | None=close)) to a fresh real layer; delay[i] = how many further events
    arrive before the oldest outstanding completion is delivered after event i (0 = immediately, i.e. live)."""
    from mitmproxy.proxy.layers import dns as ldns
    from mitmproxy.proxy.layers import tcp as ltcp
    from mitmproxy.proxy.layers import udp as ludp

    udp = kind in ("dns", "udp")
    client = connection.Client(peername=("192.0.2.10", 51234), sockname=("192.0.2.1", 8080), timestamp_start=1.0, state=connection.ConnectionState.OPEN, transport_protocol="udp" if udp else "tcp")
    c = context.Context(client, _full_opts())
    c.server.address = ("192.0.2.53", 53)
    c.server.transport_protocol = "udp" if udp else "tcp"
    c.server.state = connection.ConnectionState.OPEN
    c.server.timestamp_start = 1.0
    top = {"dns": ldns.DNSLayer, "tcp": ltcp.TCPLayer, "udp": ludp.UDPLayer}[kind](c)
    trace, outstanding = [], []
    queued_any = False

    def feed(ev):
        try:
            for cmd in top.handle_event(ev):
                trace.append(describe_cmd(cmd, client))
                if isinstance(cmd, commands.CloseConnection) and not (isinstance(cmd, commands.CloseTcpConnection) and cmd.half_close):
                    cmd.connection.state = connection.ConnectionState.CLOSED
                if cmd.blocking:
                    outstanding.append(cmd)
        except Exception as e:  # noqa -- part of the compared behaviour
            trace.append(("raises", type(e).__name__, exc_site(e)))

    def complete():
        cmd = outstanding.pop(0)
        feed(events.OpenConnectionCompleted(cmd, None) if isinstance(cmd, commands.OpenConnection) else events.HookCompleted(cmd))

    feed(events.Start())
    budget = 0
    for i, (side, payload) in enumerate([("start", None)] + list(evs)):
        if i:
            conn = client if side == "c" else c.server
            if outstanding:
                queued_any = True
            feed(events.DataReceived(conn, payload) if payload is not None else events.ConnectionClosed(conn))
        d = delay[i] if i < len(delay) else 0
        if d == 0:
            n = 0
            while outstanding and n < 50:
                n += 1
                complete()
            budget = 0
        elif outstanding:
            if budget <= 0:
                budget = d
            budget -= 1
            if budget == 0:
                complete()
    n = 0
    while outstanding and n < 200 + 4 * len(evs):
        n += 1
        complete()
    return trace, queued_any


def gen_real_events(r, kind):
    from mitmproxy.test import tutils

    n = r.randint(2, 6)
    evs = []
    ids = []
    for _ in range(n):
        side = r.choice("ccs")
        if kind == "dns":
            x = r.random()
            if side == "c":
                if x < 0.6:
                    i = r.choice([1, 2, 3, 4])
                    ids.append(i)
                    payload = tutils.tdnsreq(id=i).packed
                elif x < 0.85:
                    payload = r.choice([b"\x00", b"", b"\x00\x01\x02", tutils.tdnsreq(id=9).packed[:7]])
                else:
                    payload = tutils.tdnsresp(id=r.choice(ids or [1])).packed
            else:
                payload = tutils.tdnsresp(id=r.choice(ids + [7] if ids else [7])).packed if x < 0.8 else r.choice([b"\x00", b"\xff" * 5])
        else:
            payload = bytes(r.choice(b"abcxyz\x00\xff") for _ in range(r.choice([1, 3, 20])))
        evs.append((side, payload))
    if r.random() < 0.3:
        evs.append((r.choice("cs"), None))  # one close, only as the very last event (layers read connection state)
    return evs


def real_layer_case(ctx, r):
    kind = r.choice(["dns", "dns", "tcp", "udp"])
    evs = gen_real_events(r, kind)
    live, _ = drive_real_layer(kind, evs, [0] * (len(evs) + 1))
    delay = [r.choice([0, 1, 2, 2, 3, 5, 9]) for _ in range(len(evs) + 1)]
    queued, queued_any = drive_real_layer(kind, evs, delay)
    ctx.count("live_equals_queued")
    if live != queued:
        n = next((i for i, (x, y) in enumerate(zip(live, queued)) if x != y), min(len(live), len(queued)))
        ctx.violation(
            "queued-events-not-handled-like-live-events",
            {"layer": kind, "events": [(s, p) for s, p in evs], "completion_delays": delay, "first_difference_at": n, "live": live[n : n + 4], "queued": queued[n : n + 4], "live_len": len(live), "queued_len": len(queued)},
            classify(kind, "live-vs-queued", ""),
        )
    hooks = tuple(sorted({t[1] for t in live if t[0] == "hook"}))
    closes = sum(1 for t in live if t[0] in ("close", "CloseConnection"))
    sig = ("real", kind, len(evs), hooks, min(closes, 2), any(p is None for _, p in evs), queued_any)
    ctx.case(sig, nontrivial=queued_any, sample={"layer": kind, "events": [(s, p) for s, p in evs], "completion_delays": delay, "commands": [list(map(str, t))[:3] for t in live[:12]]})


# ---------------------------------------------------------------------------------------------
# long pauses: hundreds to thousands of events reach a layer during ONE pause
# ---------------------------------------------------------------------------------------------

LONG_SIZES = [255, 256, 257, 300, 511, 512, 513, 1023, 1024, 1025, 2047, 2048, 2049, 4095, 4096, 4097, 5000]
LONG_TOPOS = ["single", "router", "router-parent", "next-single", "tunnel-single", "lazy-tunnel", "next-router", "tunnel-router"]
NEVER = 10**9


def long_script(variant):
    def cheap(uid):
        n = int(uid[1:])
        return "s" if n % 7 == 0 else "X" if n % 7 == 3 else ""

    def script(name, uid):
        if name == "TUN":
            return "H" if uid == "hs0" and variant.startswith("tunnel-") else ""
        if uid == "S":
            return "T" if variant == "lazy-tunnel" and name == "A" else ""
        if uid.startswith("w/"):
            return ""
        if name == "P":
            return "H" if variant == "router-parent" and uid == "A1" else ""
        if uid == "A1" and variant in ("single", "router"):
            return "H"
        return cheap(uid)

    return script


def long_pause_case(ctx, r, j):
    size = LONG_SIZES[j % len(LONG_SIZES)] if j < len(LONG_SIZES) else r.choice([r.randint(258, 5000), r.choice(LONG_SIZES), 2 ** r.randint(8, 12) + r.choice([-1, 0, 1])])
    if j % 3 == 2:
        return long_pause_real(ctx, r, (j // 3) % 3, size)
    variant = LONG_TOPOS[(j - j // 3) % len(LONG_TOPOS)]
    topo = "router" if variant == "router-parent" else variant
    params = {"decide_at": 0, "hlen": 0 if topo == "lazy-tunnel" else 1, "open_err": None}
    pb = 0.0 if topo == "lazy-tunnel" else r.choice([0.0, 0.3])

    def picker(n_out, server_open, r=r):
        return "b" if server_open and pb and r.random() < pb else "a"

    real, spec = run_one(ctx, topo, "long-pause", long_script(variant), params, size + 1, picker)
    ctx.count("long_pause")
    ctx.count("long_pause_events_queued", spec.queued)
    sig = ("long-pause", variant, "le256" if size <= 256 else "le1024" if size <= 1024 else "gt1024", size & (size - 1) == 0, min(spec.maxq, 257) > 256)
    ctx.case(sig, nontrivial=spec.maxq > 1, sample={"topology": variant, "events_during_one_pause": size, "max_queue_depth_in_spec": spec.maxq, "log_head": real.log[:8], "log_tail": real.log[-4:]})


def long_pause_real(ctx, r, which, size):
    """Real TCP / UDP / DNS layer: one message hook stays pending while `size` further events arrive."""
    kind = ("tcp", "udp", "dns")[which]
    if kind == "dns":
        from mitmproxy.test import tutils

        size = min(size, 1100)
        evs = [("c", tutils.tdnsreq(id=i + 1).packed) for i in range(size + 1)]
    else:
        evs = [("c" if r.random() < 0.8 else "s", b"%d," % i) for i in range(size + 1)]
        evs[0] = ("c", b"0,")
    live, _ = drive_real_layer(kind, evs, [0] * (len(evs) + 1))
    queued, queued_any = drive_real_layer(kind, evs, [0] + [NEVER] * len(evs))
    ctx.count("long_pause_real")
    w = {"layer": kind, "events_during_one_pause": size, "events_head": evs[:3]}
    if live != queued:
        n = next((i for i, (x, y) in enumerate(zip(live, queued)) if x != y), min(len(live), len(queued)))
        ctx.violation("queued-events-not-handled-like-live-events", {**w, "first_difference_at": n, "live": live[n : n + 3], "queued": queued[n : n + 3], "live_len": len(live), "queued_len": len(queued)}, classify(kind, "long-pause", ""))
    if kind != "dns":
        # direct: every byte reaches the other side, in order, exactly once
        for src, dst in (("c", "server"), ("s", "client")):
            want = b"".join(p for s_, p in evs if s_ == src)
            got = b"".join(t[2] for t in queued if t[0] == "send" and t[1] == dst)
            ctx.count("long_pause_bytes_relayed")
            if got != want:
                ctx.violation("bytes-queued-during-a-long-pause-lost-or-reordered", {**w, "towards": dst, "expected_len": len(want), "got_len": len(got), "got_head": got[:40]}, classify(kind, "long-pause-bytes", ""))
    else:
        ctx.count("long_pause_bytes_relayed")
        sent = [t[2][:2] for t in queued if t[0] == "send" and t[1] == "server"]
        want = [p[:2] for _, p in evs]
        if sent != want:
            ctx.violation("dns-queries-queued-during-a-long-pause-lost-or-reordered", {**w, "expected": len(want), "forwarded": len(sent), "first_forwarded_id": sent[:1]}, classify(kind, "long-pause-dns", ""))
    sig = ("long-pause-real", kind, "le256" if size <= 256 else "le1024" if size <= 1024 else "gt1024", size & (size - 1) == 0)
    ctx.case(sig, nontrivial=queued_any, sample={"layer": kind, "events_during_one_pause": size, "commands": len(queued)})


# ---------------------------------------------------------------------------------------------
# enumeration
# ---------------------------------------------------------------------------------------------

def enumerate_prefix(ctx, cfg_i, prefix, length, deadline_frac=0.8):
    """All words of `length` over ALPHABET that start with `prefix` (invalid subtrees are pruned)."""
    topo, famname, params = CONFIGS[cfg_i]
    script = FAMILIES[famname]
    n = 0
    word = list(prefix) + [ALPHABET[0]] * (length - len(prefix))
    idx = [ALPHABET.index(c) for c in word]
    P = len(prefix)
    while True:
        if ctx.time_left() < ctx.seconds * (1 - deadline_frac) * 0.25:
            ctx.timed_out = True
            return n, False
        w = "".join(ALPHABET[i] for i in idx)
        try:
            real, spec = run_one(ctx, topo, famname, script, params, w)
            n += 1
            ctx.case((cfg_i, w), nontrivial=spec.queued > 0, sample={"topology": topo, "family": famname, "params": params, "interleaving": w, "log": real.log[:40]} if n == 40 else None)
            ctx.seen("probe_logs", " ".join(f"{e[1]}{e[2][0]}{e[3].split('/')[0] if e[2] != 'reply' else ''}" for e in real.log)[:150])
            bump = length - 1
        except Invalid as e:
            bump = e.pos
            if bump < P:
                return n, True  # the prefix itself is not enabled
        # odometer: increment position `bump`, reset everything to the right
        while bump >= P and idx[bump] == len(ALPHABET) - 1:
            bump -= 1
        if bump < P:
            return n, True
        idx[bump] += 1
        for j in range(bump + 1, length):
            idx[j] = 0


def run(ctx):
    maxlen = 6 if ctx.tier == "quick" else 7
    prefixes = [a + b for a in ALPHABET for b in ALPHABET]
    # every word length 1..maxlen ("up to"): a shorter word followed by the closing phase is a different schedule
    items = [(c, p, maxlen) for c in range(len(CONFIGS)) for p in prefixes]
    items += [(c, p, maxlen - 1) for c in range(len(CONFIGS)) for p in prefixes]
    items += [(c, "", ln) for ln in range(maxlen - 2, 0, -1) for c in range(len(CONFIGS))]
    ctx.extra["enumerated_max_length"] = maxlen
    ctx.extra["enumerated_configurations"] = len(CONFIGS)
    complete = True
    n_long = 24 if ctx.tier == "quick" else 204
    for i in ctx.cases():
        r = ctx.rng
        k = i * ctx.nworkers + ctx.worker
        if k < len(items):
            cfg_i, prefix, length = items[k]
            n, ok = enumerate_prefix(ctx, cfg_i, prefix, length)
            complete = complete and ok
            if not ok:
                ctx.count("enumeration_chunks_cut_by_time_budget")
            ctx.count("enumerated_interleavings", n)
            continue
        j = k - len(items)
        if j < n_long or r.random() < 0.004:
            long_pause_case(ctx, r, j)
            continue
        if r.random() < 0.3:
            real_layer_case(ctx, r)
            continue
        # ---- random longer interleavings with random scripts
        topo = r.choice(["single", "router", "router", "next-single", "next-router", "tunnel-single", "tunnel-router", "lazy-tunnel"])
        salt = r.getrandbits(48)
        script = random_script(salt, topo)
        params = {"decide_at": r.choice([0, 0, 1, 2, 3]), "hlen": r.choice([0, 1, 1, 2, 3]), "open_err": r.choice([None, None, None, "refused"]) if topo == "lazy-tunnel" else None}
        noparent = topo == "router" and r.random() < 0.5
        if noparent:
            base = script
            script = lambda name, uid, base=base: "" if name == "P" else base(name, uid)  # noqa: E731
        famname = "rnd-noparent" if noparent else "rnd"
        L = r.choice([8, 12, 20, 30, 40])
        pc = r.choice([0.25, 0.4, 0.55])

        def picker(n_out, server_open, r=r, pc=pc):
            x = r.random()
            if n_out and x < pc:
                return str(r.randrange(min(n_out, 10)))
            return "b" if server_open and r.random() < 0.45 else "a"

        real, spec = run_one(ctx, topo, famname, script, params, L, picker)
        word = real.word
        ctx.count("random_interleavings")
        kinds = "".join(sorted({k[-1] for _, k in real.emitted if k[-1] in "HOTws"}))
        sig = (topo, famname, L, min(spec.maxq, 5), kinds, tuple(sorted(params.items(), key=str)) if topo != "single" and topo != "router" else (), min(len(real.log) // 10, 8))
        ctx.case(sig, nontrivial=spec.queued > 0, sample={"topology": topo, "params": params, "interleaving": "".join(word), "log": real.log[:30]})
    ctx.extra["enumeration_complete_for_assigned_prefixes"] = complete
