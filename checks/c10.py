"""C10 -- idle connections time out, but never while a hook is pending.

Engine B (virtual time): the real ProxyConnectionHandler (real handle_hook = TimeoutWatchdog.disarm() around the addon
call and Flow.wait_for_resume) and the real TimeoutWatchdog run on the virtual clock.  Timelines: client data at
random times; every client datum makes the probe layer start a layer-level hook (through hook_task) whose handling
lasts 0 .. 3 x timeout and may intercept its flow (resumed by the "user" later); upstream connects with slow
server_connect / server_connected / server_connect_error / server_disconnected hooks (called directly by
open_connection); timeouts 5 .. 600 s.  The client never closes: the watchdog has to.
Monitors (M3, own bookkeeping independent of the watchdog's): pending-hook counter, time of last event delivered to
the layer, time of last hook completion.
  no_timeout_while_hook_pending   when the watchdog's callback fires, the monitor's pending counter is 0
  not_early                       ... and now >= max(last event, last hook completion) + timeout
  eventually                      (bounded progress) the connection is closed by the watchdog at most 1 virtual second
                                  after  max(last event, last hook completion) + timeout
"""
import asyncio

from vf import connharness

PROPERTY = "C10"
LEVEL = "exploration"
ENGINE = "vloop"
BUDGET = {"quick": (1500, 14), "thorough": (150000, 220)}
WORKERS = {"quick": 4, "thorough": 16}
REQUIRED = ["no_timeout_while_hook_pending", "not_early", "eventually", "hook_spanned_watchdog_wakeup"]
TECHNIQUE = "runtime monitoring: real TimeoutWatchdog + ProxyConnectionHandler on a virtual clock; invariant at the timeout callback"
RULE = (
    "case = timeline (timeout, client data times, per-datum hook duration and intercept duration, upstream attempts with slow connection "
    "hooks); signature = (timeout, #data, hook-duration classes relative to the timeout, which connection hooks are slow, intercept used); "
    "non-trivial iff some hook was pending at an instant where last_activity + timeout had already passed"
)
ASSUMPTIONS = [
    "liveness restated as bounded progress: closed within 1 virtual second after the idle deadline",
    "idle period restarts at the completion of the last pending hook (as the statement says) or at the last delivered event, whichever is later",
]
LEVEL_TEXT = (
    "Exploration in virtual time of hook/watchdog interleavings; the invariant is evaluated exactly where a violation becomes "
    "observable (the timeout callback) with the monitor's own pending counter."
)
LEVEL_NOTE = "Trusted: vf/vloop.py virtual clock (ticks 1 us per time() call); hook durations are awaits inside the fake addon manager."


def gen_plan(r):
    timeout = r.choice([5, 5, 10, 30, 600])
    n = r.choice([0, 1, 2, 3, 5])
    t, times = 0.0, []
    for _ in range(n):
        t += r.choice([0.1, 0.5 * timeout, 0.9 * timeout, 1.0, 0.99 * timeout])
        times.append(round(t, 3))
    durs = [0, 0.1, 0.5 * timeout, 1.5 * timeout, 3 * timeout]
    data_hooks = [(r.choice(durs), r.choice([0, 0, 0, 0.7 * timeout, 2.5 * timeout])) for _ in range(max(1, n))]
    attempts = []
    for k in range(r.choice([0, 0, 1, 2])):
        attempts.append({
            "addr": ("10.0.0.1", 80), "at": r.choice([0, 0.5, 0.8 * timeout]), "connect": r.choice(["ok", "ok", "refuse", "slow"]),
            "connect_delay": r.choice([0, 1, 0.9 * timeout, 1.2 * timeout]), "send_on_open": r.random() < 0.5, "close_on_open": False,
            "kill_in_hook": False, "peer": r.choice([[], [("data", 1)], [("eof", 0.5 * timeout)], [("data", 0.9 * timeout), ("eof", 2 * timeout)]]), "drain_error": False,
        })
    slow = {h: r.choice(durs) for h in ("server_connect", "server_connected", "server_connect_error", "server_disconnected", "client_connected") if r.random() < 0.4}
    return {
        "attempts": attempts, "client_close_at": 10**9, "client_close_kind": "timeout", "client_data": times, "echo_client": r.random() < 0.5,
        "hook_delay": slow, "kill_client": False, "on_server_data": ["none"], "on_server_close": ["close"], "tcp_timeout": timeout,
        "data_hooks": data_hooks, "client_drain_block": 0,
    }


def classify(kind, plan, obs, info):
    if kind in ("timeout-while-hook-pending", "timeout-earlier-than-idle-deadline") and info.get("pending_hook_names"):
        direct = {"server_connect", "server_connected", "server_connect_error", "server_disconnected", "client_connected"}
        if set(info["pending_hook_names"]) & direct or info.get("recent_direct_hook"):
            return "watchdog-fires-during-hook-started-without-activity-registration"
    return None


def run(ctx):
    for i in ctx.cases():
        r = ctx.rng
        plan = gen_plan(r)
        try:
            plan, rec, world, h, pending = connharness.run_case(ctx, r, plan=plan)
        except Exception as e:
            import traceback

            ctx.violation("harness-or-handler-crash", {"exc": repr(e), "tb": traceback.format_exc()[-1500:]})
            ctx.case(("crash",), False)
            continue
        obs = plan.get("_obs", {"timeouts": [], "events": [], "hook_done": [], "pending": 0})
        T = plan["tcp_timeout"]
        t0 = rec[0][0] if rec else 0
        witness = {"plan": {k: v for k, v in plan.items() if k not in ("attempts", "_obs")}, "attempts": [{k: v for k, v in a.items() if k != "conn"} for a in plan["attempts"]],
                   "hooks": [(round(t - t0, 3), n, ph) for t, n, k, ph in rec][:80], "events": [(round(t - t0, 3), n) for t, n in obs["events"]][:60], "timeouts": [(round(t - t0, 3), p) for t, p in obs["timeouts"]]}
        spanned = False
        # hooks pending at the instant the (naive) deadline passed?
        windows = []
        open_ = {}
        for t, n, k, ph in rec:
            if ph == "start":
                open_[(n, k)] = t
            elif ph == "end" and (n, k) in open_:
                windows.append((open_.pop((n, k)), t, n))
        if pending == "deadlock":
            ctx.count("eventually")
            ctx.violation("idle-connection-never-closed", witness)
            ctx.case(("deadlock",), False)
            continue
        if obs["timeouts"]:
            t_fire, pend = obs["timeouts"][0]
            seq = obs.get("seq", [])
            cut = next((i for i, (k, t) in enumerate(seq) if k == "timeout"), len(seq))
            before = seq[:cut]  # program order, not timestamps: same-instant ties are decided by what ran first
            last_ev = max([t for k, t in before if k == "event"] or [t0])
            last_done = max([t for k, t in before if k == "hook_done"] or [t0])
            deadline = max(last_ev, last_done) + T
            pending_names = [n for (s, e, n) in windows if s <= t_fire < e] + [n for (n, k), s in open_.items() if s <= t_fire]
            recent_direct = any(n in ("server_connect", "server_connected", "server_connect_error", "server_disconnected", "client_connected") and e > last_ev for (s, e, n) in windows if e <= t_fire)
            info = {"pending_hook_names": pending_names, "recent_direct_hook": recent_direct}
            ctx.count("no_timeout_while_hook_pending")
            if pend > 0:
                ctx.violation("timeout-while-hook-pending", {**witness, "t_fire": round(t_fire - t0, 3), "pending": pend, "pending_hooks": pending_names}, classify("timeout-while-hook-pending", plan, obs, info))
            ctx.count("not_early")
            if pend == 0 and t_fire < deadline - 1e-3:
                info2 = {"pending_hook_names": ["?"], "recent_direct_hook": recent_direct}
                ctx.violation("timeout-earlier-than-idle-deadline", {**witness, "t_fire": round(t_fire - t0, 3), "deadline": round(deadline - t0, 3)}, classify("timeout-earlier-than-idle-deadline", plan, obs, info2))
            ctx.count("eventually")
            if pend == 0 and t_fire > deadline + 1.0:
                ctx.violation("timeout-later-than-deadline+1s", {**witness, "t_fire": round(t_fire - t0, 3), "deadline": round(deadline - t0, 3)})
            for (s, e, n) in windows:
                if e - s > 0 and any(True for _ in [0]) and s < t_fire:
                    # did this hook span an instant at which the idle deadline (as of its start) passed?
                    prev_ev = max([t for t, _n in obs["events"] if t <= s] or [t0])
                    if s <= prev_ev + T <= e:
                        spanned = True
        else:
            ctx.count("eventually")
            ctx.violation("no-timeout-although-client-idle-forever", witness)
        if spanned:
            ctx.count("hook_spanned_watchdog_wakeup")
        durs = tuple(sorted({("0" if d == 0 else "<T" if d < T else ">T") + ("+i" if ic else "") for d, ic in plan["data_hooks"][: max(1, len(plan["client_data"]))]}))
        sig = (T, len(plan["client_data"]), durs, tuple(sorted(k for k, v in plan["hook_delay"].items() if v)), len(plan["attempts"]))
        ctx.case(sig, spanned, {"timeout": T, "client_data": plan["client_data"], "data_hooks": plan["data_hooks"][:3], "slow_hooks": plan["hook_delay"], "fired_at": [round(t - t0, 3) for t, p in obs["timeouts"]]})
