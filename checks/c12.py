"""C12 -- error pages never reflect unescaped client/server input.

Engine A.  Every case provokes one of mitmproxy's own error answers (bad request line, unparsable header line, invalid
Content-Length / Transfer-Encoding, header validation failure, invalid scheme, unknown destination, CONNECT in the wrong
mode, oversized request/response body, refused upstream connection with attacker-chosen error text, unparsable /
invalid / truncated / over-long origin responses, upstream-proxy CONNECT refusal) with markup markers
(<vf-XSS-n>, "onx=, &vf;, ', </p><img...>, pre-escaped entities, non-ASCII) in every position that can reach the page
text: request line, header names and values, authority, Host, status line / reason / header lines of the origin,
OpenConnection error strings.  HTTP/1 client (optionally after a keep-alive request, HEAD included) and an HTTP/2
client (h2 library as peer) in front of HTTP/1 origins.

Monitors on every own page found in the bytes sent to the client (independent RFC 9112 reader / h2 library):
  page.escaped       body == fixed template with a message part that contains no raw < > " ' and only &amp; &lt; &gt;
                     &quot; &#x27; entities (tokeniser-free: the page is HTML-escaped iff that holds)
  page.content_type  Content-Type present and text/html
  page.framed        HTTP/1: the client stream parses completely; the page is framed by Content-Length == body length
                     (head only in answer to HEAD), it is the last message and the connection is closed after it
                     HTTP/2: the h2 library accepts the frames, the stream is ended, DATA == body
  page.position      (part of page.framed) what precedes an own page in the client stream is a sequence of COMPLETE responses that leaves
                     a request unanswered: never a page inside a response still in flight, never a second final response.  Source
                     'req-body-bad-during-response': streamed chunked request + early-answering origin (partial streamed 200 /
                     complete early 413/200 already relayed) + malformed chunk size line / data overrun / trailer afterwards
  page.other_html    any other mitmproxy-generated message (no x-tag) that declares or looks like HTML obeys the same escaping
"""
import html
import re

from mitmproxy import http

from vf import h1case, peers, sansio
from vf.gen import c12_errors as g
from vf.ref import http1 as ref

PROPERTY = "C12"
LEVEL = "exploration"
ENGINE = "sansio"
BUDGET = {"quick": (2000, 18), "thorough": (40000, 200)}
WORKERS = {"quick": 4, "thorough": 16}
REQUIRED = ["page.escaped", "page.content_type", "page.framed", "pages.h1", "pages.h2", "pages.head_only", "pages.reflecting", "pages.reflecting.h2", "down.parse", "down.parse.h2", "page.position"]
TECHNIQUE = "runtime monitoring: sans-io exploration of every error source with markup markers; wire bytes re-read by an independent parser, page body matched against the escaped-template language"
RULE = (
    "case = (mode, client protocol, error source, marker kind and position, optional preceding keep-alive request, method incl. HEAD, "
    "validate_inbound_headers on/off, segmentation, schedule); signature = (protocol, mode, source, marker kind, method, keep-alive, page status, "
    "marker reached page); non-trivial iff an own error page was produced AND the marker text reached its message part"
)
ASSUMPTIONS = [
    "an own page is recognised by the 'Server: mitmproxy' header or the format_error template shape; the plain-text 502 answer to CONNECT (no content type, not HTML) is only checked for framing and counted",
    "a request whose head the reference rejects, or whose request-target contains characters outside RFC 3986, has no defined method: the page may carry a body even if the first token is HEAD",
    "error paths may answer with a bare close instead of a page (DESIGN 3.4); only pages that are sent are judged",
]
LEVEL_TEXT = (
    "Exploration: each generated case drives the real layer stack into one error source with hostile markers in the reflected positions; "
    "the bytes sent to the client are parsed by an independent reader and every own page must lie in the language 'fixed template + "
    "HTML-escaped text'. Decides the executions observed; reach comes from enumerating the error sources found by reading the code."
)
LEVEL_NOTE = "Trusted: vf/ref/http1.py, the h2 library (client peer), html.unescape (stdlib), vf/sansio.py."

TAG = re.compile(rb"t\d+-[0-9a-f]{6}")
PAGE = re.compile(rb"^<html>\s*<head>\s*<title>(\d{3}) ([^<>&]*)</title>\s*</head>\s*<body>\s*<h1>(\d{3}) ([^<>&]*)</h1>\s*<p>(.*)</p>\s*</body>\s*</html>$", re.S)
ENTITY = re.compile(rb"&(?:amp|lt|gt|quot|#x27);")
URI_CHARS = re.compile(rb"^[A-Za-z0-9\-._~:/?#\[\]@!$&'()*+,;=%]+$")
OPT_KEYS = ("body_size_limit", "connection_strategy", "validate_inbound_headers", "stream_large_bodies")


def classify(kind, info):
    """Mechanism from properties of the input / history."""
    if kind == "page.framed" and info.get("head_unparsed_by_mitmproxy") and info.get("ok_as_get"):
        # the trigger is a HEAD request with a well-formed head (reference accepts it, RFC 3986-clean target) that mitmproxy's own
        # request-line parser refuses (no flow was created for it): the 400 page is sent WITH a body
        return "head-request-line-refused-by-parser-gets-page-with-body"
    return None


def escaped_only(inner: bytes):
    """None if inner is HTML-escaped text, else a description of the first offence."""
    m = re.search(rb"[<>\"']", inner)
    if m:
        return f"raw {chr(inner[m.start()])!r} at offset {m.start()}"
    stripped = ENTITY.sub(b"", inner)
    if b"&" in stripped:
        return "raw '&' that does not start one of the five escape entities"
    return None


def judge_page(ctx, wit, case, status, headers, body, proto):
    """headers: list of (lower name str, value bytes). Returns (reached, ok)."""
    hd = {}
    for n, v in headers:
        hd.setdefault(n, v)
    ok = True
    ctx.count("page.content_type")
    ct = hd.get("content-type")
    if ct is None or not ct.lower().startswith(b"text/html"):
        ctx.violation("page.content_type", wit(problem="own error page without an HTML content type", content_type=ct, page=body[:300]))
        ok = False
    ctx.count("page.escaped")
    m = PAGE.match(body)
    reached = False
    if not m:
        ctx.violation("page.escaped", wit(problem="page body is not the fixed template around an escaped message", page=body[:600]))
        return False, False
    if m.group(1) != m.group(3) or m.group(2) != m.group(4) or int(m.group(1)) != status:
        ctx.violation("page.escaped", wit(problem="title/h1/status disagree", page=body[:300], status=status))
        ok = False
    inner = m.group(5)
    off = escaped_only(inner)
    if off:
        ctx.violation("page.escaped", wit(problem="message part not HTML-escaped: " + off, inner=inner[:500], page=body[:700]))
        ok = False
    text = html.unescape(inner.decode("utf-8", "replace"))
    reached = g.core(case["n"]) in text
    return reached, ok


def strict_method_defined(raw: bytes):
    """Is the trigger's method well defined?  (reference accepts the head AND the request-target is RFC 3986 clean)"""
    v, _ = ref.classify_request_input(raw.lstrip(b"\r\n"))
    if v == "ambiguous":
        return False
    line = raw.lstrip(b"\r\n").split(b"\n", 1)[0].rstrip(b"\r")
    parts = line.split(b" ")
    return len(parts) == 3 and bool(URI_CHARS.match(parts[1]))


class ViaAddon:
    def __init__(self, case):
        self.case = case

    def requestheaders(self, f):
        if self.case["via"]:
            f.server_conn.via = ("http", ("proxy.example", 3128))
        if self.case.get("stream_addon"):
            f.request.stream = True

    def responseheaders(self, f):
        if self.case.get("stream_addon") and f.response is not None:
            f.response.stream = True


def run_h1(ctx, opts, case):
    r = ctx.rng
    mode = case["mode"]
    reqs = case["reqs"]
    trigger = reqs[-1]

    def open_plan(drv, conn, n):
        if case["open_error"] is not None:
            return case["open_error"]
        return None

    d = sansio.Driver(
        h1case.top_factory(mode),
        client=sansio.make_client(mode),
        options=opts,
        rng=r,
        addons=[h1case.ForceHttp(), ViaAddon(case)],
        server_factory=make_origin(case, r, trigger["tag"]),
        open_plan=open_plan,
        schedule=case["schedule"],
        snapshot=sansio.http_snapshot,
        max_steps=6000,
    )
    if mode == "transparent":
        d.context.server.address = ("example.com", 80)
    stream = b"".join(q["raw"] for q in reqs)
    hold = case.get("hold_after")
    if hold is None:
        csegs = peers.cut(stream, r, case["client_seg"])
    else:
        # the rest of the upload waits until the origin's early answer has been relayed to the client and the proxy is quiescent
        def gate(drv):
            return trigger["tag"] in bytes(drv.out[drv.client]) and not drv.pending and not any(q for c, q in drv.inbox.items() if c is not drv.client)

        tail = peers.cut(stream[hold:], r, case["client_seg"])
        csegs = peers.cut(stream[:hold], r, case["client_seg"]) + [(tail[0], gate)] + tail[1:]
    d.attach_client_peer(sansio.ScriptPeer(csegs))
    d.start()
    d.run()
    closed_by_proxy = d.peers[d.client].got_eof
    d.teardown()
    if d.budget_exceeded:
        ctx.count("inconclusive_cases")
        return None
    for e in d.exceptions:
        ctx.seen("layer_exceptions", f"{e[0]}@{e[1]}")
    down = bytes(d.out[d.client])
    errors = [snap["error"] for _, name, _, snap in d.hooks if name == "error" and snap]

    def wit(**kw):
        w = {"proto": "h1", "mode": mode, "source": case["source"], "marker": case["marker"], "client_stream": stream[:700], "options": case["options"], "validate": case["validate"],
             "server": (case["server"] or {}).get("raw", b"")[:300] if case["server"] else None, "open_error": case["open_error"], "hooks": d.hook_names()[:20], "flow_errors": errors[:3], "down": down[:900]}
        w.update(kw)
        return w

    page_status = None
    reached = False
    if down:
        methods = [q["method"] for q in reqs]
        ctx.count("down.parse")
        # relayed origin messages that precede the own page are not this property's subject (validation off relays junk verbatim):
        # judge the byte range that starts at the own page's status line (the page announces close, so it must be the tail)
        pos = down.find(b"\r\nServer: mitmproxy")
        if pos >= 0:
            start = down.rfind(b"HTTP/1.", 0, pos)
            pre = down[:start]
            j = 0
            if pre:
                j = len(reqs) - 1
                stp, pmsgs, prest = ref.parse_responses(pre, methods, eof=False)
                ctx.count("page.position")
                if stp == "ok" and not prest:
                    finals = sum(1 for m_ in pmsgs if not 100 <= m_["status"] < 200)
                    if finals >= len(reqs):
                        ctx.violation("page.framed", wit(problem="unsolicited own page: every request on this connection already has its final response", finals_before_page=finals, requests=len(reqs)))
                    j = min(finals, len(reqs) - 1)
                elif stp == "incomplete":
                    ctx.violation("page.framed", wit(problem="own page written into the client stream while another response is still incomplete (its bytes become part of that response)", preceding=pre[-300:]))
                else:
                    ctx.count("preceding_relayed_bytes_unparsed")  # reference REJECTS what precedes: relayed origin junk (validation off)
            down_seg, methods = down[start:], methods[j:]
        else:
            down_seg = down
        st, msgs, rest = ref.parse_responses(down_seg, methods, eof=True)
        if (st != "ok" or rest) and not strict_method_defined(trigger["raw"]):
            st, msgs, rest = ref.parse_responses(down_seg, methods[:-1] + ["GET"], eof=True)
            ctx.count("method_undefined_fallback")
        if (st != "ok" or rest) and b"Server: mitmproxy" not in down:
            ctx.count("down_unparsed_without_own_page")  # e.g. invalid origin header names relayed with validation off: not an error page
        elif st != "ok" or rest:
            info = {"head_unparsed_by_mitmproxy": reqs[-1]["method"] == "HEAD" and not any(TAG.search(s_["request"]["path"].encode("latin-1", "replace")) and TAG.search(s_["request"]["path"].encode("latin-1", "replace")).group(0) == trigger["tag"] for _, _, _, s_ in d.hooks if s_ and s_.get("request"))}
            st2, msgs2, rest2 = ref.parse_responses(down_seg, methods[:-1] + ["GET"], eof=True)
            info["ok_as_get"] = st2 == "ok" and not rest2 and bool(msgs2) and msgs2[-1]["status"] == 400 and dict(msgs2[-1]["headers"]).get("server", b"").startswith(b"mitmproxy")
            ctx.violation("page.framed", wit(problem="bytes sent to the client are not a complete response sequence", status=st, rest_or_reason=rest if isinstance(rest, str) else bytes(rest)[:200]), classify("page.framed", info))
        else:
            for idx, msg in enumerate(msgs):
                hd = dict(msg["headers"])
                own = hd.get("server", b"").startswith(b"mitmproxy") or msg["body"].lstrip().lower().startswith(b"<html>\n<head>\n    <title>")
                if "x-tag" in hd:
                    continue
                if 100 <= msg["status"] < 200 and not msg["headers"]:
                    continue
                if not own:
                    if case["source"] != "connect-eager-fail":
                        ctx.count("relayed_untagged_origin_message")  # raw origin answer relayed (validation off / proxy refusal body): not mitmproxy's text
                        continue
                    # a message made by mitmproxy itself that is not an error page: the plain 502 answer to CONNECT
                    ctx.count("other_own_message")
                    ctx.seen("other_own", f"{msg['status']} ct={hd.get('content-type')}")
                    looks_html = hd.get("content-type", b"").lower().startswith(b"text/html") or msg["body"].lstrip()[:1] == b"<"
                    if looks_html:
                        ctx.count("page.other_html")
                        off = escaped_only(re.sub(rb"</?(?:html|head|title|body|h1|p)>", b"", msg["body"]))
                        if off:
                            ctx.violation("page.other_html", wit(problem="own HTML message with unescaped text: " + off, body=msg["body"][:400]))
                    continue
                ctx.count("pages.h1")
                page_status = msg["status"]
                is_head = msg["framing"] == "none"
                body = msg["body"]
                ctx.count("page.framed")
                problem = None
                if is_head:
                    if not re.fullmatch(rb"[0-9]+", hd.get("content-length", b"")):
                        problem = "head-only page without a numeric Content-Length"
                elif msg["framing"] != "cl":
                    problem = f"page framed by {msg['framing']} instead of Content-Length"
                elif int(hd["content-length"]) != len(body):
                    problem = "Content-Length differs from body length"
                if problem is None and idx != len(msgs) - 1:
                    problem = "bytes follow a page that announces Connection: close"
                if problem is None and b"close" not in hd.get("connection", b"").lower():
                    problem = "page does not announce Connection: close"
                if problem is None and not closed_by_proxy:
                    problem = "connection left open after a page that announces Connection: close"
                if problem:
                    ctx.violation("page.framed", wit(problem=problem, head=msg["raw_head"][:300]))
                if is_head:
                    ctx.count("pages.head_only")
                    ctx.count("page.content_type")
                    if not hd.get("content-type", b"").lower().startswith(b"text/html"):
                        ctx.violation("page.content_type", wit(problem="head-only page without HTML content type", head=msg["raw_head"][:300]))
                else:
                    rch, _ = judge_page(ctx, wit, case, msg["status"], msg["headers"], body, "h1")
                    reached = reached or rch
    if reached:
        ctx.count("pages.reflecting")
        ctx.seen("sources_reflecting", case["source"])
    if page_status:
        ctx.seen("sources_with_page", f"h1:{case['source']}:{page_status}")
    mk = g.MARKERS.index(next(t for t in g.MARKERS if (t % case["n"]) == case["marker"]))
    sig = ("h1", mode.split(":")[0], case["source"], mk, reqs[-1]["method"], len(reqs), page_status, reached, case["validate"])
    sample = {"proto": "h1", "mode": mode, "source": case["source"], "marker": case["marker"], "client_stream": stream[:300], "page_status": page_status, "reached": reached, "down": down[:500]}
    return sig, bool(page_status and reached), sample


def make_origin(case, r, trigger_tag):
    """server_factory for both client protocols: HTTP/1 origin / upstream proxy answering the trigger with the case's raw bytes."""

    def responder(k, msg, peer):
        m = TAG.search(msg["target"])
        tag = m.group(0) if m else None
        srv = case["server"]
        if msg["method"] == "CONNECT" or (tag == trigger_tag and srv and srv["kind"] == "raw"):
            if srv and srv["kind"] == "raw":
                return srv["raw"], srv["close"]
            return b"HTTP/1.1 200 OK\r\n\r\n", False
        body = b"echo:" + (tag or b"?") + b":" + g.mb(case["marker"])
        if msg["method"] == "HEAD":
            return b"HTTP/1.1 200 OK\r\nx-tag: " + (tag or b"?") + b"\r\nContent-Length: %d\r\n\r\n" % len(body), False
        return b"HTTP/1.1 200 OK\r\nx-tag: " + (tag or b"?") + b"\r\nContent-Type: text/html\r\nContent-Length: %d\r\n\r\n" % len(body) + body, False

    class RawPeer(peers.H1ServerPeer):
        """Answers as soon as a request head is complete (the reference may or may not accept what the proxy wrote)."""

        def on_data(self_, data):
            if case["server"] and case["server"]["kind"] == "raw" and b"\r\n\r\n" in self_.received and not self_.closed and not self_.answered:
                st, msgs, rest = ref.parse_requests(bytes(self_.received))
                if msgs or st != "reject":
                    return peers.H1ServerPeer.on_data(self_, data)
                self_.answered = 1
                self_.send(case["server"]["raw"])
                if case["server"]["close"]:
                    self_.close()
                    self_.closed = True
                return
            peers.H1ServerPeer.on_data(self_, data)

    early_ok = None
    if case["server"] and case["server"].get("early"):
        # early-answering origin: answers the trigger as soon as it holds its HEAD, while the streamed body is still uploading
        def early_ok(k, hm):
            m = TAG.search(hm["target"])
            return bool(m) and m.group(0) == trigger_tag

    return lambda drv, conn: RawPeer(responder, r, case["server_seg"], early_ok=early_ok)


def run_h2(ctx, opts, case):
    from vf.peers_c07_h2 import H2ClientPeer, H2Request

    r = ctx.rng
    mode = case["mode"]
    reqs = case["reqs"]
    trigger = reqs[-1]
    client = sansio.make_client(mode)
    client.alpn = b"h2"
    d = sansio.Driver(
        h1case.top_factory(mode),
        client=client,
        options=opts,
        rng=r,
        addons=[h1case.ForceHttp(), ViaAddon(case)],
        server_factory=make_origin(case, r, trigger["tag"]),
        open_plan=lambda drv, conn, n: case["open_error"],
        schedule=case["schedule"],
        snapshot=sansio.http_snapshot,
        max_steps=6000,
    )
    if mode == "transparent":
        d.context.server.address = ("example.com", 80)
    peer = H2ClientPeer([H2Request(q["headers"], q["body"], chunk=r.choice([1, 4, 16384])) for q in reqs], cut=lambda b: peers.cut(b, r, case["client_seg"]))
    d.attach_client_peer(peer)
    d.start()
    d.run()
    d.teardown()
    if d.budget_exceeded:
        ctx.count("inconclusive_cases")
        return None
    for e in d.exceptions:
        ctx.seen("layer_exceptions", f"{e[0]}@{e[1]}")
    errors = [snap["error"] for _, name, _, snap in d.hooks if name == "error" and snap]

    def wit(**kw):
        w = {"proto": "h2", "mode": mode, "source": case["source"], "marker": case["marker"], "requests": [(q["headers"], q["body"]) for q in reqs], "options": case["options"], "validate": case["validate"],
             "server": (case["server"] or {}).get("raw", b"")[:300] if case["server"] else None, "open_error": case["open_error"], "hooks": d.hook_names()[:20], "flow_errors": errors[:3],
             "streams": {k: {"headers": v["headers"], "data": v["data"][:600], "ended": v["ended"], "reset": v["reset"]} for k, v in peer.streams.items()}, "goaway": peer.terminated}
        w.update(kw)
        return w

    ctx.count("down.parse.h2")
    if peer.protocol_errors and trigger["method"] == "HEAD" and "InvalidBodyLengthError" in peer.protocol_errors[0]:
        # mitmproxy's HTTP/2 error page carries DATA in answer to HEAD; the property's framing clause is about HTTP/1 only -> evidence, not a violation
        ctx.count("h2.page_with_data_in_answer_to_head")
    elif peer.protocol_errors and not case["validate"] and case["server"] and case["server"]["kind"] == "raw":
        ctx.count("h2.relayed_origin_message_refused_by_client_library")  # validation off: the origin's malformed head is relayed, not an own page
    elif peer.protocol_errors:
        ctx.violation("page.framed", wit(problem="the h2 library refuses what mitmproxy sent to the client", errors=peer.protocol_errors[:2]))
    page_status = None
    reached = False
    for sid, st in peer.streams.items():
        if st["headers"] is None:
            continue
        hd = {}
        for n, v in st["headers"]:
            hd.setdefault(n.decode("latin-1").lower(), v)
        if "x-tag" in hd:
            continue
        if not hd.get("server", b"").startswith(b"mitmproxy"):
            ctx.count("relayed_untagged_origin_message")
            continue
        ctx.count("pages.h2")
        page_status = int(hd.get(":status", b"0"))
        ctx.count("page.framed")
        problem = None
        if not st["ended"] or st["reset"] is not None:
            problem = "page stream not ended cleanly"
        elif "content-length" in hd and hd["content-length"] != b"%d" % len(st["data"]):
            problem = "content-length differs from DATA length"
        if problem:
            ctx.violation("page.framed", wit(problem=problem, stream=sid))
        rch, _ = judge_page(ctx, wit, case, page_status, [(n.decode("latin-1").lower(), v) for n, v in st["headers"]], st["data"], "h2")
        reached = reached or rch
    if peer.terminated:
        ctx.count("h2.goaway")
        ctx.seen("h2_goaway_sources", case["source"])
    if reached:
        ctx.count("pages.reflecting")
        ctx.count("pages.reflecting.h2")
        ctx.seen("sources_reflecting", "h2:" + case["source"])
    if page_status:
        ctx.seen("sources_with_page", f"h2:{case['source']}:{page_status}")
    mk = g.MARKERS.index(next(t for t in g.MARKERS if (t % case["n"]) == case["marker"]))
    sig = ("h2", mode.split(":")[0], case["source"], mk, trigger["method"], len(reqs), page_status, reached, case["validate"])
    sample = {"proto": "h2", "mode": mode, "source": case["source"], "marker": case["marker"], "trigger_headers": trigger["headers"], "page_status": page_status, "reached": reached,
              "page": next((v["data"][:400] for v in peer.streams.values() if v["headers"] and any(n == b"server" for n, _ in v["headers"])), None)}
    return sig, bool(page_status and reached), sample


def run_case(ctx, opts, defaults):
    r = ctx.rng
    h2 = r.random() < 0.3
    case = g.gen_h2_case(r, ctx.case_index) if h2 else g.gen_case(r, ctx.case_index)
    o = dict(defaults)
    o.update(case["options"])
    o["validate_inbound_headers"] = case["validate"]
    opts.update(**o)
    return run_h2(ctx, opts, case) if h2 else run_h1(ctx, opts, case)


def run(ctx):
    tctx, _ = sansio.addon_context()
    opts = tctx.options
    defaults = {k: getattr(opts, k) for k in OPT_KEYS}
    try:
        for i in ctx.cases():
            res = ctx.guard(run_case, ctx, opts, defaults, what="c12 case")
            if res is None:
                ctx.case(("aborted",), False)
                continue
            sig, nontrivial, sample = res
            ctx.case(sig, nontrivial, sample)
    finally:
        opts.update(**defaults)
