"""C02 -- HTTP/1 behaviour does not depend on TCP segmentation or pipelining.

Metamorphic monitor on engine A: one deterministic case spec (pipelined hostile requests in ONE packet, scripted
origin responses and addon edits that are pure functions of the request tag) is executed under a baseline
(whole stream, FIFO completions) and under k other TCP-legal segmentations/schedules (1-byte delivery, every
single split point for short streams in the thorough tier, random cuts, random interleaving of hook completions
and server segments).  Oracle: the schedule-independent outcome -- per-flow (hook sequence, request snapshot,
response snapshot, error), semantic upstream requests (independent parser), semantic client responses in order --
must equal the baseline's; responses must answer the requests in pipeline order (tags).
"""
from vf import h1case, sansio
from vf.ref import http1 as ref

PROPERTY = "C02"
LEVEL = "exploration"
ENGINE = "sansio"
BUDGET = {"quick": (260, 22), "thorough": (12000, 240)}
WORKERS = {"quick": 4, "thorough": 16}
REQUIRED = ["outcome_compared", "pipeline_order", "streaming_cases", "sequential_unsolicited_cases"]
TECHNIQUE = "runtime monitoring: metamorphic re-execution under different segmentations/schedules, outcome compared via independent parser"
RULE = (
    "case = spec of 1-4 pipelined generated requests (valid and hostile) + deterministic responses/edits; executed under baseline + "
    "1-byte + 6 random (quick) / + all single split points for streams <= 300 B (thorough) segmentations and random schedules; "
    "signature = (mode, request features, #requests, #segmentation variants); non-trivial iff >=2 distinct segmentations ran and >=1 flow completed"
)
ASSUMPTIONS = [
    "schedules are TCP-legal: per-connection byte order preserved, a response is sent only after its request was completely written upstream",
    "client EOF only after all traffic (an early FIN is a different input, not a different segmentation)",
    "unsolicited origin bytes behind a complete response are only generated for a sequential client (request k sent after the answer to k-1 "
    "arrived and the proxy is quiescent): with a pipelining client their arrival races with the forwarding of the next request, which no proxy can decide",
    "streaming leg (30% of cases, well-formed traffic, body streaming by option or addon, origin may answer as soon as it has the request head): "
    "request-side and response-side hooks of one flow legitimately interleave by arrival order, so hook order is compared per direction",
]
LEVEL_TEXT = (
    "Exploration with a metamorphic oracle: the same conversation is replayed under many segmentations and completion orders; any "
    "difference in flows, hook sequences or semantically parsed peer traffic refutes the property. Thorough tier enumerates every "
    "single split point of short streams."
)
LEVEL_NOTE = "Trusted: vf/ref/http1.py, vf/sansio.py scheduler (models ConnectionHandler); outcome excludes timestamps and ids."


def _own(msg):
    """mitmproxy's own client-bound messages: HTML error page or the bare interim 100 Continue."""
    status, headers, body = msg[0], dict(msg[1]), msg[2]
    return (status == 100 and not headers) or headers.get("server", b"").startswith(b"mitmproxy")


def classify(spec, base, oc, df):
    """Mechanism from properties of the input and of the two outcomes (never from seeds)."""
    areas = {x[0] for x in df}
    if areas == {"down"} and base["flows"] == oc["flows"] and base["up"] == oc["up"]:
        # identical flows and upstream traffic; the executions differ only in which of mitmproxy's OWN messages
        # (400 page / 100 Continue) reached the client before the connection was closed, and the input contains a
        # request with a body in the same stream whose head is rejected or whose chunked body is rejected by the reader.
        a, b = base["down"], oc["down"]
        common = [m for m in a if m in b]
        extra = [m for m in a + b if m not in common]
        errored = any(f[3] for f in base["flows"])
        has_body_req = any(q["framing"] in ("chunked", "cl") and q["raw"] for q in spec["reqs"])
        if extra and all(len(m) == 3 and isinstance(m[0], int) and _own(m) for m in extra) and errored and has_body_req:
            return "own-client-message-lost-when-body-reader-closes-during-pending-head-hook"
    return None


def diff_outcome(a, b):
    out = []
    for k in ("flows", "up", "down"):
        if a[k] != b[k]:
            la, lb = a[k], b[k]
            if len(la) != len(lb):
                out.append((k, "count", len(la), len(lb)))
            for i, (x, y) in enumerate(zip(la, lb)):
                if x != y:
                    out.append((k, i, repr(x)[:500], repr(y)[:500]))
                    break
    return out


def run(ctx):
    tctx, addons = sansio.addon_context()
    opts = tctx.options
    for i in ctx.cases():
        r = ctx.rng
        spec = h1case.build_spec(r, allow_1xx=False, streaming_p=0.3)
        if "streaming" not in spec and len(spec["reqs"]) >= 2 and r.random() < 0.3:
            # sequential client + origin that writes unsolicited bytes behind a complete response: whether those bytes share a
            # segment with the end of the response must not matter (they always arrive before the next request is sent)
            spec["sequential"] = True
            spec["unsolicited_p"] = 0.6
            ctx.count("sequential_unsolicited_cases")
        stream = b"".join(q["raw"] for q in spec["reqs"])

        def ex(cseg, sseg, sched):
            return h1case.execute(spec, opts, r, client_seg=cseg, server_seg=sseg, schedule=sched)

        try:
            d0, info0 = ex("whole", "whole", "fifo")
        except Exception as e:  # harness-level failure
            ctx.violation("baseline-crashed", {"stream": stream, "exc": repr(e)})
            ctx.case(("crash",), False)
            continue
        if d0.budget_exceeded:
            ctx.count("inconclusive_cases")
            ctx.case(("budget",), False)
            continue
        base = h1case.outcome(d0, spec)
        variants = [("bytes", "whole", "fifo"), ("bytes", "bytes", "random")] if len(stream) < 2500 else []
        variants += [("random", "random", "random") for _ in range(6 if ctx.tier == "quick" else 10)]
        variants += [("whole", "random", "random")]
        if spec.get("streaming"):
            ctx.count("streaming_cases")
            variants += [("random", "bytes", "random"), ("bytes", "random", "random"), ("random", "random", "random"), ("random", "whole", "random")]
        if len(stream) <= 300:
            pts = list(range(1, len(stream)))
            if ctx.tier == "quick":
                pts = r.sample(pts, min(8, len(pts)))
            variants += [(p, "whole", "fifo") for p in pts]
        nvar = 0
        for cseg, sseg, sched in variants:
            d1, info1 = ex(cseg, sseg, sched)
            if d1.budget_exceeded:
                ctx.count("inconclusive_cases")
                continue
            nvar += 1
            oc = h1case.outcome(d1, spec)
            ctx.count("outcome_compared")
            ctx.seen("hook_sequences", ",".join(d1.hook_names()))
            for e in d1.exceptions:
                ctx.seen("layer_exceptions", f"{e[0]}@{e[1]}")
            df = diff_outcome(base, oc)
            if df:
                mech = classify(spec, base, oc, df)
                ctx.violation(
                    "outcome-depends-on-segmentation:" + "+".join(sorted({x[0] for x in df})),
                    {"mode": spec["mode"], "stream": stream, "variant": (cseg if not isinstance(cseg, int) else f"split@{cseg}", sseg, sched), "diff": df, "base_hooks": d0.hook_names(), "var_hooks": d1.hook_names()},
                    mech,
                )
                break
        # pipeline order on the baseline: tagged responses answer requests in order
        ctx.count("pipeline_order")
        st, msgs, rest = ref.parse_responses(bytes(d0.out[d0.client]), [q["method"] for q in spec["reqs"]], eof=True)
        if st == "ok":
            for m in msgs:
                tag = dict(m["headers"]).get("x-tag")
                if tag is not None and (m["for_request"] >= len(spec["reqs"]) or spec["reqs"][m["for_request"]]["tag"] != tag):
                    ctx.violation("pipelined-response-answers-wrong-request", {"stream": stream, "down": bytes(d0.out[d0.client]), "tag": tag, "for_request": m["for_request"]})
        feats = sorted(set().union(*[q["feats"] for q in spec["reqs"]]))
        completed = any("response" in str(f[0]) or "error" in str(f[0]) for f in base["flows"])
        ctx.case((spec["mode"].split(":")[0], tuple(feats), len(spec["reqs"]), min(nvar, 12)), nvar >= 2 and completed, {"mode": spec["mode"], "stream": stream[:300], "variants": nvar, "base_hooks": d0.hook_names()})
